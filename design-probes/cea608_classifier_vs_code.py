import sys, logging
sys.path.insert(0,'/repo/src/main/python')
from ttconv.scc.word import SccWord
from ttconv.scc.codes.control_codes import SccControlCode
from ttconv.scc.codes.attribute_codes import SccAttributeCode
from ttconv.scc.codes.mid_row_codes import SccMidRowCode
from ttconv.scc.codes.preambles_address_codes import SccPreambleAddressCode
from ttconv.scc.codes.special_characters import SccSpecialCharacter
from ttconv.scc.codes.extended_characters import SccExtendedCharacter
from ttconv.scc.codes import SccChannel
# independent spec from CEA-608 bit layout
ROW={(0x11,0):1,(0x11,1):2,(0x12,0):3,(0x12,1):4,(0x15,0):5,(0x15,1):6,(0x16,0):7,(0x16,1):8,(0x17,0):9,(0x17,1):10,(0x10,0):11,(0x13,0):12,(0x13,1):13,(0x14,0):14,(0x14,1):15}
def spec(v):
    b1=(v>>8)&0x7F; b2=v&0x7F
    if b1==0 and b2==0: return ('pad',None)
    if b1>=0x20: return ('text',None)
    if b1<0x10: return ('unknown',None)   # XDS etc
    ch=2 if b1&0x08 else 1
    c1=b1&0xF7  # channel-1 equivalent
    if 0x40<=b2<=0x7F:
        r=ROW.get((c1,(b2>>5)&1))
        if r is not None: return ('pac',ch,r)
        return ('unknown',None)
    if c1==0x10 and 0x20<=b2<=0x2F: return ('attr',ch)
    if c1==0x11 and 0x20<=b2<=0x2F: return ('midrow',ch)
    if c1==0x11 and 0x30<=b2<=0x3F: return ('special',ch)
    if c1 in (0x12,0x13) and 0x20<=b2<=0x3F: return ('extended',ch)
    if c1==0x14 and 0x20<=b2<=0x2F: return ('control',ch)      # field 1
    if c1==0x15 and 0x20<=b2<=0x2F: return ('control',None)    # field 2 -> neither channel
    if c1==0x17 and 0x21<=b2<=0x23: return ('control',ch)      # tab offsets
    if c1==0x17 and 0x2D<=b2<=0x2F: return ('attr',ch)
    return ('unknown',None)
def impl(v):
    w=SccWord.from_value(v)
    if w.value==0: return ('pad',None)
    if w.byte_1>=0x20: return ('text',None)
    c=w.get_code(); ch=w.get_channel(); chn={None:None,SccChannel.CHANNEL_1:1,SccChannel.CHANNEL_2:2}[ch]
    if c is None: return ('unknown',None)
    if isinstance(c,SccPreambleAddressCode): return ('pac',chn,c.get_row())
    k={SccControlCode:'control',SccAttributeCode:'attr',SccMidRowCode:'midrow',SccSpecialCharacter:'special',SccExtendedCharacter:'extended'}[type(c)]
    return (k,chn)
from collections import Counter
diff=Counter(); ex={}
for v in range(65536):
    a,b=spec(v),impl(v)
    if a!=b:
        key=(a[0],b[0]); diff[key]+=1; ex.setdefault(key,[]).append(hex(v))
print(sum(diff.values()),"disagreements")
for k,n in diff.items(): print(k,n,ex[k][:8])
# text one-byte words: b1>=0x20 and b2 < 0x20 nonzero
w=SccWord.from_value(0x4105); print(repr(w.to_text()))
