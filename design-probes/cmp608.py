import sys, random
from ref608 import *
def doc_screen_at(doc, f):
    t=F(f,30); rows=[]
    ps=[e for e in doc.get_body().dfs_iterator() if isinstance(e,m.P)]
    for p in ps:
        if p.get_begin()<=t and (p.get_end() is None or t<p.get_end()):
            reg=p.get_region(); oy=reg.get_style(s.StyleProperties.Origin).y.value
            lines=[[]]
            for c in p:
                if isinstance(c,m.Br): lines.append([])
                else:
                    b=c.get_begin()
                    if b is not None and p.get_begin()+b>t: continue
                    lines[-1].append("".join(x.get_text() for x in c if isinstance(x,m.Text)))
            txt=["".join(l) for l in lines]
            first=(15-len(txt)+1) if reg.get_style(s.StyleProperties.DisplayAlign) is s.DisplayAlignType.after else ROWPCT[int(oy)]-2+1
            for k,l in enumerate(txt):
                if l.strip()!="": rows.append((first+k,l.strip()))
    return sorted(rows)
def stable_compare(lines, W=2):
    doc=reader.to_model(to_scc(lines,False))
    rc=ref_changes(lines)  # (lo,hi,screen)
    # chains
    chains=[]
    for lo,hi,sc in rc:
        if chains and lo<=chains[-1][1]: chains[-1][1]=max(chains[-1][1],hi); chains[-1][2]=sc
        else: chains.append([lo,hi,sc])
    bad=[]; tested=0
    prev_hi=-1; prev_sc=[]
    end=lines[-1][0]+len(lines[-1][1])+40
    for k,(lo,hi,sc) in enumerate(chains+[[end,end,None]]):
        for f in range(prev_hi+1, lo):
            if f<0: continue
            tested+=1
            if doc_screen_at(doc,f)!=prev_sc: bad.append((f,prev_sc,doc_screen_at(doc,f))); break
        prev_hi=hi; prev_sc=sc
    return bad,tested
def gen_painton(rng,dbl):
    lines=[]; tc=rng.randint(30,200)
    for cap in range(rng.randint(1,3)):
        ws=[RDC]
        r0=rng.randint(1,12)
        for k in range(rng.randint(1,2)):
            ws.append(pac(r0+k, rng.choice([0,4,8])))
            ws+=words_of_text(rng.choice(["HELLO","AB","WORLD X","TESTING 12"]))
        if dbl: ws=[x for w in ws for x in ((w,w) if (w>>8)<0x20 else (w,))]
        lines.append((tc,ws)); tc+=len(ws)+rng.randint(5,60)
        lines.append((tc,[EDM,EDM] if dbl else [EDM])); tc+=rng.randint(5,40)
    return lines
if __name__=="__main__":
    rng=random.Random(int(sys.argv[1])); N=int(sys.argv[2])
    for name,g in (("popon",gen_popon),("rollup",gen_rollup),("painton",gen_painton)):
        for dbl in (False,True):
            ok=0; shown=0; ex={}
            for i in range(N):
                lines=g(rng,dbl)
                try: bad,tested=stable_compare(lines)
                except Exception as e:
                    bad=[type(e).__name__+": "+str(e)]; ex[type(e).__name__]=ex.get(type(e).__name__,0)+1
                ok+= (not bad)
                if bad and shown<1:
                    shown+=1; print("---",name,"dbl",dbl,"\n",to_scc(lines,False),"\nBAD",bad)
            print(name,"doubled" if dbl else "single","stable-frame agreement",ok,"/",N,ex)
