"""Prototype of S for C04 timing: TTML2 time containment computed directly on XML, vs reader+ISD"""
import sys, random, logging
sys.path.insert(0,'/repo/src/main/python'); sys.path.insert(0,'.')
logging.disable(logging.CRITICAL)
from fractions import Fraction as F
import xml.etree.ElementTree as et
import ttconv.model as m
import ttconv.imsc.reader as ir
from ttconv.isd import ISD
NS="http://www.w3.org/ns/ttml"
INF=None
def tmin(a,b):
    if a is None: return b
    if b is None: return a
    return min(a,b)
def tmax(a,b):
    if a is None or b is None: return None
    return max(a,b)
def tstr(q): return f"{q.numerator}/{q.denominator}s" if q.denominator!=1 else f"{q.numerator}s"
def parse(v):
    if v is None: return None
    v=v[:-1]
    if "/" in v: a,b=v.split("/"); return F(int(a),int(b))
    return F(v)
cnt=[0]
def gen_el(rng, tag, depth):
    e=et.Element("{%s}%s"%(NS,tag))
    if rng.random()<0.5: e.set("begin", "%ds"%rng.randint(0,6))
    r=rng.random()
    if r<0.3: e.set("end","%ds"%rng.randint(0,14))
    elif r<0.5: e.set("dur","%ds"%rng.randint(0,8))
    elif r<0.55: e.set("end","%ds"%rng.randint(0,14)); e.set("dur","%ds"%rng.randint(0,8))
    if rng.random()<0.25 and tag!="br": e.set("timeContainer","seq")
    kids={"body":["div"],"div":["div","p"],"p":["span","br","#text"],"span":["span","br","#text"]}[tag]
    n=rng.randint(0,3) if depth<5 else 0
    last=None
    for _ in range(n):
        k=rng.choice(kids)
        if k=="#text":
            cnt[0]+=1; t="T%d"%cnt[0]
            if last is None: e.text=(e.text or "")+t
            else: last.tail=(last.tail or "")+t
        elif k=="br":
            last=et.SubElement(e,"{%s}br"%NS)
        else:
            last=gen_el(rng,k,depth+1); e.append(last)
    return e
def gen(rng):
    tt=et.Element("{%s}tt"%NS); tt.set("{http://www.w3.org/XML/1998/namespace}lang","en")
    tt.append(gen_el(rng,"body",0)); return tt
# ---- spec: returns list of (text, abs_begin, abs_end) ----
def spec_leaves(tt):
    out=[]
    body=tt.find("{%s}body"%NS)
    def local(e): return e.tag.split('}')[1]
    def dur_of(e, parent_seq, syncbase):
        """returns (begin_rel, end_rel or None) relative to parent's begin, and collects leaves lazily via closure"""
    # two passes: first compute intervals relative to parent (needs implicit durations bottom-up), then absolute
    def rel(e, parent_is_seq, implicit_begin):
        """interval of e relative to parent begin: (b, end|None), plus child structure"""
        b=implicit_begin+(parse(e.get("begin")) or 0)
        seq=e.get("timeContainer")=="seq"
        tag=local(e)
        # implicit duration (relative to own begin)
        items=[]  # ('text', str) or ('el', node)
        if tag!="br":
            if e.text: items.append(('text',e.text))
            for c in e:
                items.append(('el',c))
                if c.tail: items.append(('text',c.tail))
        kids=[]; impl=F(0); cursor=F(0)
        if tag=="br":
            impl=F(0) if parent_is_seq else None
        else:
            for kind,x in items:
                if kind=='text':
                    if tag in ("p","span"):
                        if seq:
                            kids.append(('text',x,cursor,cursor))  # zero duration in seq
                        else:
                            kids.append(('text',x,F(0),None)); impl=None if True else impl
                            impl=None
                else:
                    cb,ce,ck=rel(x, seq, cursor if seq else F(0))
                    kids.append(('el',x,cb,ce,ck))
                    if seq:
                        if ce is None: cursor=None; impl=None
                        else: cursor=ce; impl=ce
                        if cursor is None: break_after=True
                    else:
                        impl=tmax(impl,ce) if impl is not None else None
                    if seq and cursor is None:
                        # following siblings never begin
                        cursor=None
                        break
        d=parse(e.get("dur")); en=parse(e.get("end"))
        if d is not None and en is not None: end=min(b+d, implicit_begin+en)
        elif d is not None: end=b+d
        elif en is not None: end=implicit_begin+en
        else: end=None if impl is None else b+impl
        return b,end,kids
    def walk(kids, pb, pe):
        for k in kids:
            if k[0]=='text':
                _,x,cb,ce=k
                ab=pb+cb; ae=tmin(pe, None if ce is None else pb+ce)
                out.append((x,ab,ae))
            else:
                _,x,cb,ce,ck=k
                ab=pb+cb; ae=tmin(pe, None if ce is None else pb+ce)
                walk(ck,ab,ae)
    if body is None: return out
    b,e_,k=rel(body,False,F(0))
    walk(k,b,e_)
    return out
def vis_spec(leaves,t): return sorted(x for x,b,e in leaves if b<=t and (e is None or t<e))
def vis_impl(doc,t):
    isd=ISD.from_model(doc,t); out=[]
    for r in isd.iter_regions():
        for e in r.dfs_iterator():
            if isinstance(e,m.Text) and e.get_text().strip(): out.append(e.get_text().strip())
    return sorted(out)
if __name__=="__main__":
    rng=random.Random(int(sys.argv[1])); N=int(sys.argv[2])
    from collections import Counter
    res=Counter(); shown=0
    for i in range(N):
        tt=gen(rng); hasseq=any(e.get("timeContainer")=="seq" for e in tt.iter())
        try: doc=ir.to_model(et.ElementTree(tt))
        except Exception as ex: res[("exc "+type(ex).__name__, hasseq)]+=1; continue
        leaves=spec_leaves(tt)
        ts=sorted({x for _,b,e in leaves for x in (b,e) if x is not None}|{F(0)})
        probes=sorted(set(ts)|{(a+b)/2 for a,b in zip(ts,ts[1:])}|{ts[-1]+1})
        bad=[(t,vis_spec(leaves,t),vis_impl(doc,t)) for t in probes if vis_spec(leaves,t)!=vis_impl(doc,t)]
        res[("differs" if bad else "same", hasseq)]+=1
        if bad and shown<3 and not hasseq:
            shown+=1; print(et.tostring(tt,encoding="unicode").replace('xmlns:ns0="http://www.w3.org/ns/ttml" ','').replace("ns0:","")[:600]); print("  ",bad[0])
    print({f"{k[0]} seq={k[1]}":v for k,v in res.items()})
