import sys, random, logging, dataclasses
sys.path.insert(0,'/repo/src/main/python'); sys.path.insert(0,'.')
logging.disable(logging.CRITICAL)
from fractions import Fraction as F
import ttconv.model as m, ttconv.style_properties as s
from ttconv.isd import ISD
import spec03, docgen
SP=s.StyleProperties; U=s.LengthType.Units
from collections import Counter
viol=Counter(); ex={}
def note(k,info):
    viol[k]+=1
    if k not in ex: ex[k]=info
def lens(v,out):
    if isinstance(v,s.LengthType): out.append(v)
    elif dataclasses.is_dataclass(v):
        for f in dataclasses.fields(v): lens(getattr(v,f.name),out)
    elif isinstance(v,tuple):
        for x in v: lens(x,out)
def check(doc,isd):
    for r in isd.iter_regions():
        if len(r)>1 or any(not isinstance(c,m.Body) for c in r): note("region children",r.get_id())
        if len(r)==0 and r.get_style(SP.ShowBackground) is not s.ShowBackgroundType.always: note("empty region kept",r.get_id())
        if r.get_style(SP.Origin) is not None:
            o=r.get_style(SP.Origin); p=r.get_style(SP.Position)
            if p is None or (o.x,o.y)!=(p.h_offset,p.v_offset): note("origin!=position",str((o,p))[:100])
        for e in r.dfs_iterator():
            if e.get_begin() is not None or e.get_end() is not None: note("timing",type(e).__name__)
            if list(e.iter_animation_steps()): note("anim",type(e).__name__)
            if e.get_region() is not None: note("regionref",type(e).__name__)
            keys=set(e.iter_styles()); app={p for p in SP.ALL if e.is_style_applicable(p)}
            if isinstance(e,(m.Br,m.Text)):
                if not keys<=app: note("inapplicable on br/text",str(keys-app))
            else:
                if keys!=app: note("styles != applicable", (type(e).__name__, sorted(x.__name__ for x in keys^app)))
            for p in keys:
                out=[]; lens(e.get_style(p),out)
                for l in out:
                    if l.units not in (U.rh,U.rw): note("unit "+p.__name__, (type(e).__name__,str(l)))
            if e.get_style(SP.Display) is s.DisplayType.none: note("display none",type(e).__name__)
            if isinstance(e,m.Text) and e.get_text()=="": note("empty text","")
            if isinstance(e,m.Span) and not e.has_children(): note("childless span","")
            if isinstance(e,m.Text) and e.parent().get_space() is m.WhiteSpaceHandling.DEFAULT:
                t=e.get_text()
                if any(c in t for c in "\t\r\n") or "  " in t: note("uncollapsed ws",(type(e.parent().parent()).__name__,repr(t)))
rng=random.Random(int(sys.argv[1])); N=int(sys.argv[2]); n=0
for i in range(N):
    for g in (spec03.gen, docgen.gen):
        doc=g(rng)
        for t in (F(0),F(1),F(3,2),F(4),F(7)):
            try: isd=ISD.from_model(doc,t)
            except Exception as e: note("exception "+type(e).__name__, str(e)[:60]); continue
            n+=1; check(doc,isd)
print("snapshots",n); 
for k,v in viol.items(): print(v,k,ex[k])
