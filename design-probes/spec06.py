import sys, random, logging, re
sys.path.insert(0,'/repo/src/main/python'); sys.path.insert(0,'.')
logging.disable(logging.CRITICAL)
from fractions import Fraction as F
import ttconv.model as m, ttconv.style_properties as s
from ttconv.isd import ISD
import ttconv.srt.writer as sw, ttconv.vtt.writer as vw
from ttconv.vtt.config import VTTWriterConfiguration
from docgen import gen
from spec01 import leaves_spec, nows
def ms(t): 
    x=t*1000; fl=x.numerator//x.denominator; r=x-fl
    if r>F(1,2) or (r==F(1,2) and fl%2==1): fl+=1
    return fl
def spec_cues(doc):
    st=list(ISD.significant_times(doc))   # S uses its own sig list in Coq; here reuse (C02 finding separate)
    cues=[]
    for i,t in enumerate(st):
        regs=list(doc.iter_regions())
        txt=""
        for R in (regs if regs else [None]):
            l=leaves_spec(doc,R,t)
            if l: txt+=nows(l)+"|"
        txt=txt.replace("|","")
        if txt=="": continue
        end=st[i+1] if i+1<len(st) else None
        cues.append((ms(t), ms(end) if end is not None else ms(t)+10000, txt))
    return cues
TC=re.compile(r"(\d+):(\d\d):(\d\d)[,.](\d\d\d) --> (\d+):(\d\d):(\d\d)[,.](\d\d\d)")
def parse_srt(txt):
    cues=[]; blocks=[b for b in txt.split("\n\n") if b.strip()]
    for b in blocks:
        ls=b.split("\n"); mm=TC.match(ls[1]); g=[int(x) for x in mm.groups()]
        payload=re.sub(r"<[^>]*>","","".join(ls[2:]))
        cues.append(((g[0]*3600+g[1]*60+g[2])*1000+g[3], (g[4]*3600+g[5]*60+g[6])*1000+g[7], "".join(c for c in payload if c not in " \t\r\n")))
    return cues
rng=random.Random(int(sys.argv[1])); N=int(sys.argv[2])
ok=0; cats={}
for i in range(N):
    doc=gen(rng)
    sc=spec_cues(doc)
    try: out=sw.from_model(doc); ic=parse_srt(out)
    except Exception as e:
        cats[type(e).__name__]=cats.get(type(e).__name__,0)+1; continue
    if sc==ic: ok+=1
    else:
        nreg=len(list(doc.iter_regions()))
        k="multi-region" if nreg>1 else "single/none region"
        # classify
        if [c[:2] for c in sc]==[c[:2] for c in ic]: k+=" text-differs"
        else: k+=" intervals-differ"
        cats[k]=cats.get(k,0)+1
        if cats[k]<=1: print("EX",k,"\nSPEC",sc[:4],"\nIMPL",ic[:4])
print("agree",ok,"/",N,cats)
rng=random.Random(int(sys.argv[1]))
for i in range(N):
    doc=gen(rng)
    try: out=sw.from_model(doc)
    except Exception: continue
    if spec_cues(doc)!=parse_srt(out):
        print(repr(out[:300])); break
