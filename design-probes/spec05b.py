import sys, random, logging, io, dataclasses
sys.path.insert(0,'/repo/src/main/python'); sys.path.insert(0,'.')
from fractions import Fraction as F
import xml.etree.ElementTree as et
import ttconv.model as m, ttconv.style_properties as s
from ttconv.isd import ISD
import ttconv.imsc.reader as ir, ttconv.imsc.writer as iw
from ttconv.imsc.config import IMSCWriterConfiguration
from ttconv.imsc.attributes import TimeExpressionSyntaxEnum as TE
import spec03, docgen
from spec01 import alltimes
logging.disable(logging.CRITICAL)
def approx(a,b):
    if isinstance(a,(int,float,F)) and isinstance(b,(int,float,F)) and not isinstance(a,bool):
        a=F(a); b=F(b); return abs(a-b)<=F(1,10**5)*max(1,abs(a),abs(b))
    if dataclasses.is_dataclass(a) and type(a) is type(b): return all(approx(getattr(a,f.name),getattr(b,f.name)) for f in dataclasses.fields(a))
    if isinstance(a,tuple) and isinstance(b,tuple): return len(a)==len(b) and all(approx(x,y) for x,y in zip(a,b))
    return a==b
def snap(doc,t):
    isd=ISD.from_model(doc,t); out=[]
    for r in isd.iter_regions():
        for e in r.dfs_iterator():
            out.append((type(e).__name__, e.get_text() if isinstance(e,m.Text) else None, {p.__name__:e.get_style(p) for p in e.iter_styles()}))
    return out
def same(a,b):
    if len(a)!=len(b): return "shape %d vs %d"%(len(a),len(b))
    for x,y in zip(a,b):
        if x[0]!=y[0] or x[1]!=y[1]: return "node %s/%s"%(x[:2],y[:2])
        for k in x[2]:
            if k not in y[2] or not approx(x[2][k],y[2][k]): return "style "+k
    return None
rng=random.Random(int(sys.argv[1])); N=int(sys.argv[2])
from collections import Counter
res=Counter(); ex={}
cfgs=[None, IMSCWriterConfiguration(time_format=TE.clock_time), IMSCWriterConfiguration(time_format=TE.frames,fps=F(25)), IMSCWriterConfiguration(time_format=TE.clock_time_with_frames,fps=F(30)), IMSCWriterConfiguration(time_format=TE.frames,fps=F(30000,1001))]
for i in range(N):
    for g in (spec03.gen, docgen.gen):
        doc=g(rng); cfg=rng.choice(cfgs)
        # avoid known triggers (#10 none values, Fraction-valued numbers, LinePadding units, 2-length shadows)
        SPn=s.StyleProperties
        def scrub(e):
            for p in list(e.iter_styles()):
                v=e.get_style(p)
                if v is s.SpecialValues.none or p in (SPn.Opacity,SPn.Shear,SPn.LuminanceGain,SPn.LinePadding,SPn.TextShadow,SPn.Disparity): e.set_style(p,None)
            for a in list(e.iter_animation_steps()):
                if a.value is s.SpecialValues.none or a.style_property in (SPn.Opacity,SPn.Shear,SPn.LuminanceGain,SPn.LinePadding,SPn.TextShadow,SPn.Disparity): e.remove_animation_step(a)
            for c in e: scrub(c)
        for r in doc.iter_regions(): scrub(r)
        if doc.get_body() is not None: scrub(doc.get_body())
        for p,v in list(doc.iter_initial_values()):
            if v is s.SpecialValues.none or p in (SPn.Opacity,SPn.Shear,SPn.LuminanceGain,SPn.LinePadding,SPn.TextShadow,SPn.Disparity): doc.put_initial_value(p,None)
        try: tree=iw.from_model(doc,cfg); buf=io.BytesIO(); tree.write(buf,encoding="utf-8")
        except Exception as e:
            k="write "+type(e).__name__; res[k]+=1; ex.setdefault(k,str(e)[:80]); continue
        try: doc2=ir.to_model(et.ElementTree(et.fromstring(buf.getvalue())))
        except Exception as e:
            k="reread "+type(e).__name__; res[k]+=1; ex.setdefault(k,str(e)[:80]); continue
        ts=alltimes(doc); probes=sorted({(a+b)/2 for a,b in zip(ts,ts[1:]) if b-a>F(1,10)}) or [F(0)]
        # only representable times: use integer/half-second times so ms and 25/30fps frames are exact; 30000/1001 not exact -> skip time-sensitive compare there
        why=None
        for t in probes:
            try: why=same(snap(doc,t),snap(doc2,t))
            except Exception as e: why="isd "+type(e).__name__
            if why: break
        k="same" if why is None else "differs: "+why.split(" ")[0]+" "+(why.split(" ")[1] if why.startswith("style") else "")
        res[k]+=1; ex.setdefault(k,(g.__module__, str(t), why))
for k,v in sorted(res.items(), key=lambda kv:-kv[1]): print(v,k,ex.get(k))
