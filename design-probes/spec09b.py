import sys, unicodedata
sys.path.insert(0,'/repo/src/main/python')
from ttconv.stl import iso6937
COMB={0x300:0xC1,0x301:0xC2,0x302:0xC3,0x303:0xC4,0x304:0xC5,0x306:0xC6,0x307:0xC7,0x308:0xC8,0x30A:0xCA,0x327:0xCB,0x30B:0xCD,0x328:0xCE,0x30C:0xCF}
spec={}
for cp in range(0xC0,0x180):
    d=unicodedata.decomposition(chr(cp)).split()
    if len(d)==2 and not d[0].startswith('<'):
        b,c=int(d[0],16),int(d[1],16)
        if c in COMB and b<0x80: spec[(COMB[c],b)]=chr(cp)
code={ (k[0],k[1]):v for k,v in iso6937._CCT0_DECODE_MAP.items() if len(k)==2 and k[1]!=0x20}
print("spec pairs",len(spec),"code pairs",len(code))
print("in spec not code:",[(hex(k[0]),chr(k[1]),v) for k,v in spec.items() if k not in code])
print("in code not spec:",[(hex(k[0]),chr(k[1]),v) for k,v in code.items() if k not in spec])
print("differ:",[(hex(k[0]),chr(k[1]),code[k],v) for k,v in spec.items() if k in code and code[k]!=v])
