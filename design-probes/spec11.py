import sys, io, itertools, logging
sys.path.insert(0,'/repo/src/main/python')
logging.disable(logging.CRITICAL)
import ttconv.vtt.reader as vr, ttconv.style_properties as s
SP=s.StyleProperties
lines=[None,"0","1","5","-1","-3","0%","50%","100%","10%,start","50%,center","90%,end","100%,center","0%,end"]
positions=[None,"0%","50%","100%","10%,line-left","50%,center","90%,line-right","0%,line-right","100%,line-left"]
sizes=[None,"100%","50%","10%","0%"]
aligns=[None,"left","right","center","start","end"]
verts=[None,"lr","rl"]
from collections import Counter
bad=Counter(); ex={}; n=0
for ln,po,sz,al,ve in itertools.product(lines,positions,sizes,aligns,verts):
    st=" ".join(f"{k}:{v}" for k,v in (("line",ln),("position",po),("size",sz),("align",al),("vertical",ve)) if v is not None)
    txt=f"WEBVTT\n\n00:00.000 --> 00:01.000 {st}\nhi\n"
    try: d=vr.to_model(io.StringIO(txt))
    except Exception as e: bad["exc "+type(e).__name__]+=1; continue
    n+=1
    r=list(d.iter_regions())[0]; o=r.get_style(SP.Origin); e=r.get_style(SP.Extent)
    x,y,w,h=o.x.value,o.y.value,e.width.value,e.height.value
    eps=1e-9
    k=None
    if w<-eps or h<-eps: k="negative extent"
    elif x<-eps or y<-eps or x+w>100+eps or y+h>100+eps: k="outside root"
    if k:
        # classify by which settings present
        cls=k+" | "+",".join(n_ for n_,v in (("line<=0",ln in("0","-1","-3")),("line",ln is not None and ln not in("0","-1","-3")),("position",po is not None),("size",sz is not None),("vertical",ve is not None)) if v)
        bad[cls]+=1
        if cls not in ex: ex[cls]=(st,(x,y,w,h))
print("settings combos",n)
for k,v in sorted(bad.items(), key=lambda kv:-kv[1]): print(v,k,ex.get(k))
