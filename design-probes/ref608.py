"""Reference CEA-608 decoder (prototype of S for C08) + stream generator + doc renderer"""
import sys, random, logging
sys.path.insert(0,'/repo/src/main/python')
logging.disable(logging.CRITICAL)
from fractions import Fraction as F
import ttconv.model as m, ttconv.style_properties as s
import ttconv.scc.reader as reader
from ttconv.scc.word import SccWord
from ttconv.scc.codes.special_characters import SccSpecialCharacter
from ttconv.scc.codes.extended_characters import SccExtendedCharacter
from ttconv.scc.codes.standard_characters import SCC_STANDARD_CHARACTERS_MAPPING as STD
ROWMAP={(0x11,0):1,(0x11,1):2,(0x12,0):3,(0x12,1):4,(0x15,0):5,(0x15,1):6,(0x16,0):7,(0x16,1):8,(0x17,0):9,(0x17,1):10,(0x10,0):11,(0x13,0):12,(0x13,1):13,(0x14,0):14,(0x14,1):15}
PAC_OF_ROW={r:k for k,r in ROWMAP.items()}
def pac(row, indent=0, ul=False):
    b1,hi=PAC_OF_ROW[row]; b2=0x40+(0x20 if hi else 0)+0x10+(indent//4)*2+(1 if ul else 0)
    return (b1<<8)|b2
class Ref:
    def __init__(s):
        s.D={}; s.N={}; s.mode='pop'; s.depth=0; s.row=15; s.col=0; s.base=15; s.prev=None; s.changes=[]
    def mem(s): return s.N if s.mode=='pop' else s.D
    def put(s,ch):
        s.mem()[(s.row,s.col)]=ch
        if s.col<31: s.col+=1
    def screen(s):
        rows={}
        for (r,c),ch in s.D.items(): rows.setdefault(r,{})[c]=ch
        out=[]
        for r in sorted(rows):
            cs=rows[r]; lo,hi=min(cs),max(cs)
            out.append((r,"".join(cs.get(c," ") for c in range(lo,hi+1)).strip()))
        return [x for x in out if x[1]!=""]
    def feed(s, v, idx):
        v&=0x7F7F; b1=v>>8; b2=v&0xFF
        before=s.screen()
        if v==0: s.prev=None; return
        if b1>=0x20:
            s.prev=None
            for b in (b1,b2):
                if b>=0x20: s.put(STD.get(b,chr(b)))
        elif 0x10<=b1<=0x1F:
            if s.prev==v: s.prev=None; return
            s.prev=v
            if b1&0x08: return  # channel 2
            if 0x40<=b2<=0x7F:
                r=ROWMAP.get((b1,(b2>>5)&1))
                if r is None: return
                ind=((b2&0x1F)-0x10 - (b2&1))*2 if (b2&0x10) else 0
                if s.mode=='roll':
                    if r!=s.base:
                        # move window
                        delta=r-s.base
                        s.D={(rr+delta,c):ch for (rr,c),ch in s.D.items() if 1<=rr+delta<=15}
                        s.base=r
                    s.row=s.base; s.col=ind
                else:
                    s.row=r; s.col=ind
            elif b1==0x11 and 0x20<=b2<=0x2F: s.put(" ")
            elif b1==0x11 and 0x30<=b2<=0x3F: s.put(SccSpecialCharacter.find(v).get_unicode_value())
            elif b1 in (0x12,0x13) and 0x20<=b2<=0x3F:
                if s.col>0: s.col-=1
                s.mem().pop((s.row,s.col),None)
                s.put(SccExtendedCharacter.find(v).get_unicode_value())
            elif b1==0x14 and 0x20<=b2<=0x2F:
                c=b2
                if c==0x20: s.mode='pop'
                elif c==0x29: s.mode='paint'
                elif c in (0x25,0x26,0x27):
                    if s.mode!='roll': s.D={}; s.N={}; s.base=15; s.row=15; s.col=0
                    s.mode='roll'; s.depth=c-0x23
                    # trim to depth
                    s.D={(r,cc):ch for (r,cc),ch in s.D.items() if s.base-s.depth<r<=s.base}
                elif c==0x21:
                    if s.col>0: s.col-=1
                    s.mem().pop((s.row,s.col),None)
                elif c==0x24:
                    for cc in range(s.col,32): s.mem().pop((s.row,cc),None)
                elif c==0x2C: s.D={}
                elif c==0x2E: s.N={}
                elif c==0x2F: s.D,s.N=s.N,s.D; s.mode='pop'
                elif c==0x2D and s.mode=='roll':
                    nd={}
                    for (r,cc),ch in s.D.items():
                        if s.base-s.depth+1 < r <= s.base: nd[(r-1,cc)]=ch
                    s.D=nd; s.col=0
            elif b1==0x17 and 0x21<=b2<=0x23: s.col=min(31,s.col+(b2-0x20))
        after=s.screen()
        if after!=before: s.changes.append((idx,after))
def ref_changes(lines):
    """lines: list of (frame_tc, [words]) -> list of (lo,hi frame window, screen)"""
    r=Ref(); out=[]
    for tc,ws in lines:
        for i,w in enumerate(ws):
            n=len(r.changes); r.feed(w,i)
            if len(r.changes)>n: out.append((tc+i, tc+i+2, r.changes[-1][1]))
    return out
def odd(b):
    return b | (0x80 if bin(b).count('1')%2==0 else 0)
def tcstr(fr): 
    return "%02d:%02d:%02d:%02d"%(fr//108000,(fr//1800)%60,(fr//30)%60,fr%30)
def to_scc(lines, dbl):
    out=["Scenarist_SCC V1.0",""]
    for tc,ws in lines:
        out.append(tcstr(tc)+"\t"+" ".join("%02x%02x"%(odd(w>>8),odd(w&0xFF)) for w in ws)); out.append("")
    return "\n".join(out)
ROWPCT={round(c*100/19):c for c in range(19)}
def doc_changes(doc):
    """render the document: list of (frame, screen) at every begin/end"""
    ps=[e for e in doc.get_body().dfs_iterator() if isinstance(e,m.P)]
    times=sorted({p.get_begin() for p in ps}|{p.get_end() for p in ps if p.get_end() is not None})
    out=[]; prev=[]
    for t in times:
        rows=[]
        for p in ps:
            if p.get_begin()<=t and (p.get_end() is None or t<p.get_end()):
                reg=p.get_region(); oy=reg.get_style(s.StyleProperties.Origin).y.value
                lines=[[]]
                for c in p:
                    if isinstance(c,m.Br): lines.append([])
                    else:
                        b=c.get_begin()
                        if b is not None and p.get_begin()+b>t: continue
                        lines[-1].append("".join(x.get_text() for x in c if isinstance(x,m.Text)))
                txt=["".join(l) for l in lines]
                if reg.get_style(s.StyleProperties.DisplayAlign) is s.DisplayAlignType.after:
                    first=15-len(txt)+1
                else:
                    first=ROWPCT[int(oy)]-2+1
                for k,l in enumerate(txt):
                    if l.strip()!="": rows.append((first+k,l.strip()))
        rows.sort()
        if rows!=prev: out.append((int(t*30),rows)); prev=rows
    return out
# generators
RCL,BS,AOF,AON,DER,RU2,RU3,RU4,FON,RDC,TR,RTD,EDM,CR,ENM,EOC=[0x1420+i for i in range(16)]
def words_of_text(txt):
    bs=[ord(c) for c in txt]
    if len(bs)%2: bs.append(0x00)  # pad second byte with null
    return [(bs[i]<<8)|bs[i+1] for i in range(0,len(bs),2)]
def gen_popon(rng, dbl):
    lines=[]; tc=rng.randint(30,200)
    for cap in range(rng.randint(1,4)):
        ws=[RCL]
        if rng.random()<0.5: ws.append(ENM)
        r0=rng.randint(1,12)
        for k in range(rng.randint(1,3)):
            ws.append(pac(r0+k, rng.choice([0,4,8])))
            if rng.random()<0.3: ws.append(0x1720+rng.randint(1,3))
            ws+=words_of_text(rng.choice(["HELLO","AB","WORLD X","TESTING 12"]))
        if rng.random()<0.5: ws.append(EDM)
        ws.append(EOC)
        if dbl: ws=[x for w in ws for x in ((w,w) if (w>>8)<0x20 else (w,))]
        lines.append((tc,ws)); tc+=len(ws)+rng.randint(5,60)
        if rng.random()<0.6:
            lines.append((tc,[EDM,EDM] if dbl else [EDM])); tc+=rng.randint(5,40)
    return lines
def gen_rollup(rng, dbl):
    lines=[]; tc=rng.randint(30,200); depth=rng.choice([RU2,RU3,RU4])
    for cap in range(rng.randint(2,6)):
        ws=[depth,CR,pac(15,rng.choice([0,4]))]+words_of_text(rng.choice(["LINE ONE","SECOND","THIRD LINE","X"]))
        if dbl: ws=[x for w in ws for x in ((w,w) if (w>>8)<0x20 else (w,))]
        lines.append((tc,ws)); tc+=len(ws)+rng.randint(5,60)
    return lines
def compare(lines):
    scc=to_scc(lines,False)
    doc=reader.to_model(scc)
    rc=ref_changes(lines); dc=doc_changes(doc)
    # final: model flushes with end None, so trailing screens fine
    ok_content=[x[2] for x in rc]==[x[1] for x in dc]
    ok_time=ok_content and all(lo<=f<=hi for (lo,hi,_),(f,_) in zip(rc,dc))
    return ok_content, ok_time, rc, dc, scc
if __name__=="__main__":
    rng=random.Random(int(sys.argv[1])); N=int(sys.argv[2])
    for name,g in (("popon",gen_popon),("rollup",gen_rollup)):
        for dbl in (False,True):
            c=t=0; shown=0
            for i in range(N):
                lines=g(rng,dbl)
                try: okc,okt,rc,dc,scc=compare(lines)
                except Exception as e:
                    okc=okt=False; rc=dc=type(e).__name__+str(e); scc=to_scc(lines,False)
                c+=okc; t+=okt
                if not okc and shown<1:
                    shown+=1; print("---",name,"dbl",dbl,"\n",scc,"\nREF",rc,"\nDOC",dc)
            print(name,"doubled" if dbl else "single","content ok",c,"/",N,"time ok",t,"/",N)
