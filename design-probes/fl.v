From Coq Require Import ZArith PrimFloat Uint63 List.
Import ListNotations.
Open Scope Z_scope.
(* float(Fraction(n,d)) for n,d < 2^53 is the correctly rounded quotient = PrimFloat.div of exact conversions *)
Definition fl_of_Z (z:Z) : float := PrimFloat.of_uint63 (Uint63.of_Z z).
Definition trunc_to_Z (f:float) : Z :=
  (* f >= 0, < 2^62 *) Uint63.to_Z (PrimFloat.normfr_mantissa (fst (PrimFloat.frshiftexp f))) (* placeholder *).
(* int(x) for 0 <= x < 2^53: use floor via comparison search on of_uint63: simple approach: convert using Prim2SF *)
From Coq Require Import FloatOps SpecFloat.
Definition float_to_Z_trunc (f:float) : Z :=
  match Prim2SF f with
  | S754_finite false m e => if (0 <=? e) then Z.pos m * 2^e else Z.pos m / 2^(-e)
  | _ => 0
  end.
Definition from_seconds_frames (n d : Z) (fps: float) : Z :=
  float_to_Z_trunc (PrimFloat.mul (PrimFloat.div (fl_of_Z n) (fl_of_Z d)) fps).
Definition bad25 := filter (fun k => negb (from_seconds_frames k 25 25%float =? k)) (map Z.of_nat (seq 0 200)).
Eval vm_compute in bad25.
