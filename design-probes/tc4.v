From Coq Require Import ZArith Lia Bool ZifyBool.
Open Scope Z_scope.
Ltac Zify.zify_post_hook ::= Z.to_euclidean_division_equations.

Definition df_adjust (n:Z) : Z :=
  let tens := n / 17982 in
  let rem := n mod 17982 in
  let mins := (rem - 2) / 1798 in
  let mins := if mins <? 0 then 0 else mins in
  n + 18*tens + 2*mins.
Definition label_of (a:Z) : Z*Z*Z*Z := (a / 108000, (a / 1800) mod 60, (a / 30) mod 60, a mod 30).
Definition label (n:Z) := label_of (df_adjust n).

Definition succ (l:Z*Z*Z*Z) : Z*Z*Z*Z :=
  let '(h,m,s,f) := l in
  if f + 1 <? 30 then (h,m,s,f+1) else
  if s + 1 <? 60 then (h,m,s+1,0) else
  if m + 1 <? 60 then (h, m+1, 0, if (m+1) mod 10 =? 0 then 0 else 2) else
  (h+1, 0, 0, 0).

(* one step of the adjusted count: +1, or +3 exactly when crossing into a minute not divisible by 10 *)
Lemma adjust_step n : 0 <= n ->
  let a := df_adjust n in let a' := df_adjust (n+1) in
  0 <= a /\
  ((a' = a + 1 /\ (a mod 1800 = 1799 -> ((a + 1) / 1800) mod 10 = 0)) \/
   (a' = a + 3 /\ a mod 1800 = 1799 /\ ((a + 1) / 1800) mod 10 <> 0)).
Proof.
  intros Hn. cbv zeta. unfold df_adjust.
  set (t := n / 17982). set (r := n mod 17982).
  assert (Hr : 0 <= r < 17982) by (unfold r; lia). assert (Ht : 0 <= t) by (unfold t; lia).
  assert (En : n = 17982 * t + r) by (unfold t, r; lia).
  destruct (Z.eq_dec r 17981) as [E|E].
  - (* wrap into the next ten-minute block *)
    assert (E1 : (n + 1) / 17982 = t + 1) by lia. assert (E2 : (n + 1) mod 17982 = 0) by lia.
    rewrite E1, E2. fold t r. rewrite E.
    change ((17981 - 2) / 1798 <? 0) with false. change ((0 - 2) / 1798 <? 0) with true. cbv zeta iota beta.
    change ((17981 - 2) / 1798) with 9. lia.
  - assert (E1 : (n + 1) / 17982 = t) by lia. assert (E2 : (n + 1) mod 17982 = r + 1) by lia.
    rewrite E1, E2. fold t r.
    set (k := (r - 2) / 1798). set (k' := (r + 1 - 2) / 1798).
    assert (Hk : -1 <= k <= 9) by (unfold k; lia). assert (Hk' : k' = k \/ (k' = k + 1 /\ r + 1 - 2 = 1798 * k')) by (unfold k, k'; lia).
    destruct (k <? 0) eqn:F1; destruct (k' <? 0) eqn:F2; cbv zeta; unfold k, k' in *; lia.
Qed.

Theorem label_succ n : 0 <= n -> label (n+1) = succ (label n).
Proof.
  intros Hn. unfold label. pose proof (adjust_step n Hn) as H. cbv zeta in H.
  set (a := df_adjust n) in *. set (a' := df_adjust (n+1)) in *. clearbody a a'.
  destruct H as [Ha [[E Hm]|[E [H1 H2]]]]; subst a'; unfold label_of, succ.
  - destruct (a mod 30 + 1 <? 30) eqn:F1; [f_equal; [f_equal; [f_equal|]|]; lia|].
    destruct ((a / 30) mod 60 + 1 <? 60) eqn:F2; [f_equal; [f_equal; [f_equal|]|]; lia|].
    assert (a mod 1800 = 1799) by lia. specialize (Hm H).
    destruct ((a / 1800) mod 60 + 1 <? 60) eqn:F3.
    + assert (E10 : ((a / 1800) mod 60 + 1) mod 10 = 0) by lia.
      replace (((a / 1800) mod 60 + 1) mod 10 =? 0) with true by lia.
      f_equal; [f_equal; [f_equal|]|]; lia.
    + f_equal; [f_equal; [f_equal|]|]; lia.
  - replace (a mod 30 + 1 <? 30) with false by lia.
    replace ((a / 30) mod 60 + 1 <? 60) with false by lia.
    assert (F3 : (a / 1800) mod 60 + 1 <? 60 = true) by lia. rewrite F3.
    replace (((a / 1800) mod 60 + 1) mod 10 =? 0) with false by lia.
    f_equal; [f_equal; [f_equal|]|]; lia.
Qed.
Print Assumptions label_succ.
