import sys, random, logging, io, re
sys.path.insert(0,'/repo/src/main/python'); sys.path.insert(0,'.')
logging.disable(logging.CRITICAL)
from fractions import Fraction as F
import ttconv.model as m, ttconv.style_properties as s
import ttconv.srt.writer as sw, ttconv.srt.reader as sr, ttconv.vtt.writer as vw, ttconv.vtt.reader as vr
from ttconv.vtt.config import VTTWriterConfiguration
import docgen, spec03
from spec06 import parse_srt, TC
SP=s.StyleProperties
def cues_of_doc(doc):
    out=[]
    for p in doc.get_body().dfs_iterator():
        if isinstance(p,m.P):
            txt="".join(e.get_text() for e in p.dfs_iterator() if isinstance(e,m.Text))
            out.append((round(F(p.get_begin())*1000), round(F(p.get_end())*1000), "".join(c for c in txt if not c.isspace())))
    return out
def parse_vtt(txt):
    cues=[]
    for b in txt.split("\n\n"):
        ls=b.split("\n")
        for k,l in enumerate(ls):
            if "-->" in l:
                mm=TC.match(l); g=[int(x) for x in mm.groups()]
                payload=re.sub(r"<[^>]*>","","".join(ls[k+1:]))
                import html
                cues.append(((g[0]*3600+g[1]*60+g[2])*1000+g[3], (g[4]*3600+g[5]*60+g[6])*1000+g[7], "".join(c for c in html.unescape(payload) if not c.isspace())))
    return cues
rng=random.Random(int(sys.argv[1])); N=int(sys.argv[2])
from collections import Counter
res=Counter(); ex={}
for i in range(N):
    doc=docgen.gen(rng)
    # put markup-significant characters in some texts
    for e in (doc.get_body().dfs_iterator() if doc.get_body() else []):
        if isinstance(e,m.Text) and rng.random()<0.15: e.set_text(e.get_text()+rng.choice(["&","<","a<b","x&amp;y","-->","{b}"]))
        if isinstance(e,m.Span) and rng.random()<0.2: e.set_style(rng.choice([SP.FontWeight]), s.FontWeightType.bold)
        if isinstance(e,m.Span) and rng.random()<0.2: e.set_style(SP.Color, s.NamedColors.red.value)
    for name,w,r,parse in (("srt",lambda d:sw.from_model(d),sr.to_model,parse_srt),("vtt",lambda d:vw.from_model(d),vr.to_model,parse_vtt)):
        try: out=w(doc)
        except Exception as e: res[name+" write "+type(e).__name__]+=1; continue
        try: written=parse(out)
        except Exception as e: res[name+" harness-parse "+type(e).__name__]+=1; ex.setdefault(name+" hp",out[:200]); continue
        try: d2=r(io.StringIO(out))
        except Exception as e:
            k=name+" reread "+type(e).__name__; res[k]+=1; ex.setdefault(k,repr(out[:200])); continue
        if d2 is None: res[name+" reread None"]+=1; ex.setdefault(name+" reread None",repr(out[:200])); continue
        got=cues_of_doc(d2)
        k=name+(" roundtrip same" if got==written else " roundtrip differs")
        res[k]+=1
        if got!=written: ex.setdefault(k,(written[:3],got[:3],repr(out[:300])))
for k,v in sorted(res.items()): print(v,k,ex.get(k,""))
