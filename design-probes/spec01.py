import sys, random, logging
sys.path.insert(0,'/repo/src/main/python'); sys.path.insert(0,'.')
logging.disable(logging.CRITICAL)
from fractions import Fraction as F
import ttconv.model as m, ttconv.style_properties as s
from ttconv.isd import ISD
from docgen import gen
SP=s.StyleProperties
INF=None
def absiv(e, pb, pe):
    b=pb+(e.get_begin() or 0)
    if e.get_end() is None: en=pe
    else:
        en=pb+e.get_end()
        if pe is not None: en=min(en,pe)
    return b,en
def act(iv,t): return iv[0]<=t and (iv[1] is None or t<iv[1])
def display_at(doc,e,iv,t):
    v=None
    for a in e.iter_animation_steps():
        if a.style_property is SP.Display:
            ai=( iv[0]+(a.begin or 0), (min(iv[0]+a.end, iv[1]) if iv[1] is not None else iv[0]+a.end) if a.end is not None else iv[1])
            if act(ai,t): v=a.value
    if v is None: v=e.get_style(SP.Display)
    if v is None: v=doc.get_initial_value(SP.Display)
    if v is None: v=s.DisplayType.auto
    return v
def leaves_spec(doc, R, t):
    """list of (text or 'BR') of leaves presentable in region R (None = default region) at t; raw, before lwsp"""
    out=[]
    if R is not None:
        riv=absiv(R,0,None)
        if not act(riv,t) or display_at(doc,R,riv,t) is s.DisplayType.none: return None
    body=doc.get_body()
    if body is None: return out
    def rec(e, pb, pe, inh):
        iv=absiv(e,pb,pe)
        if not act(iv,t): return
        assoc=e.get_region() if e.get_region() is not None else inh
        if assoc is not R and (not e.has_children() or assoc is not None): return
        if not isinstance(e,(m.Br,m.Text)) and display_at(doc,e,iv,t) is s.DisplayType.none: return
        if isinstance(e,m.Text): out.append(e.get_text()); return
        if isinstance(e,m.Br): out.append('BR'); return
        for c in e: rec(c, iv[0], iv[1], assoc)
    rec(body,0,None,None)
    return out
def leaves_impl(isd_region):
    out=[]
    for e in isd_region.dfs_iterator():
        if isinstance(e,m.Text): out.append(e.get_text())
        elif isinstance(e,m.Br): out.append('BR')
    return out
def nows(l): return "".join(x for x in "".join('|' if y=='BR' else y for y in l) if x not in " \t\r\n")
def alltimes(doc):
    ts=set()
    def rec(e,pb,pe):
        iv=absiv(e,pb,pe); ts.add(iv[0]); 
        if iv[1] is not None: ts.add(iv[1])
        for a in e.iter_animation_steps():
            ts.add(iv[0]+(a.begin or 0))
            if a.end is not None: ts.add(iv[0]+a.end)
        for c in e: rec(c,iv[0],iv[1])
    for r in doc.iter_regions(): rec(r,0,None)
    if doc.get_body() is not None: rec(doc.get_body(),0,None)
    return sorted(ts)
def main():
  rng=random.Random(int(sys.argv[1]) if len(sys.argv)>1 else 1)
  N=int(sys.argv[2]) if len(sys.argv)>2 else 300
  bad=0; checked=0; sigbad=0; errs={}
  for n in range(N):
      doc=gen(rng)
      ts=alltimes(doc)
      probes=set(ts)
      for a,b in zip(ts,ts[1:]): probes.add((a+b)/2)
      if ts: probes.add(ts[-1]+1); 
      st=list(ISD.significant_times(doc))
      for t in sorted(probes):
          try: isd=ISD.from_model(doc,t)
          except Exception as e:
              errs[type(e).__name__]=errs.get(type(e).__name__,0)+1; continue
          regs=list(doc.iter_regions())
          for R in (regs if regs else [None]):
              spec=leaves_spec(doc,R,t)
              ir=isd.get_region(R.get_id() if R is not None else "default_region")
              impl=None if ir is None else leaves_impl(ir)
              checked+=1
              sp_n = None if spec is None else nows(spec)
              im_n = None if impl is None else nows(impl)
              # region absent in impl is fine iff spec has no non-ws text/br... (empty regions dropped unless showBackground)
              if (sp_n or "") != (im_n or ""):
                  bad+=1
                  if bad<4: print("MISMATCH doc",n,"t",t,"R",R and R.get_id(),"spec",spec,"impl",impl)
          # C02: completeness vs harness-computed change points
          prev=[x for x in st if x<=t]
          if prev:
              t0=prev[-1]
              try:
                  a=ISD.from_model(doc,t0); b=isd
                  fa=[(type(e).__name__, e.get_text() if isinstance(e,m.Text) else None, tuple(sorted((p.__name__,str(e.get_style(p))) for p in e.iter_styles()))) for r in a.iter_regions() for e in r.dfs_iterator()]
                  fb=[(type(e).__name__, e.get_text() if isinstance(e,m.Text) else None, tuple(sorted((p.__name__,str(e.get_style(p))) for p in e.iter_styles()))) for r in b.iter_regions() for e in r.dfs_iterator()]
                  if fa!=fb: sigbad+=1
              except Exception: pass
  print("checked",checked,"C01 leaf mismatches",bad,"C02 incompleteness hits",sigbad,"errors",errs)
if __name__=='__main__': main()
