import sys, random, logging, io
sys.path.insert(0,'/repo/src/main/python'); sys.path.insert(0,'.')
from fractions import Fraction as F
import xml.etree.ElementTree as et
import ttconv.model as m
from ttconv.isd import ISD
import ttconv.imsc.reader as ir, ttconv.imsc.writer as iw
import docgen
from spec01 import alltimes
logging.disable(logging.CRITICAL)
def texts(doc,t):
    return [e.get_text() for r in ISD.from_model(doc,t).iter_regions() for e in r.dfs_iterator() if isinstance(e,m.Text)]
rng=random.Random(11); shown=0
for i in range(400):
    doc=docgen.gen(rng)
    # make all times integers -> exactly representable in clock_time
    def rnd(e):
        if not isinstance(e,(m.Br,m.Text)):
            if e.get_begin() is not None: e.set_begin(F(int(e.get_begin())))
            if e.get_end() is not None: e.set_end(F(int(e.get_end())))
        for c in e: rnd(c)
    for r in doc.iter_regions(): rnd(r)
    if doc.get_body() is not None: rnd(doc.get_body())
    buf=io.BytesIO(); iw.from_model(doc).write(buf,encoding="utf-8")
    doc2=ir.to_model(et.ElementTree(et.fromstring(buf.getvalue())))
    ts=alltimes(doc); probes=sorted(set(ts)|{(a+b)/2 for a,b in zip(ts,ts[1:])}) or [F(0)]
    for t in probes:
        a,b=texts(doc,t),texts(doc2,t)
        if a!=b:
            shown+=1
            print("t",t,"orig",a,"reread",b); print(buf.getvalue().decode()[:900]); break
    if shown>=2: break
print("done",i)
