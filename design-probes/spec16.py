import sys, random, logging, copy
sys.path.insert(0,'/repo/src/main/python'); sys.path.insert(0,'.')
logging.disable(logging.CRITICAL)
from fractions import Fraction as F
import ttconv.model as m, ttconv.style_properties as s
from ttconv.isd import ISD
from ttconv.filters.doc.lcd import LCDDocFilter, LCDDocFilterConfig
import docgen
from spec01 import alltimes
SP=s.StyleProperties
def vis(doc,t):
    isd=ISD.from_model(doc,t); out=[]
    for r in isd.iter_regions():
        for e in r.dfs_iterator():
            if isinstance(e,m.Text): out.append("".join(c for c in e.get_text() if not c.isspace()))
    return sorted(x for x in out if x)
def strip_hiding(doc):
    def rec(e):
        e.set_style(SP.Display,None)
        for a in list(e.iter_animation_steps()):
            if a.style_property is SP.Display: e.remove_animation_step(a)
        for c in e: rec(c)
    for r in doc.iter_regions(): rec(r)
    if doc.get_body() is not None: rec(doc.get_body())
rng=random.Random(int(sys.argv[1])); N=int(sys.argv[2]) if __name__=="__main__" else 0
from collections import Counter
res=Counter(); shown=0
for i in range(N):
    doc=docgen.gen(rng); strip_hiding(doc)
    ts=alltimes(doc); probes=sorted(set(ts)|{(a+b)/2 for a,b in zip(ts,ts[1:])})
    before=[vis(doc,t) for t in probes]
    try: LCDDocFilter(LCDDocFilterConfig()).process(doc)
    except Exception as e: res["exc "+type(e).__name__]+=1; continue
    anim=sum(len(list(e.iter_animation_steps())) for e in ([*doc.iter_regions()]+(list(doc.get_body().dfs_iterator()) if doc.get_body() else [])))
    if anim: res["animation steps left"]+=1
    after=[vis(doc,t) for t in probes]
    if before!=after:
        res["timeline differs"]+=1
        if shown<2:
            shown+=1
            for t,a,b in zip(probes,before,after):
                if a!=b: print("t",t,"before",a,"after",b); break
    else: res["timeline same"]+=1
print(dict(res))
# classify
rng=random.Random(int(sys.argv[1])); c=Counter()
def conflict(doc):
    def rec(e,inh):
        r=e.get_region()
        if r is not None and inh is not None and r is not inh: return True
        return any(rec(ch, r if r is not None else inh) for ch in e)
    return doc.get_body() is not None and rec(doc.get_body(),None)
for i in range(N):
    doc=docgen.gen(rng); strip_hiding(doc); cf=conflict(doc)
    ts=alltimes(doc); probes=sorted(set(ts)|{(a+b)/2 for a,b in zip(ts,ts[1:])})
    before=[vis(doc,t) for t in probes]
    LCDDocFilter(LCDDocFilterConfig()).process(doc)
    after=[vis(doc,t) for t in probes]
    c[(before!=after, cf)]+=1
print({f"differs={k[0]},nested-conflict={k[1]}":v for k,v in c.items()})
