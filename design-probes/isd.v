From Coq Require Import QArith Qminmax List Bool Lia Lra.
Import ListNotations.
Open Scope Q_scope.

(* reduced canonical model: timing + animation + children *)
Record anim := { a_begin : option Q ; a_end : option Q ; a_val : nat }.
Inductive elem := Elem (b e : option Q) (anims : list anim) (cs : list elem).

Definition oQ (o : option Q) : Q := match o with Some q => q | None => 0 end.
(* _make_absolute *)
Definition mk_abs (b e : option Q) (pb : Q) (pe : option Q) : Q * option Q :=
  let bt := pb + oQ b in
  let et := match e with
            | None => pe
            | Some x => match pe with None => Some (pb + x) | Some y => Some (Qmin (pb + x) y) end
            end in (bt, et).

Definition le_b (x t : Q) := Qle_bool x t.
Definition active (bt : Q) (et : option Q) (t : Q) : bool :=
  le_b bt t && match et with None => true | Some e => negb (le_b e t) end.

Inductive out := Out (vals : list nat) (cs : list out).

Fixpoint isd (t : Q) (pb : Q) (pe : option Q) (x : elem) : option out :=
  match x with
  | Elem b e anims cs =>
    let '(bt, et) := mk_abs b e pb pe in
    if active bt et t then
      let vals := map a_val (filter (fun a => let '(ab, ae) := mk_abs (a_begin a) (a_end a) bt et in active ab ae t) anims) in
      Some (Out vals (flat_map (fun c => match isd t bt et c with Some o => [o] | None => [] end) cs))
    else None
  end.

(* significant times, fixed version: animation relative to element *)
Definition times_of (bt : Q) (et : option Q) : list Q := bt :: match et with Some e => [e] | None => [] end.
Fixpoint sig (pb : Q) (pe : option Q) (x : elem) : list Q :=
  match x with
  | Elem b e anims cs =>
    let '(bt, et) := mk_abs b e pb pe in
    times_of bt et ++ flat_map (fun a => let '(ab, ae) := mk_abs (a_begin a) (a_end a) bt et in times_of ab ae) anims
      ++ flat_map (sig bt et) cs
  end.

Definition same_side (l : list Q) (t1 t2 : Q) := forall s, In s l -> le_b s t1 = le_b s t2.

Lemma active_same bt et t1 t2 : same_side (times_of bt et) t1 t2 -> active bt et t1 = active bt et t2.
Proof.
  intros H. unfold active. rewrite (H bt) by (simpl; auto).
  destruct et as [e|]; [|reflexivity]. rewrite (H e) by (simpl; auto). reflexivity.
Qed.

Lemma same_side_app l1 l2 t1 t2 : same_side (l1 ++ l2) t1 t2 -> same_side l1 t1 t2 /\ same_side l2 t1 t2.
Proof. unfold same_side; split; intros; apply H, in_or_app; auto. Qed.

(* rose-tree induction *)
Section elem_ind2.
  Variable P : elem -> Prop.
  Hypothesis H : forall b e an cs, Forall P cs -> P (Elem b e an cs).
  Fixpoint elem_ind2 (x : elem) : P x :=
    match x with Elem b e an cs =>
      H b e an cs ((fix go (l : list elem) : Forall P l := match l with [] => Forall_nil _ | c :: l' => Forall_cons _ (elem_ind2 c) (go l') end) cs)
    end.
End elem_ind2.

Theorem stable : forall x pb pe t1 t2, same_side (sig pb pe x) t1 t2 -> isd t1 pb pe x = isd t2 pb pe x.
Proof.
  induction x as [b e an cs IH] using elem_ind2; intros pb pe t1 t2 Hs.
  cbn [isd sig] in *. destruct (mk_abs b e pb pe) as [bt et] eqn:E.
  apply same_side_app in Hs as [H1 Hs]. apply same_side_app in Hs as [H2 H3].
  rewrite (active_same _ _ _ _ H1). destruct (active bt et t2); [|reflexivity].
  f_equal. f_equal.
  - f_equal. clear -H2. induction an as [|a an IHa]; [reflexivity|]. cbn [filter flat_map] in *.
    destruct (mk_abs (a_begin a) (a_end a) bt et) as [ab ae].
    apply same_side_app in H2 as [Ha H2]. rewrite (active_same _ _ _ _ Ha), (IHa H2). reflexivity.
  - clear -IH H3. induction cs as [|c cs IHc]; [reflexivity|]. cbn [flat_map] in *.
    apply same_side_app in H3 as [Hc H3]. inversion IH as [|? ? Pc Pcs]; subst.
    rewrite (Pc _ _ _ _ Hc), (IHc Pcs H3). reflexivity.
Qed.
Print Assumptions stable.
