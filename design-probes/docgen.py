import sys, random
sys.path.insert(0,'/repo/src/main/python')
from fractions import Fraction as F
import ttconv.model as m, ttconv.style_properties as s
SP=s.StyleProperties
def rtime(rng, maxv=12):
    if rng.random()<0.35: return None
    d=rng.choice([1,1,1,2,3])
    return F(rng.randint(0,maxv*d), d)
def maybe_display(rng, e):
    r=rng.random()
    if r<0.08: e.set_style(SP.Display, s.DisplayType.none)
    elif r<0.12: e.set_style(SP.Display, s.DisplayType.auto)
    if rng.random()<0.12:
        e.add_animation_step(m.DiscreteAnimationStep(SP.Display, rtime(rng,6), rtime(rng,8), rng.choice([s.DisplayType.none,s.DisplayType.auto])))
    if rng.random()<0.15:
        e.add_animation_step(m.DiscreteAnimationStep(SP.Color, rtime(rng,6), rtime(rng,8), rng.choice([s.NamedColors.red.value,s.NamedColors.blue.value])))
def gen(rng):
    d=m.ContentDocument()
    nreg=rng.choice([0,1,1,2,3])
    regs=[]
    for i in range(nreg):
        r=m.Region(f"r{i}",d); 
        if rng.random()<0.4: r.set_begin(rtime(rng,4))
        if rng.random()<0.4: r.set_end(rtime(rng,14))
        if rng.random()<0.5: r.set_style(SP.ShowBackground, rng.choice(list(s.ShowBackgroundType)))
        maybe_display(rng,r); d.put_region(r); regs.append(r)
    if rng.random()<0.05: return d
    def timing(e):
        if rng.random()<0.5: e.set_begin(rtime(rng,6))
        if rng.random()<0.5: e.set_end(rtime(rng,12))
    def region(e):
        if regs and rng.random()<0.35: e.set_region(rng.choice(regs))
    cnt=[0]
    def text(parent):
        cnt[0]+=1; parent.push_child(m.Text(d, rng.choice(["T%d"%cnt[0]," T%d "%cnt[0],"  "," a  b%d"%cnt[0]])))
    def span(depth):
        e=m.Span(d); timing(e); region(e); maybe_display(rng,e)
        if rng.random()<0.3: e.set_space(m.WhiteSpaceHandling.PRESERVE)
        for _ in range(rng.randint(0,3)):
            k=rng.random()
            if k<0.6: text(e)
            elif k<0.75: e.push_child(m.Br(d))
            elif depth<3: e.push_child(span(depth+1))
        return e
    def p():
        e=m.P(d); timing(e); region(e); maybe_display(rng,e)
        for _ in range(rng.randint(0,3)):
            k=rng.random()
            if k<0.75: e.push_child(span(0))
            else: e.push_child(m.Br(d))
        return e
    def div(depth):
        e=m.Div(d); timing(e); region(e); maybe_display(rng,e)
        for _ in range(rng.randint(0,3)):
            if depth<2 and rng.random()<0.25: e.push_child(div(depth+1))
            else: e.push_child(p())
        return e
    b=m.Body(d); timing(b); region(b); maybe_display(rng,b)
    for _ in range(rng.randint(0,3)): b.push_child(div(0))
    d.set_body(b)
    return d
