import sys, unicodedata
sys.path.insert(0,'/repo/src/main/python')
from ttconv.stl import iso6937
# ISO 6937 non-spacing diacritics 0xC1..0xCF -> combining marks
COMB={0xC1:0x300,0xC2:0x301,0xC3:0x302,0xC4:0x303,0xC5:0x304,0xC6:0x306,0xC7:0x307,0xC8:0x308,0xCA:0x30A,0xCB:0x327,0xCD:0x30B,0xCE:0x328,0xCF:0x30C}
bad=[]; n=0; unk=0
for d,c in COMB.items():
    for b in list(range(0x41,0x5B))+list(range(0x61,0x7B)):
        comp=unicodedata.normalize('NFC', chr(b)+chr(c))
        got=iso6937.decode(bytes([d,b]), errors="ignore")[0]
        if len(comp)==1:
            n+=1
            if got!=comp:
                if got=="�": unk+=1
                bad.append((hex(d),chr(b),got,comp))
print("composable pairs",n,"mismatch",len(bad),"of which unknown-in-code",unk)
print([x for x in bad if x[2]!="�"][:20])
print("missing examples", [x for x in bad if x[2]=="�"][:30])
# how many pairs does the code define that are not NFC compositions
extra=[]
for k,v in iso6937._CCT0_DECODE_MAP.items():
    if len(k)==2 and k[0] in COMB:
        comp=unicodedata.normalize('NFC', chr(k[1])+chr(COMB[k[0]]))
        if comp!=v: extra.append((k,v,comp))
print("code pairs differing from NFC:",extra)
