"""Prototype of S for C03: computed style by property (cascade + compute), compared with ISD.from_model"""
import sys, random, logging
sys.path.insert(0,'/repo/src/main/python'); sys.path.insert(0,'.')
logging.disable(logging.CRITICAL)
from fractions import Fraction as F
import ttconv.model as m, ttconv.style_properties as s
from ttconv.isd import ISD
SP=s.StyleProperties; L=s.LengthType; U=L.Units
ALL=sorted(SP.ALL.keys(), key=lambda p:p.__name__)
def rlen(rng, units):
    return L(F(rng.randint(0,40),rng.choice([1,2,4])), rng.choice(units))
COLORS=[s.NamedColors.red.value,s.NamedColors.blue.value,s.ColorType((1,2,3,4)),s.NamedColors.transparent.value]
def rvalue(rng,p):
    n=p.__name__
    if n in("BackgroundColor","Color"): return rng.choice(COLORS)
    if n=="Direction": return rng.choice(list(s.DirectionType))
    if n=="Disparity": return rlen(rng,[U.pct,U.px,U.c,U.em,U.rw])
    if n=="Display": return s.DisplayType.auto
    if n=="DisplayAlign": return rng.choice(list(s.DisplayAlignType))
    if n=="Extent": return s.ExtentType(height=rlen(rng,[U.pct,U.px,U.c,U.rh]),width=rlen(rng,[U.pct,U.px,U.c,U.rw]))
    if n=="FillLineGap": return rng.choice([True,False])
    if n=="FontFamily": return rng.choice([("Arial",s.GenericFontFamilyType.serif),(s.GenericFontFamilyType.monospace,)])
    if n=="FontSize": return rlen(rng,[U.pct,U.px,U.c,U.em,U.rh,U.rw])
    if n=="FontStyle": return rng.choice(list(s.FontStyleType))
    if n=="FontWeight": return rng.choice(list(s.FontWeightType))
    if n=="LineHeight": return rng.choice([s.SpecialValues.normal, rlen(rng,[U.pct,U.px,U.c,U.em,U.rh])])
    if n=="LinePadding": return rlen(rng,[U.c,U.rh,U.rw])
    if n in("LuminanceGain","Opacity","Shear"): return F(rng.randint(0,4),4)
    if n=="MultiRowAlign": return rng.choice(list(s.MultiRowAlignType))
    if n=="Origin": return s.CoordinateType(x=rlen(rng,[U.pct,U.px,U.c,U.rw]),y=rlen(rng,[U.pct,U.px,U.c,U.rh]))
    if n=="Overflow": return rng.choice(list(s.OverflowType))
    if n=="Padding": return s.PaddingType(*[rlen(rng,[U.pct,U.px,U.c,U.em,U.rh]) for _ in range(4)])
    if n=="Position": return s.PositionType(h_offset=rlen(rng,[U.pct,U.px,U.c,U.rw]),v_offset=rlen(rng,[U.pct,U.px,U.c,U.rh]),h_edge=rng.choice(list(s.PositionType.HEdge)),v_edge=rng.choice(list(s.PositionType.VEdge)))
    if n=="RubyAlign": return rng.choice(list(s.RubyAlignType))
    if n=="RubyPosition": return rng.choice(list(s.AnnotationPositionType))
    if n=="RubyReserve": return rng.choice([s.SpecialValues.none, s.RubyReserveType(rng.choice(list(s.RubyReserveType.Position)), rng.choice([None, rlen(rng,[U.pct,U.px,U.c,U.em,U.rh])]))])
    if n=="ShowBackground": return rng.choice(list(s.ShowBackgroundType))
    if n=="TextAlign": return rng.choice(list(s.TextAlignType))
    if n=="TextCombine": return rng.choice(list(s.TextCombineType))
    if n=="TextDecoration": return s.TextDecorationType(*[rng.choice([None,True,False]) for _ in range(3)])
    if n=="TextEmphasis": return rng.choice([s.SpecialValues.none, s.TextEmphasisType(rng.choice(list(s.TextEmphasisType.Style)), rng.choice([None]+COLORS), rng.choice(list(s.TextEmphasisType.Position)))])
    if n=="TextOutline": return rng.choice([s.SpecialValues.none, s.TextOutlineType(rlen(rng,[U.pct,U.px,U.c,U.em,U.rh]), rng.choice([None]+COLORS))])
    if n=="TextShadow": return rng.choice([s.SpecialValues.none, s.TextShadowType(tuple(s.TextShadowType.Shadow(rlen(rng,[U.pct,U.px,U.c,U.em]),rlen(rng,[U.pct,U.px,U.c,U.em]),rng.choice([None,rlen(rng,[U.px,U.c])]),rng.choice([None]+COLORS)) for _ in range(rng.randint(1,2))))])
    if n=="UnicodeBidi": return rng.choice(list(s.UnicodeBidiType))
    if n=="Visibility": return rng.choice(list(s.VisibilityType))
    if n=="WrapOption": return rng.choice(list(s.WrapOptionType))
    if n=="WritingMode": return rng.choice(list(s.WritingModeType))
    raise KeyError(n)
def deco(rng, e, dens=0.15):
    for p in ALL:
        if rng.random()<dens: e.set_style(p, rvalue(rng,p))
        if rng.random()<dens/3: e.add_animation_step(m.DiscreteAnimationStep(p, rng.choice([None,F(1),F(2)]), rng.choice([None,F(3),F(5)]), rvalue(rng,p)))
def gen(rng):
    d=m.ContentDocument()
    d.set_cell_resolution(m.CellResolutionType(rows=rng.choice([15,24,1,53]),columns=rng.choice([32,40,1,97])))
    d.set_px_resolution(m.PixelResolutionType(width=rng.choice([1920,640,1]),height=rng.choice([1080,480,7])))
    for p in ALL:
        if rng.random()<0.08 and p is not SP.Display: d.put_initial_value(p, rvalue(rng,p))
    r=m.Region("r1",d); deco(rng,r,0.3); d.put_region(r)
    b=m.Body(d); deco(rng,b); b.set_region(r); d.set_body(b)
    dv=m.Div(d); deco(rng,dv); b.push_child(dv)
    p=m.P(d); deco(rng,p); dv.push_child(p)
    sp=m.Span(d); deco(rng,sp); p.push_child(sp); sp.push_child(m.Text(d,"x"))
    sp2=m.Span(d); deco(rng,sp2); sp.push_child(sp2); sp2.push_child(m.Text(d,"y"))
    br=m.Br(d); p.push_child(br)
    ru=m.Ruby(d); deco(rng,ru)
    if rng.random()<0.5:
        ch=[m.Rb(d),m.Rt(d)]
    else:
        rbc=m.Rbc(d); rtc=m.Rtc(d); rb=m.Rb(d); rt=m.Rt(d); deco(rng,rbc); deco(rng,rtc)
        for x in (rb,rt):
            deco(rng,x); q=m.Span(d); x.push_child(q); q.push_child(m.Text(d,"z"))
        rbc.push_child(rb); rtc.push_child(rt); ch=[rbc,rtc]
    if isinstance(ch[0],m.Rb):
        for x in ch:
            deco(rng,x); q=m.Span(d); deco(rng,q); x.push_child(q); q.push_child(m.Text(d,"z"))
    ru.push_children(ch); p.push_child(ru)
    return d
# ---------------- S ----------------
def active_anim_value(e, p, t):
    # elements here have no begin/end: absolute = offsets
    v=None
    for a in e.iter_animation_steps():
        if a.style_property is p:
            b=a.begin or 0
            if b<=t and (a.end is None or t<a.end): v=a.value
    return v
def q(x): return F(x)
def comp_len(l, pct, em, c, px):
    if l.units is U.pct: return L(q(l.value)*pct.value/100, pct.units)
    if l.units is U.em: return L(q(l.value)*em.value, em.units)
    if l.units is U.c: return L(q(l.value)*c.value, c.units)
    if l.units is U.px: return L(q(l.value)*px.value, px.units)
    return L(q(l.value), l.units)
class Spec:
    def __init__(s_,doc,t): s_.doc=doc; s_.t=t; s_.memo={}
    def cell_h(s_): return L(F(100,s_.doc.get_cell_resolution().rows),U.rh)
    def cell_w(s_): return L(F(100,s_.doc.get_cell_resolution().columns),U.rw)
    def px_h(s_): return L(F(100,s_.doc.get_px_resolution().height),U.rh)
    def px_w(s_): return L(F(100,s_.doc.get_px_resolution().width),U.rw)
    def parent(s_,e):
        if isinstance(e,m.Region): return None
        if isinstance(e,m.Body): return next(iter(s_.doc.iter_regions()))
        return e.parent()
    def cascade(s_,e,p):
        """returns (value, needs_compute)"""
        v=active_anim_value(e,p,s_.t)
        if v is None: v=e.get_style(p)
        par=s_.parent(e)
        if p is SP.Direction and v is None and isinstance(e,m.Region) and e.get_style(SP.WritingMode) in (s.WritingModeType.lrtb,s.WritingModeType.rltb):
            return (s.DirectionType.ltr if e.get_style(SP.WritingMode) is s.WritingModeType.lrtb else s.DirectionType.rtl, True)
        if p is SP.TextDecoration and par is not None:
            pv=s_.computed(par,p)
            if v is None: return (pv, False)
            return (s.TextDecorationType(underline=v.underline if v.underline is not None else pv.underline,
                                         line_through=v.line_through if v.line_through is not None else pv.line_through,
                                         overline=v.overline if v.overline is not None else pv.overline), True)
        if v is not None: return (v, True)
        if par is not None and p.is_inherited:
            pv=s_.computed(par,p)
            if p is SP.FontSize and (isinstance(e,m.Rtc) or (isinstance(e,m.Rt) and not isinstance(par,m.Rtc))):
                return (L(pv.value/2,pv.units), False)
            return (pv, False)
        if s_.doc.has_initial_value(p): return (s_.doc.get_initial_value(p), True)
        if p is SP.Position: return (None, True)
        return (p.make_initial_value(), True)
    def computed(s_,e,p):
        k=(id(e),p)
        if k in s_.memo: return s_.memo[k]
        v,need=s_.cascade(e,p)
        if need: v=s_.compute(e,p,v)
        s_.memo[k]=v; return v
    def fs(s_,e): return s_.computed(e,SP.FontSize)
    def compute(s_,e,p,v):
        par=s_.parent(e)
        if p is SP.FontSize:
            ref=s_.computed(par,p) if par is not None else s_.cell_h()
            return comp_len(v,ref,ref,s_.cell_h(),s_.px_h())
        if p is SP.Extent:
            return s.ExtentType(height=comp_len(v.height,L(F(100),U.rh),s_.fs(e),s_.cell_h(),s_.px_h()),
                                width=comp_len(v.width,L(F(100),U.rw),s_.fs(e),s_.cell_w(),s_.px_w()))
        if p is SP.Origin:
            pos=s_.cascade(e,SP.Position)[0]
            if pos is not None: 
                pp=s_.computed(e,SP.Position); return s.CoordinateType(x=pp.h_offset,y=pp.v_offset)
            return s.CoordinateType(x=comp_len(v.x,L(F(100),U.rw),None,s_.cell_w(),s_.px_w()),y=comp_len(v.y,L(F(100),U.rh),None,s_.cell_h(),s_.px_h()))
        if p is SP.Position:
            if v is None:
                o=s_.computed(e,SP.Origin); return s.PositionType(h_offset=o.x,v_offset=o.y)
            ext=s_.computed(e,SP.Extent)
            vo=comp_len(v.v_offset,L(100-ext.height.value,U.rh),None,s_.cell_h(),s_.px_h())
            ho=comp_len(v.h_offset,L(100-ext.width.value,U.rw),None,s_.cell_w(),s_.px_w())
            # TTML2 semantics: offsets from bottom/right edge
            if v.v_edge is s.PositionType.VEdge.bottom: vo=L(100-ext.height.value-vo.value,vo.units)
            if v.h_edge is s.PositionType.HEdge.right: ho=L(100-ext.width.value-ho.value,ho.units)
            return s.PositionType(h_offset=ho,v_offset=vo)
        if p in (SP.LineHeight,):
            if v is s.SpecialValues.normal: return v
            return comp_len(v,s_.fs(e),s_.fs(e),s_.cell_h(),s_.px_h())
        if p is SP.LinePadding: return comp_len(v,s_.fs(e),s_.fs(e),s_.cell_h(),s_.px_h())
        if p is SP.RubyReserve:
            if v is s.SpecialValues.none: return v
            if v.length is None: return s.RubyReserveType(v.position, L(s_.fs(e).value/2, s_.fs(e).units))
            return s.RubyReserveType(v.position, comp_len(v.length,s_.fs(e),s_.fs(e),s_.cell_h(),s_.px_h()))
        if p is SP.TextOutline:
            if v is s.SpecialValues.none: return v
            return s.TextOutlineType(color=v.color if v.color is not None else s_.computed(e,SP.Color), thickness=comp_len(v.thickness,s_.fs(e),s_.fs(e),s_.cell_h(),s_.px_h()))
        if p is SP.TextShadow:
            if v is s.SpecialValues.none: return v
            f=lambda l: comp_len(l,s_.fs(e),s_.fs(e),s_.cell_h(),s_.px_h())
            return s.TextShadowType(tuple(s.TextShadowType.Shadow(f(x.x_offset),f(x.y_offset),None if x.blur_radius is None else f(x.blur_radius), x.color if x.color is not None else s_.computed(e,SP.Color)) for x in v.shadows))
        if p is SP.TextEmphasis:
            if v is s.SpecialValues.none: return v
            st=v.style
            if st is s.TextEmphasisType.Style.auto:
                r=e
                while s_.parent(r) is not None: r=s_.parent(r)
                wm=s_.computed(r,SP.WritingMode)
                st=s.TextEmphasisType.Style.filled_sesame if wm in (s.WritingModeType.tblr,s.WritingModeType.tbrl) else s.TextEmphasisType.Style.filled_circle
            return s.TextEmphasisType(style=st,color=v.color if v.color is not None else s_.computed(e,SP.Color),position=v.position)
        if p is SP.Padding:
            wm=s_.computed(e,SP.WritingMode); ext=s_.computed(e,SP.Extent); vert=wm in (s.WritingModeType.tblr,s.WritingModeType.tbrl)
            bl=(ext.width,s_.cell_w(),s_.px_w()) if vert else (ext.height,s_.cell_h(),s_.px_h())
            il=(ext.height,s_.cell_h(),s_.px_h()) if vert else (ext.width,s_.cell_w(),s_.px_w())
            return s.PaddingType(comp_len(v.before,bl[0],s_.fs(e),bl[1],bl[2]),comp_len(v.end,il[0],s_.fs(e),il[1],il[2]),comp_len(v.after,bl[0],s_.fs(e),bl[1],bl[2]),comp_len(v.start,il[0],s_.fs(e),il[1],il[2]))
        return v
def close(a,b):
    import dataclasses
    if isinstance(a,L) and isinstance(b,L): return a.units is b.units and abs(F(a.value)-F(b.value))<=F(1,10**9)*max(1,abs(F(b.value)))
    if dataclasses.is_dataclass(a) and type(a) is type(b): return all(close(getattr(a,f.name),getattr(b,f.name)) for f in dataclasses.fields(a))
    if isinstance(a,tuple) and isinstance(b,tuple): return len(a)==len(b) and all(close(x,y) for x,y in zip(a,b))
    return a==b
if __name__=="__main__":
    rng=random.Random(int(sys.argv[1])); N=int(sys.argv[2])
    from collections import Counter
    bad=Counter(); tot=0; errs=Counter(); ex={}
    for i in range(N):
        doc=gen(rng)
        for t in (F(0),F(3,2),F(4)):
            try: isd=ISD.from_model(doc,t)
            except Exception as e: errs[type(e).__name__+":"+str(e)[:40]]+=1; continue
            S=Spec(doc,t)
            reg=next(iter(isd.iter_regions()),None)
            if reg is None: continue
            src=[next(iter(doc.iter_regions()))]+list(doc.get_body().dfs_iterator())
            # map isd elements to source elements by dfs order over non-pruned (nothing pruned: all active, display auto)
            ie=[x for x in reg.dfs_iterator()]
            se=[x for x in src]
            if len(ie)!=len(se): errs["shape"]+=1; continue
            for a,b in zip(ie,se):
                if isinstance(b,(m.Text,m.Br)): continue
                for p in ALL:
                    if not a.is_style_applicable(p): continue
                    tot+=1
                    sv=S.computed(b,p); iv=a.get_style(p)
                    if not close(iv,sv):
                        k=(p.__name__)
                        bad[k]+=1
                        if k not in ex: ex[k]=(type(b).__name__, str(iv)[:150], str(sv)[:150])
    print("compared",tot,"mismatches",sum(bad.values()),dict(bad)); print("errors",dict(errs))
    for k,v in ex.items(): print(k,v)
