From Coq Require Import ZArith Lia Bool ZifyBool.
Open Scope Z_scope.
Ltac Zify.zify_post_hook ::= Z.to_euclidean_division_equations.

Definition df_adjust (n:Z) : Z :=
  let tens := n / 17982 in
  let rem := n mod 17982 in
  let mins := (rem - 2) / 1798 in
  let mins := if mins <? 0 then 0 else mins in
  n + 18*tens + 2*mins.

(* characterisation of the adjusted count: a = 18000 t + r', with r' either < 1800 or r' mod 1800 >= 2 *)
Lemma adjust_char n : 0 <= n ->
  exists t r k, 0 <= t /\ 0 <= k <= 9 /\ df_adjust n = 18000*t + 1800*k + r /\
                 ((k = 0 /\ 0 <= r < 1800) \/ (1 <= k /\ 2 <= r < 1800)).
Proof.
  intros Hn. unfold df_adjust.
  set (t := n / 17982). set (rem := n mod 17982).
  assert (Ht : 0 <= t) by (unfold t; lia). assert (Hr : 0 <= rem < 17982) by (unfold rem; lia).
  assert (Hn' : n = 17982*t + rem) by (unfold t, rem; lia).
  destruct ((rem - 2) / 1798 <? 0) eqn:E; cbv zeta.
  - exists t, rem, 0. lia.
  - set (k := (rem - 2) / 1798) in *. assert (0 <= k <= 9) by (unfold k; lia).
    exists t, (rem + 2*k - 1800*k), k. unfold k in *. lia.
Qed.

Definition label (n:Z) : Z*Z*Z*Z :=
  let n' := df_adjust n in
  (n' / 108000, (n' / 1800) mod 60, (n' / 30) mod 60, n' mod 30).
Definition valid (l:Z*Z*Z*Z) : Prop :=
  let '(h,m,s,f) := l in 0 <= h /\ 0 <= m < 60 /\ 0 <= s < 60 /\ 0 <= f < 30 /\ (s = 0 -> m mod 10 <> 0 -> 2 <= f).

Lemma label_valid n : 0 <= n -> valid (label n).
Proof.
  intros Hn. destruct (adjust_char n Hn) as (t & r & k & Ht & Hk & Ha & Hc).
  unfold valid, label. rewrite Ha. clear Ha.
  assert (E1 : (18000*t + 1800*k + r) / 1800 = 10*t + k) by lia.
  rewrite E1.
  repeat split; lia.
Qed.
Print Assumptions label_valid.
