From Coq Require Import Arith Lia List.
(* parent relation as a function; up p a b := b is a proper ancestor of a *)
Definition pmap := nat -> option nat.
Inductive up (p : pmap) : nat -> nat -> Prop :=
| up_one a b : p a = Some b -> up p a b
| up_step a b c : p a = Some b -> up p b c -> up p a c.
Definition acyclic (p : pmap) := forall n, ~ up p n n.
Definition set_parent (p : pmap) (c s : nat) : pmap := fun x => if Nat.eq_dec x c then Some s else p x.

Lemma up_trans p a b c : up p a b -> up p b c -> up p a c.
Proof. induction 1; intros; eauto using up. Qed.

(* any ancestor chain in the updated map either existed before or passes through the new edge c -> s *)
Lemma up_set p c s a b : p c = None -> up (set_parent p c s) a b ->
  up p a b \/ ((a = c \/ up p a c) /\ (b = s \/ up p s b)).
Proof.
  intros Hc H. induction H as [a b E | a b d E H IH]; unfold set_parent in E; destruct (Nat.eq_dec a c) as [->|N].
  - injection E as <-. right; split; auto.
  - left; constructor; assumption.
  - injection E as <-. destruct IH as [IH | [_ IH2]].
    + right; split; [auto | right; assumption].
    + right; split; [auto | assumption].
  - destruct IH as [IH | [[-> | IH1] IH2]].
    + left; econstructor 2; eauto.
    + right; split; [right; constructor; assumption | assumption].
    + right; split; [right; econstructor 2; eauto | assumption].
Qed.

(* fixed push_child guard: child is a root, child <> self, child is not an ancestor of self *)
Theorem push_child_acyclic p self child :
  acyclic p -> p child = None -> child <> self -> ~ up p self child ->
  acyclic (set_parent p child self).
Proof.
  intros Hac Hroot Hne Hanc n Hn.
  destruct (up_set _ _ _ _ _ Hroot Hn) as [H | [[-> | H1] [-> | H2]]].
  - exact (Hac _ H).
  - exact (Hne eq_refl).
  - exact (Hanc H2).
  - (* n = self, up p self child *) exact (Hanc H1).
  - apply Hanc. eapply up_trans; eauto.
Qed.

(* the transcribed (buggy) guard only excludes child = self: refuted *)
Theorem push_child_guard_refuted :
  exists p self child, acyclic p /\ p child = None /\ child <> self /\ ~ acyclic (set_parent p child self).
Proof.
  exists (fun x => if Nat.eq_dec x 0 then Some 1 else None), 0, 1. repeat split.
  - intros n H.
    assert (G : forall a b, up (fun x => if Nat.eq_dec x 0 then Some 1 else None) a b -> a = 0 /\ b = 1).
    { intros a b U. induction U as [a b E | a b c E U IH].
      - destruct (Nat.eq_dec a 0); [|discriminate]. injection E as <-. auto.
      - destruct (Nat.eq_dec a 0); [|discriminate]. injection E as <-. destruct IH as [IH _]. discriminate. }
    destruct (G _ _ H) as [-> E]. discriminate.
  - discriminate.
  - intros H. apply (H 0). econstructor 2; [reflexivity|]. constructor. reflexivity.
Qed.
Print Assumptions push_child_acyclic.
Print Assumptions push_child_guard_refuted.
