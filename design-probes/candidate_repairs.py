import sys,re
root=sys.argv[1]; which=sys.argv[2]
P=root+'/src/main/python/ttconv/'
def sub(path, old, new, count=1):
    s=open(P+path).read()
    assert old in s, (path, old[:40])
    s=s.replace(old,new,count); open(P+path,'w').write(s)
F={}
def fix(n):
    def d(f): F[n]=f; return f
    return d
@fix('1')
def _():
    sub('isd.py',"anim_begin_time, anim_end_time = ISD._make_absolute(anim_step.begin, anim_step.end, parent_begin, parent_end)",
        "anim_begin_time, anim_end_time = ISD._make_absolute(anim_step.begin, anim_step.end, begin_time, end_time)")
@fix('2')
def _():
    sub('isd.py',"""        v_offset = styles.LengthType(
          value=100 - v_offset.value,""","""        v_offset = styles.LengthType(
          value=100 - extent.height.value - v_offset.value,""")
    sub('isd.py',"""        h_offset = styles.LengthType(
          value=100 - h_offset.value,""","""        h_offset = styles.LengthType(
          value=100 - extent.width.value - h_offset.value,""")
@fix('4')
def _():
    sub('imsc/elements.py',"self.implicit_end = max(self.implicit_end, child_element.desired_end)","self.implicit_end = max(self.implicit_end, child_element.desired_end + self.desired_begin)")
@fix('6')
def _():
    s=open(P+'imsc/elements.py').read()
    s=s.replace("      except ValueError:\n\n        LOGGER.error(\"Error reading style property","      except (ValueError, KeyError):\n\n        LOGGER.error(\"Error reading style property")
    s=s.replace("        except ValueError:\n\n          LOGGER.error(\"Error reading style property","        except (ValueError, KeyError):\n\n          LOGGER.error(\"Error reading style property")
    s=s.replace("          except ValueError:\n            LOGGER.error(\"Error reading style property","          except (ValueError, KeyError):\n            LOGGER.error(\"Error reading style property")
    s=s.replace("except (ValueError, TypeError):\n\n        LOGGER.error(\"Error reading style property","except (ValueError, TypeError, KeyError):\n\n        LOGGER.error(\"Error reading style property")
    open(P+'imsc/elements.py','w').write(s)
@fix('7')
def _():
    sub('imsc/style_properties.py',"if len(cs) < 1 or len(cs) > 4:","if len(cs) < 2 or len(cs) > 4:")
    sub('imsc/style_properties.py',"        else: # len(cs) == 4","        elif len(cs) == 4:")
@fix('9')
def _():
    sub('imsc/elements.py',"""    elif isinstance(model_element, model.Rbc):
      imsc_class = RbcElement""","""    elif isinstance(model_element, model.Rp):
      imsc_class = RpElement
    elif isinstance(model_element, model.Rbc):
      imsc_class = RbcElement""")
@fix('12')
def _():
    sub('filters/isd/merge_regions.py',"for child in body:","for child in list(body):")
@fix('14')
def _():
    for f in ('srt/writer.py','vtt/writer.py'):
        sub(f,"""      StyleProperties.TextDecoration: [
        TextDecorationType.underline
      ],""","""      StyleProperties.TextDecoration: [
        # Every values
      ],""")
@fix('15')
def _():
    sub('vtt/writer.py',"self._paragraphs[-1].append_text(element.get_text())","self._paragraphs[-1].append_text(element.get_text().replace('&', '&amp;').replace('<', '&lt;'))")
@fix('19')
def _():
    s=open(P+'srt/reader.py').read()
    s=s.replace("int(m.group('begin_ms')) / 1000","Fraction(int(m.group('begin_ms')), 1000)").replace("int(m.group('end_ms')) / 1000","Fraction(int(m.group('end_ms')), 1000)")
    s=s.replace("import typing\n","import typing\nfrom fractions import Fraction\n",1)
    open(P+'srt/reader.py','w').write(s)
    s=open(P+'vtt/reader.py').read()
    s=s.replace("int(m.group('ms')) / 1000","Fraction(int(m.group('ms')), 1000)")
    s=s.replace("import typing\n","import typing\nfrom fractions import Fraction\n",1)
    open(P+'vtt/reader.py','w').write(s)
@fix('20')
def _():
    sub('srt/reader.py',"  state = _State.COUNTER\n  current_p = None\n","  state = _State.COUNTER\n  current_p = None\n  subtitle_text = \"\"\n")
@fix('22')
def _():
    sub('time_code.py',"""    frames = seconds * float(frame_rate)

    return SmpteTimeCode.from_frames(int(frames), frame_rate)""","""    if isinstance(seconds, (int, Fraction)):
      frames = seconds * frame_rate
    else:
      frames = seconds * float(frame_rate)

    return SmpteTimeCode.from_frames(int(frames), frame_rate)""")
@fix('23')
def _():
    sub('isd.py',"""  def _region_always_has_background(region: typing.Type[model.Region]) -> bool:
""","""  def _region_always_has_background(region: typing.Type[model.Region]) -> bool:

    if any(True for _ in region.iter_animation_steps()):
      return True
""")
@fix('24')
def _():
    sub('model.py',"""    if child is self:
      raise RuntimeError("Cannot add a root element to its descendents")""","""    ancestor = self
    while ancestor is not None:
      if ancestor is child:
        raise RuntimeError("Cannot add a root element to its descendents")
      ancestor = ancestor.parent()""")
    sub('model.py',"""      map(
        lambda e: e.get_region() and e.get_region().get_id() == region_id and e.set_region(None),
        body.dfs_iterator()
      )""","""      for e in body.dfs_iterator():
        if e.get_region() is not None and e.get_region().get_id() == region_id:
          e.set_region(None)""")
    sub('style_properties.py',"all(lambda i: isinstance(i, (str, GenericFontFamilyType)) for i in value)","all(isinstance(i, (str, GenericFontFamilyType)) for i in value)")
@fix('25')
def _():
    sub('filters/remove_animations.py',"for step in element.iter_animation_steps():","for step in list(element.iter_animation_steps()):")
@fix('27')
def _():
    sub('filters/doc/lcd.py',"if 30 < safe_area < 0:","if safe_area < 0 or safe_area > 30:")
F[which]()
