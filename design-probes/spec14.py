import sys, random, logging
sys.path.insert(0,'/repo/src/main/python'); sys.path.insert(0,'.')
logging.disable(logging.CRITICAL)
from fractions import Fraction as F
import ttconv.model as m, ttconv.style_properties as s
from ttconv.isd import ISD
from docgen import gen
from spec01 import alltimes
SP=s.StyleProperties
def fp(isd, only_painting):
    out=[]
    for r in isd.iter_regions():
        kids=[(type(e).__name__, e.get_text() if isinstance(e,m.Text) else None, tuple(sorted((p.__name__,str(e.get_style(p))) for p in e.iter_styles()))) for e in r.dfs_iterator()]
        if only_painting and len(r)==0:
            bg=r.get_style(SP.BackgroundColor); 
            paints = r.get_style(SP.ShowBackground) is s.ShowBackgroundType.always and bg.components[3]!=0 and r.get_style(SP.Opacity)!=0 and r.get_style(SP.Visibility) is s.VisibilityType.visible
            if not paints: continue
        out.append((r.get_id(),kids))
    return out
rng=random.Random(int(sys.argv[1])); N=int(sys.argv[2])
strict=0; paint=0; n=0; errs={}
for i in range(N):
    doc=gen(rng)
    # add bg colours/animations on regions to make backgrounds matter
    for r in doc.iter_regions():
        if rng.random()<0.5: r.set_style(SP.BackgroundColor, rng.choice([s.NamedColors.red.value, s.NamedColors.transparent.value]))
        if rng.random()<0.3: r.add_animation_step(m.DiscreteAnimationStep(SP.ShowBackground, F(rng.randint(0,5)), None, s.ShowBackgroundType.always))
        if rng.random()<0.2: r.add_animation_step(m.DiscreteAnimationStep(SP.BackgroundColor, F(rng.randint(0,5)), None, s.NamedColors.blue.value))
    ts=alltimes(doc); probes=set(ts)
    for a,b in zip(ts,ts[1:]): probes.add((a+b)/2)
    if ts: probes.add(ts[-1]+1)
    st=ISD.significant_times(doc)
    for t in sorted(probes):
        try:
            a=ISD.from_model(doc,t); b=ISD.from_model(doc,t,st)
        except Exception as e:
            errs[type(e).__name__]=errs.get(type(e).__name__,0)+1; continue
        n+=1
        if fp(a,False)!=fp(b,False): strict+=1
        if fp(a,True)!=fp(b,True):
            paint+=1
            if paint<3: print("PAINT DIFF t",t,fp(a,True),"\n   cached",fp(b,True))
print("snapshots",n,"strict diffs",strict,"painting diffs",paint,errs)
