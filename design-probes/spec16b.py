import sys, random, logging
sys.path.insert(0,'/repo/src/main/python'); sys.path.insert(0,'.')
logging.disable(logging.CRITICAL)
from spec16 import *
rng=random.Random(5)
for i in range(300):
    doc=docgen.gen(rng); strip_hiding(doc); cf=conflict(doc)
    ts=alltimes(doc); probes=sorted(set(ts)|{(a+b)/2 for a,b in zip(ts,ts[1:])})
    before=[vis(doc,t) for t in probes]
    regs=[(r.get_id(),r.get_begin(),r.get_end()) for r in doc.iter_regions()]
    LCDDocFilter(LCDDocFilterConfig()).process(doc)
    after=[vis(doc,t) for t in probes]
    if before!=after and not cf:
        print("regions before",regs,"after",[(r.get_id(),r.get_begin(),r.get_end()) for r in doc.iter_regions()])
        for t,a,b in zip(probes,before,after):
            if a!=b: print("t",t,a,b)
        break
