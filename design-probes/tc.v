From Coq Require Import ZArith Lia Bool ZifyBool.
Open Scope Z_scope.
Ltac Zify.zify_post_hook ::= Z.to_euclidean_division_equations.

(* 29.97 DF: from_frames / to_frames as in time_code.py, with exact integer arithmetic *)
Definition df_adjust (n:Z) : Z :=
  let tens := n / 17982 in
  let rem := n mod 17982 in
  let mins := (rem - 2) / 1798 in
  let mins := if mins <? 0 then 0 else mins in
  n + 18*tens + 2*mins.
Definition label (n:Z) : Z*Z*Z*Z :=
  let n' := df_adjust n in
  (n' / 108000, (n' / 1800) mod 60, (n' / 30) mod 60, n' mod 30).
Definition to_frames (l:Z*Z*Z*Z) : Z :=
  let '(h,m,s,f) := l in
  let tens := h*6 + m/10 in
  (h*3600+m*60+s)*30 + f - (18*tens + 2*(m mod 10)).

Lemma roundtrip n : 0 <= n -> to_frames (label n) = n.
Proof.
  intros Hn. unfold to_frames, label, df_adjust.
  destruct ((n mod 17982 - 2) / 1798 <? 0) eqn:E; cbv zeta; lia.
Qed.
Print Assumptions roundtrip.
