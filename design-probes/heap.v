From Coq Require Import List Arith Lia Bool.
Import ListNotations.

Record node := { parent : option nat ; first : option nat ; last : option nat ; next : option nat ; prev : option nat }.
Definition heap := list node.
Definition get (h : heap) (i : nat) : option node := nth_error h i.
Fixpoint upd (h : heap) (i : nat) (f : node -> node) : heap :=
  match h, i with
  | [], _ => []
  | n :: t, O => f n :: t
  | n :: t, S j => n :: upd t j f
  end.
Lemma get_upd_same h i f n : get h i = Some n -> get (upd h i f) i = Some (f n).
Proof. revert i; induction h as [|a t IH]; intros [|j]; cbn; try discriminate; [intros [= ->]; reflexivity|apply IH]. Qed.
Lemma get_upd_other h i j f : i <> j -> get (upd h i f) j = get h j.
Proof. revert i j; induction h as [|a t IH]; intros [|i] [|j] H; cbn; try reflexivity; try congruence. apply IH; congruence. Qed.

(* ContentElement.push_child, generic part, transcribed: raises unless child.parent is None and child is not self *)
Definition set_parent p n := {| parent := p; first := first n; last := last n; next := next n; prev := prev n |}.
Definition set_links p pv nx n := {| parent := p; first := first n; last := last n; next := nx; prev := pv |}.
Definition set_next nx n := {| parent := parent n; first := first n; last := last n; next := nx; prev := prev n |}.
Definition set_first_last f l n := {| parent := parent n; first := f; last := l; next := next n; prev := prev n |}.

Definition push_child (h : heap) (self child : nat) : option heap :=
  match get h self, get h child with
  | Some s, Some c =>
    match parent c with Some _ => None | None =>
    if Nat.eqb child self then None else
    let h1 := upd h child (set_links (Some self) (last s) None) in
    let h2 := match last s with Some l => upd h1 l (set_next (Some child)) | None => h1 end in
    let h3 := upd h2 self (fun n => set_first_last (match first n with None => Some child | f => f end) (Some child) n) in
    Some h3 end
  | _, _ => None
  end.

(* the child list read the way __iter__ reads it, with fuel = heap size *)
Fixpoint walk (h : heap) (fuel : nat) (cur : option nat) : list nat :=
  match fuel, cur with
  | S k, Some c => c :: walk h k (match get h c with Some n => next n | None => None end)
  | _, _ => []
  end.
Definition children (h : heap) (p : nat) : list nat :=
  match get h p with Some n => walk h (length h) (first n) | None => [] end.

(* executable check: 2-cycle through push_child is accepted by the transcribed guard *)
Definition n0 := {| parent := None; first := None; last := None; next := None; prev := None |}.
Definition cyc := match push_child [n0; n0] 0 1 with Some h => push_child h 1 0 | None => None end.
Eval vm_compute in (match cyc with Some h => map parent h | None => [] end).
(* -> [Some 1; Some 0] : node 0's parent is 1 and node 1's parent is 0 *)
Theorem push_child_cycle_refuted :
  exists h a b h', push_child h a b = Some h' /\ (exists na nb, get h' a = Some na /\ get h' b = Some nb /\ parent na = Some b /\ parent nb = Some a).
Proof.
  exists [ {| parent := Some 1; first := None; last := None; next := None; prev := None |};
           {| parent := None; first := Some 0; last := Some 0; next := None; prev := None |} ], 0, 1.
  eexists. split; [vm_compute; reflexivity|]. do 2 eexists. repeat split; vm_compute; reflexivity.
Qed.
Print Assumptions push_child_cycle_refuted.
