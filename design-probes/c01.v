From Coq Require Import QArith Qminmax List Bool Lia.
Import ListNotations.
Open Scope Q_scope.

(* reduced model: timing + region attribute + leaves *)
Inductive elem := Elem (leaf : bool) (b e : option Q) (reg : option nat) (cs : list elem).
Definition oQ (o : option Q) : Q := match o with Some q => q | None => 0 end.
Definition mk_abs (b e : option Q) (pb : Q) (pe : option Q) : Q * option Q :=
  (pb + oQ b,
   match e with
   | None => pe
   | Some x => match pe with None => Some (pb + x) | Some y => Some (Qmin (pb + x) y) end
   end).
Definition active (i : Q * option Q) (t : Q) : bool :=
  Qle_bool (fst i) t && match snd i with None => true | Some e => negb (Qle_bool e t) end.
Definition oeq (a b : option nat) := match a, b with Some x, Some y => Nat.eqb x y | None, None => true | _, _ => false end.
Definition has_children (x : elem) := match x with Elem _ _ _ _ cs => negb (match cs with [] => true | _ => false end) end.
Definition is_leaf x := match x with Elem l _ _ _ _ => l end.

Inductive out := Out (src : elem) (cs : list out).   (* carries the source element for comparison *)

(* M: transcription of _process_element (timing + region association + keep/drop tail) *)
Fixpoint isd (t : Q) (sel : option nat) (inh : option nat) (pi : Q * option Q) (x : elem) : option out :=
  match x with
  | Elem leaf b e reg cs =>
    let iv := mk_abs b e (fst pi) (snd pi) in
    if negb (active iv t) then None else
    let assoc := match reg with Some r => Some r | None => inh end in
    if negb (oeq assoc sel) && (negb (has_children x) || match assoc with Some _ => true | None => false end) then None else
    let kids := flat_map (fun c => match isd t sel assoc iv c with Some o => [o] | None => [] end) cs in
    if leaf then Some (Out x kids) else
    match kids with [] => None | _ => Some (Out x kids) end
  end.

(* S: a generic pruner driven by a predicate on the *context accumulated along the path*,
   where the context is computed by a non-recursive fold over the path prefix *)
Record ctx := { c_iv : Q * option Q ; c_assoc : option nat }.
Definition ctx0 := {| c_iv := (0, None) ; c_assoc := None |}.
Definition ctx_step (c : ctx) (x : elem) : ctx :=
  match x with Elem _ b e reg _ =>
    {| c_iv := mk_abs b e (fst (c_iv c)) (snd (c_iv c)) ;
       c_assoc := match reg with Some r => Some r | None => c_assoc c end |} end.
(* keep predicate for the element x reached with parent context c *)
Definition keep_spec (t : Q) (sel : option nat) (c : ctx) (x : elem) : bool :=
  let c' := ctx_step c x in
  active (c_iv c') t &&
  (oeq (c_assoc c') sel || (has_children x && match c_assoc c' with None => true | Some _ => false end)).
Fixpoint prune (keep : ctx -> elem -> bool) (c : ctx) (x : elem) : option out :=
  match x with
  | Elem leaf _ _ _ cs =>
    if keep c x then
      let kids := flat_map (fun k => match prune keep (ctx_step c x) k with Some o => [o] | None => [] end) cs in
      if leaf then Some (Out x kids) else match kids with [] => None | _ => Some (Out x kids) end
    else None
  end.

Section elem_ind2.
  Variable P : elem -> Prop.
  Hypothesis H : forall l b e r cs, Forall P cs -> P (Elem l b e r cs).
  Fixpoint elem_ind2 (x : elem) : P x :=
    match x with Elem l b e r cs =>
      H l b e r cs ((fix go (l : list elem) : Forall P l := match l with [] => Forall_nil _ | c :: l' => Forall_cons _ (elem_ind2 c) (go l') end) cs)
    end.
End elem_ind2.

Theorem isd_is_prune : forall x t sel c,
  isd t sel (c_assoc c) (c_iv c) x = prune (keep_spec t sel) c x.
Proof.
  induction x as [l b e r cs IH] using elem_ind2; intros t sel c.
  cbn [isd prune]. unfold keep_spec. cbn [ctx_step c_iv c_assoc].
  set (iv := mk_abs b e (fst (c_iv c)) (snd (c_iv c))).
  set (assoc := match r with Some r0 => Some r0 | None => c_assoc c end).
  destruct (active iv t); cbn [negb andb]; [|reflexivity].
  destruct (oeq assoc sel) eqn:Eo; cbn [negb andb orb].
  - assert (Hk : flat_map (fun c0 => match isd t sel assoc iv c0 with Some o => [o] | None => [] end) cs =
                 flat_map (fun k => match prune (keep_spec t sel) {| c_iv := iv; c_assoc := assoc |} k with Some o => [o] | None => [] end) cs).
    { clear -IH. induction cs as [|k cs IHc]; [reflexivity|]. inversion IH as [|? ? Pk Pcs]; subst.
      cbn [flat_map]. rewrite <- (Pk t sel {| c_iv := iv; c_assoc := assoc |}). cbn [c_iv c_assoc]. rewrite IHc by assumption. reflexivity. }
    rewrite Hk. reflexivity.
  - destruct (has_children (Elem l b e r cs)) eqn:Eh; cbn [negb orb andb].
    + destruct assoc eqn:Ea; cbn; [reflexivity|].
      assert (Hk : flat_map (fun c0 => match isd t sel None iv c0 with Some o => [o] | None => [] end) cs =
                 flat_map (fun k => match prune (keep_spec t sel) {| c_iv := iv; c_assoc := None |} k with Some o => [o] | None => [] end) cs).
      { clear -IH. induction cs as [|k cs IHc]; [reflexivity|]. inversion IH as [|? ? Pk Pcs]; subst.
        cbn [flat_map]. rewrite <- (Pk t sel {| c_iv := iv; c_assoc := None |}). cbn [c_iv c_assoc]. rewrite IHc by assumption. reflexivity. }
      rewrite Hk. reflexivity.
    + reflexivity.
Qed.
Print Assumptions isd_is_prune.
