(* the document produced by the SCC reader, as observed through the public model API (shared by the C08
   model, the C08 specification and the harness' canonical form of the implementation's output):
   regions (id = prefix + number, origin and extent in integral percent, displayAlign) and the paragraphs of
   the single div (id number, begin/end in seconds, region, textAlign, br / span children). *)
From Coq Require Import QArith.
From TT Require Import Base.Prelude.
Open Scope Z_scope.

(* span styles: colour and background packed rgba (-1 = absent), italic / underline present or absent *)
Record tstyle := mkTS { ts_color : Z ; ts_italic : bool ; ts_under : bool ; ts_bg : Z }.
(* kind = id prefix: 0 "region", 1 "rollup", 2 "paint", 3 "pop"; id = prefix + str(num);
   r_after: displayAlign after (true) or before (false) *)
Record region := mkR { r_kind : Z ; r_num : Z ; r_ox : Z ; r_oy : Z ; r_ew : Z ; r_eh : Z ; r_after : bool }.
Inductive childq := QBr | QSpan (b : option Q) (st : tstyle) (tx : text).
(* q_align: textAlign start 0, center 1, end 2 *)
Record pq := mkPQ { q_id : option Z ; q_begin : option Q ; q_end : option Q ; q_region : Z * Z ;
                    q_align : option Z ; q_children : list childq }.
(* DocErr: to_model raised *)
Inductive doc := DocErr | Doc (rs : list region) (ps : list pq).
