(* The ElementTree-like structure that the IMSC reader starts from and the IMSC writer ends at
   (C04, C05).  Expat / ElementTree parsing and serialisation are outside the model: the harness
   converts an ElementTree element into an [xml] literal (qualified names are split into a
   namespace number and a local name).  Shared by Model/ImscTiming.v, Model/ImscWrite.v and the
   specifications; it contains data and look-ups only. *)
From TT Require Import Base.Prelude.
From Coq Require Import String Ascii QArith.
Local Open Scope Z_scope.

(* ---- text literals ------------------------------------------------------------------ *)
Definition tx (s : string) : text := List.map (fun a => Z.of_N (N_of_ascii a)) (list_ascii_of_string s).

(* ---- qualified names ------------------------------------------------------------------
   namespace numbers: 0 none, 1 TTML, 2 ttp, 3 tts, 4 ittp, 5 itts, 6 ebutts, 7 xml, 8 ttm (TTML metadata);
   any other namespace URI is numbered from 100 by the harness.
   ElementTree presents a comment or a processing instruction (when the parser keeps them: TreeBuilder(insert_comments=True,
   insert_pis=True); the default parser drops them and joins the text around them) as an element whose tag is not a string
   (the function ET.Comment / ET.ProcessingInstruction), without attributes or children, whose text is the comment and which has
   a tail like any element.  Such a tag is the pseudo-name (98, []) resp. (99, []): it is equal to no qualified name. *)
Definition qname := (Z * text)%type.
Definition NS_NONE := 0.  Definition NS_TT := 1.  Definition NS_TTP := 2.  Definition NS_TTS := 3.
Definition NS_ITTP := 4.  Definition NS_ITTS := 5.  Definition NS_EBUTTS := 6.  Definition NS_XML := 7.
Definition NS_TTM := 8.   Definition NS_COMMENT := 98.  Definition NS_PI := 99.

Definition qname_eqb (a b : qname) : bool := (fst a =? fst b) && text_eqb (snd a) (snd b).

Lemma qname_eqb_eq a b : qname_eqb a b = true <-> a = b.
Proof.
  destruct a as [n s], b as [m u]; unfold qname_eqb; simpl; split; intro H.
  - apply andb_true_iff in H as [H1 H2]. apply Z.eqb_eq in H1. apply text_eqb_eq in H2. congruence.
  - inversion H; subst. rewrite Z.eqb_refl. simpl. apply text_eqb_eq. reflexivity.
Qed.

(* ---- the tree ------------------------------------------------------------------------- *)
Inductive xml :=
  X (tag : qname) (attrs : list (qname * text)) (txt : option text) (tail : option text) (cs : list xml).

Definition x_tag (x : xml) := match x with X t _ _ _ _ => t end.
Definition x_attrs (x : xml) := match x with X _ a _ _ _ => a end.
Definition x_text (x : xml) := match x with X _ _ t _ _ => t end.
Definition x_tail (x : xml) := match x with X _ _ _ t _ => t end.
Definition x_children (x : xml) := match x with X _ _ _ _ c => c end.

(* dict look-up: attribute names are unique in an ElementTree element *)
Fixpoint get_attr (a : list (qname * text)) (q : qname) : option text :=
  match a with
  | [] => None
  | (k, v) :: a' => if qname_eqb k q then Some v else get_attr a' q
  end.

Fixpoint remove_attr (a : list (qname * text)) (q : qname) : list (qname * text) :=
  match a with
  | [] => []
  | (k, v) :: a' => if qname_eqb k q then remove_attr a' q else (k, v) :: remove_attr a' q
  end.

Definition set_tail (x : xml) (t : option text) : xml := match x with X tag a txt _ cs => X tag a txt t cs end.

(* induction principle with the hypothesis for every child *)
Section XmlInd.
  Variable P : xml -> Prop.
  Hypothesis H : forall tag attrs txt tail cs, Forall P cs -> P (X tag attrs txt tail cs).
  Fixpoint xml_ind' (x : xml) : P x :=
    match x with
    | X tag attrs txt tail cs =>
        H tag attrs txt tail cs
          ((fix go (l : list xml) : Forall P l :=
              match l with [] => Forall_nil P | c :: l' => Forall_cons c (xml_ind' c) (go l') end) cs)
    end.
End XmlInd.

(* ---- names used by the reader ------------------------------------------------------- *)
Definition q_tt (s : string) : qname := (NS_TT, tx s).
Definition q_none (s : string) : qname := (NS_NONE, tx s).
Definition q_tts (s : string) : qname := (NS_TTS, tx s).
Definition q_ttp (s : string) : qname := (NS_TTP, tx s).
Definition q_xml (s : string) : qname := (NS_XML, tx s).

Definition T_tt := Eval vm_compute in q_tt "tt".            Definition T_head := Eval vm_compute in q_tt "head".
Definition T_body := Eval vm_compute in q_tt "body".        Definition T_div := Eval vm_compute in q_tt "div".
Definition T_p := Eval vm_compute in q_tt "p".              Definition T_span := Eval vm_compute in q_tt "span".
Definition T_br := Eval vm_compute in q_tt "br".            Definition T_set := Eval vm_compute in q_tt "set".
Definition T_region := Eval vm_compute in q_tt "region".    Definition T_style := Eval vm_compute in q_tt "style".
Definition T_layout := Eval vm_compute in q_tt "layout".    Definition T_styling := Eval vm_compute in q_tt "styling".
Definition T_initial := Eval vm_compute in q_tt "initial".
(* children that are no content elements: TTML2 Metadata.class (tt:metadata and the ttm: vocabulary), comments, processing instructions *)
Definition q_ttm (s : string) : qname := (NS_TTM, tx s).
Definition T_metadata := Eval vm_compute in q_tt "metadata".
Definition T_ttm_title := Eval vm_compute in q_ttm "title".        Definition T_ttm_desc := Eval vm_compute in q_ttm "desc".
Definition T_ttm_copyright := Eval vm_compute in q_ttm "copyright".  Definition T_ttm_agent := Eval vm_compute in q_ttm "agent".
Definition T_ttm_name := Eval vm_compute in q_ttm "name".          Definition T_ttm_actor := Eval vm_compute in q_ttm "actor".
Definition T_comment : qname := (NS_COMMENT, []).                  Definition T_pi : qname := (NS_PI, []).

Definition A_begin := Eval vm_compute in q_none "begin".    Definition A_end := Eval vm_compute in q_none "end".
Definition A_dur := Eval vm_compute in q_none "dur".        Definition A_region := Eval vm_compute in q_none "region".
Definition A_style := Eval vm_compute in q_none "style".
Definition A_timeContainer := Eval vm_compute in q_none "timeContainer".
Definition A_ruby := Eval vm_compute in q_tts "ruby".
Definition A_lang := Eval vm_compute in q_xml "lang".       Definition A_space := Eval vm_compute in q_xml "space".
Definition A_id := Eval vm_compute in q_xml "id".
Definition A_frameRate := Eval vm_compute in q_ttp "frameRate".
Definition A_frameRateMultiplier := Eval vm_compute in q_ttp "frameRateMultiplier".
Definition A_tickRate := Eval vm_compute in q_ttp "tickRate".

Definition V_par := Eval vm_compute in tx "par".            Definition V_seq := Eval vm_compute in tx "seq".
Definition V_default := Eval vm_compute in tx "default".    Definition V_preserve := Eval vm_compute in tx "preserve".
Definition V_container := Eval vm_compute in tx "container".
Definition V_base := Eval vm_compute in tx "base".          Definition V_text := Eval vm_compute in tx "text".
Definition V_delimiter := Eval vm_compute in tx "delimiter".
Definition V_baseContainer := Eval vm_compute in tx "baseContainer".
Definition V_textContainer := Eval vm_compute in tx "textContainer".

(* ---- style values (C04 styling, C05) ------------------------------------------------------------------------
   lengths carry the number of their unit in LengthType.Units (em 0, % 1, rh 2, rw 3, c 4, px 5) *)
Record len := mkLen { l_val : Q ; l_unit : Z }.
Definition color := (Z * Z * Z * Z)%type.
Inductive sval :=
  | SColor (c : color)
  | SEnum (ord : Z)                       (* member number in the enumeration of the property *)
  | SLen (l : len)
  | SNormal | SNone                       (* SpecialValues *)
  | SExtent (w h : len)
  | SOrigin (x y : len)
  | SPadding (b e a s : len)
  | SPosition (he : Z) (ho : len) (ve : Z) (vo : len)
  | SBool (b : bool)
  | SInt (n : Z)                          (* a number given as int *)
  | SFrac (q : Q)                         (* a number given as Fraction (not integral) *)
  | STextDec (u l o : option bool)
  | SEmph (style : Z) (c : option color) (pos : Z)
  | SOutline (c : option color) (th : len)
  | SShadows (l : list (len * len * option len * option color))
  | SReserve (pos : Z) (l : option len)
  | SFonts (fs : list (bool * text)).     (* (generic?, name) *)


(* a specified style value as the reader stores it: parsed by the model, or (properties whose value syntax is not
   modelled: tts:fontFamily, tts:opacity, tts:luminanceGain) the number the harness gave to the value *)
Inductive sv := SV (v : sval) | SO (id : Z).
Definition sdict := list (Z * sv).       (* property number -> value, in insertion order (a Python dict) *)

(* ---- the canonical-model tree the reader builds / the writer starts from (timing view) ---- *)
Inductive ekind := KBody | KDiv | KP | KSpan | KRuby | KRb | KRt | KRp | KRbc | KRtc | KBr | KSet | KRegion | KText.

Definition ekind_code (k : ekind) : Z :=
  match k with KBody => 0 | KDiv => 1 | KP => 2 | KSpan => 3 | KRuby => 4 | KRb => 5 | KRt => 6 | KRp => 7
             | KRbc => 8 | KRtc => 9 | KBr => 10 | KSet => 11 | KRegion => 12 | KText => 13 end.
Definition ekind_eqb (a b : ekind) : bool := ekind_code a =? ekind_code b.


(* an animation step as read: property number, value, begin, end (relative to the parent) *)
Definition anim := (Z * sv * Q * option Q)%type.

(* the canonical-model tree built by the reader (timing view) *)
Inductive mnode :=
  | MText (t : text)
  | MElem (k : ekind) (rid : option text) (b e : option Q) (preserve : bool) (lang : text)
          (region : option text) (styles : sdict) (anims : list anim) (cs : list mnode).

Definition m_kind (n : mnode) : ekind := match n with MText _ => KText | MElem k _ _ _ _ _ _ _ _ _ => k end.

