(* Types shared by the SRT reader model (Model/SrtReader.v), the SubRip cue specification
   (Spec/SrtCueSpec.v) and the C10 case files: the observable result of reading an SRT file.

   A paragraph is observed at two levels:
   - `elem` : the tree below the P element exactly as the reader builds it (Span / Br / Text, each span
     with the style properties *specified* on it: FontWeight=bold, FontStyle=italic,
     TextDecoration(underline), Color);
   - `item` : the flattened sequence of styled characters and line breaks (`flat_kids`), where each
     character carries the styles it inherits from its ancestors up to the paragraph (TTML inheritance:
     nearest ancestor that specifies the property; underline accumulates).  The property C10 is stated
     on this level; the correspondence check compares both levels. *)
From TT Require Import Base.Prelude.
From Coq Require Import QArith.
Local Open Scope Z_scope.

Definition rgba := (Z * Z * Z * Z)%type.

Record sstyle := mkSt { st_b : bool; st_i : bool; st_u : bool; st_c : option rgba }.
Definition st0 : sstyle := mkSt false false false None.

Inductive elem :=
| ESpan (s : sstyle) (kids : list elem)
| EBr
| EText (t : text).

Inductive item :=
| Ch (c : Z) (s : sstyle)
| Brk.

(* a paragraph as built: begin, end (seconds, exact rationals in lowest terms) and its children *)
Record pcue := mkP { p_begin : Q; p_end : Q; p_kids : list elem }.
(* a cue as observed: begin, end, styled characters and line breaks *)
Definition cue := (Q * Q * list item)%type.

Inductive exn := ETypeError | EAttributeError | EValueError | EAssertionError.

(* result of a call: a value, `None` returned after LOGGER.fatal, an exception, or "outside the part of
   html.parser's behaviour that the model transcribes" (no claim is made then) *)
Inductive outcome (A : Type) :=
| Ok (a : A)
| RetNone
| Raised (e : exn)
| Unmodelled.
Arguments Ok {A} a.  Arguments RetNone {A}.  Arguments Raised {A} e.  Arguments Unmodelled {A}.

(* ---- flattening (the observation) *)
Definition inherit (outer inner : sstyle) : sstyle :=
  mkSt (st_b outer || st_b inner) (st_i outer || st_i inner) (st_u outer || st_u inner)
       (match st_c inner with Some c => Some c | None => st_c outer end).

Fixpoint flat (inh : sstyle) (e : elem) : list item :=
  match e with
  | ESpan s kids =>
      (fix go (l : list elem) : list item :=
         match l with [] => [] | x :: l' => flat (inherit inh s) x ++ go l' end) kids
  | EBr => [Brk]
  | EText t => map (fun c => Ch c inh) t
  end.
Fixpoint flat_list (inh : sstyle) (l : list elem) : list item :=
  match l with [] => [] | x :: l' => flat inh x ++ flat_list inh l' end.

Definition observe (p : pcue) : cue := (p_begin p, p_end p, flat_list st0 (p_kids p)).

(* ---- decidable equalities used by the case files *)
Definition rgba_eqb (a b : rgba) : bool :=
  let '(r1, g1, b1, a1) := a in let '(r2, g2, b2, a2) := b in
  (r1 =? r2) && (g1 =? g2) && (b1 =? b2) && (a1 =? a2).
Definition optc_eqb (a b : option rgba) : bool :=
  match a, b with Some x, Some y => rgba_eqb x y | None, None => true | _, _ => false end.
Definition sstyle_eqb (a b : sstyle) : bool :=
  Bool.eqb (st_b a) (st_b b) && Bool.eqb (st_i a) (st_i b) && Bool.eqb (st_u a) (st_u b) && optc_eqb (st_c a) (st_c b).

Fixpoint elem_eqb (a b : elem) : bool :=
  match a, b with
  | ESpan s k, ESpan s' k' =>
      sstyle_eqb s s' &&
      (fix go (l l' : list elem) : bool :=
         match l, l' with
         | [], [] => true
         | x :: r, y :: r' => elem_eqb x y && go r r'
         | _, _ => false
         end) k k'
  | EBr, EBr => true
  | EText t, EText t' => text_eqb t t'
  | _, _ => false
  end.
Fixpoint list_eqb {A} (f : A -> A -> bool) (l l' : list A) : bool :=
  match l, l' with
  | [], [] => true
  | x :: r, y :: r' => f x y && list_eqb f r r'
  | _, _ => false
  end.
(* structural equality of rationals: both sides are in lowest terms *)
Definition q_eqb (a b : Q) : bool := (Qnum a =? Qnum b) && (Pos.eqb (Qden a) (Qden b)).
Definition pcue_eqb (a b : pcue) : bool :=
  q_eqb (p_begin a) (p_begin b) && q_eqb (p_end a) (p_end b) && list_eqb elem_eqb (p_kids a) (p_kids b).
Definition item_eqb (a b : item) : bool :=
  match a, b with
  | Ch c s, Ch c' s' => (c =? c') && sstyle_eqb s s'
  | Brk, Brk => true
  | _, _ => false
  end.
Definition cue_eqb (a b : cue) : bool :=
  let '(b1, e1, l1) := a in let '(b2, e2, l2) := b in
  q_eqb b1 b2 && q_eqb e1 e2 && list_eqb item_eqb l1 l2.
Definition exn_eqb (a b : exn) : bool :=
  match a, b with
  | ETypeError, ETypeError | EAttributeError, EAttributeError | EValueError, EValueError | EAssertionError, EAssertionError => true
  | _, _ => false
  end.
Definition outcome_eqb {A} (f : A -> A -> bool) (a b : outcome A) : bool :=
  match a, b with
  | Ok x, Ok y => f x y
  | RetNone, RetNone => true
  | Raised e, Raised e' => exn_eqb e e'
  | Unmodelled, Unmodelled => true
  | _, _ => false
  end.
Definition outcome_map {A B} (f : A -> B) (o : outcome A) : outcome B :=
  match o with Ok a => Ok (f a) | RetNone => RetNone | Raised e => Raised e | Unmodelled => Unmodelled end.
