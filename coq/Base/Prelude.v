(* Common imports, list helpers and arithmetic set-up shared by the whole development. *)
From Coq Require Export ZArith List Bool Lia ZifyBool.
Export ListNotations.

Ltac Zify.zify_post_hook ::= Z.to_euclidean_division_equations.

Open Scope Z_scope.

(* text = list of Unicode code points *)
Definition text := list Z.

Fixpoint text_eqb (a b : text) : bool :=
  match a, b with
  | [], [] => true
  | x :: a', y :: b' => (x =? y) && text_eqb a' b'
  | _, _ => false
  end.

Lemma text_eqb_eq a b : text_eqb a b = true <-> a = b.
Proof.
  revert b; induction a as [|x a IH]; intros [|y b]; simpl; split; intro H; try congruence; try discriminate.
  - apply andb_true_iff in H as [H1 H2]. apply Z.eqb_eq in H1. apply IH in H2. congruence.
  - inversion H; subst. rewrite Z.eqb_refl. simpl. apply IH. reflexivity.
Qed.

Fixpoint assoc_z {A} (l : list (Z * A)) (k : Z) : option A :=
  match l with
  | [] => None
  | (x, r) :: l' => if k =? x then Some r else assoc_z l' k
  end.
Definition is_nonempty_l {A} (l : list A) : bool := match l with [] => false | _ => true end.

(* ceil(n/d) for d > 0 and half-even rounding of n/d, as Python's math.ceil / round on Fractions *)
Definition ceil_div (n d : Z) : Z := - ((- n) / d).
Definition round_he (n d : Z) : Z :=
  let q := n / d in let r := n mod d in
  if 2 * r <? d then q else if d <? 2 * r then q + 1 else if Z.even q then q else q + 1.

(* indices of the false entries of a boolean list; used by the correspondence case files *)
Fixpoint bad_indices_from (i : Z) (l : list bool) : list Z :=
  match l with
  | [] => []
  | true :: l' => bad_indices_from (i + 1) l'
  | false :: l' => i :: bad_indices_from (i + 1) l'
  end.
Definition check_all (l : list bool) : Z * list Z :=
  (Z.of_nat (length l), bad_indices_from 0 l).

Fixpoint iter_n {A} (n : nat) (f : A -> A) (x : A) : A :=
  match n with O => x | S k => f (iter_n k f x) end.
