(* Semantic domain of the Python numeric expressions that ttconv/time_code.py uses on its exact path.
   The generated model coq/Gen/TimeCodeSrc.v (harness/pytrans.py) is written over these operations only.

   Values: exact rationals in lowest terms (Qc of the standard library: a Q together with a proof that it is
   reduced; equality is Leibniz equality, Qc_is_canon, and everything computes by vm_compute).  Python's int is
   the subset with denominator 1, fractions.Fraction is the whole type; bool, str and objects are separate
   Gallina types of the generated file.

   What is NOT modelled (trusted base, said again in the evidence of ./check C12):
   * binary64: `int / int` and `float(int)` are floats in CPython; here they are the exact quotient / the
     identity (py_truediv, py_float).  The results agree after floor()/int() for operands below 2^53/216000
     (DESIGN.md section 5 C12); the places where the source relies on this are listed by the translator.
   * ZeroDivisionError: x / 0 = 0, x % 0 = x here (as in Z); no divisor is 0 for a frame rate >= 9/1001.
   * unbounded recursion, memory.                                                                        *)
From Coq Require Import QArith Qcanon Qround Qreduction.
From TT Require Import Base.Prelude.
Local Open Scope Z_scope.

Definition num := Qc.
Definition inj_frac (a b : Z) : num := Q2Qc (a # Z.to_pos b).      (* Fraction(a, b) for b > 0 *)
Definition inj (a : Z) : num := inj_frac a 1.                       (* the int a *)
Definition num_n (x : num) : Z := Qnum (this x).                    (* numerator of the reduced form *)
Definition num_d (x : num) : Z := Zpos (Qden (this x)).             (* denominator of the reduced form *)

(* ---- operators ------------------------------------------------------------------------------ *)
Definition py_add (x y : num) : num := Qcplus x y.
Definition py_sub (x y : num) : num := Qcminus x y.
Definition py_mul (x y : num) : num := Qcmult x y.
Definition py_neg (x : num) : num := Qcopp x.
Definition py_truediv (x y : num) : num := Qcdiv x y.               (* `/` *)
Definition floor_z (x : num) : Z := Qfloor (this x).
Definition ceil_z (x : num) : Z := Qceiling (this x).
Definition py_floor (x : num) : num := inj (floor_z x).             (* math.floor *)
Definition py_ceil (x : num) : num := inj (ceil_z x).               (* math.ceil *)
(* round(x): Fraction.__round__ without ndigits = divmod of the reduced numerator by the denominator, ties to even *)
Definition py_round (x : num) : num := inj (round_he (num_n x) (num_d x)).
(* int(x): truncation towards zero *)
Definition py_int (x : num) : num := inj (if num_n x <? 0 then ceil_z x else floor_z x).
Definition py_floordiv (x y : num) : num := py_floor (py_truediv x y).            (* `//` *)
Definition py_mod (x y : num) : num := py_sub x (py_mul y (py_floordiv x y)).     (* `%`: sign of the divisor *)
(* round(x, nd) for nd >= 0: Fraction(round(x * 10**nd), 10**nd) *)
Definition py_round_nd (x : num) (nd : Z) : num :=
  py_truediv (py_round (py_mul x (inj (10 ^ nd)))) (inj (10 ^ nd)).
Definition py_float (x : num) : num := x.                           (* float(int): exact below 2^53, see above *)
Definition py_fraction2 (a b : num) : num := py_truediv a b.        (* Fraction(a, b) *)
Definition py_numerator (x : num) : num := inj (num_n x).
Definition py_denominator (x : num) : num := inj (num_d x).

(* ints only: x & y; value.to_bytes(2, byteorder='big') as the pair (high, low) for 0 <= value < 65536; chr; `a or b` on Optional values *)
Definition py_and (x y : num) : num := inj (Z.land (floor_z x) (floor_z y)).
Definition py_to_bytes2 (x : num) : num * num := (inj (floor_z x / 256), inj (floor_z x mod 256)).
Definition py_chr (x : num) : text := [floor_z x].
Definition py_or_else {A} (a b : option A) : option A := match a with Some _ => a | None => b end.

Definition py_lt (x y : num) : bool := match Qcompare (this x) (this y) with Lt => true | _ => false end.
Definition py_le (x y : num) : bool := match Qcompare (this x) (this y) with Gt => false | _ => true end.
Definition py_gt (x y : num) : bool := py_lt y x.
Definition py_ge (x y : num) : bool := py_le y x.
Definition py_eq (x y : num) : bool := Qeq_bool (this x) (this y).
Definition py_ne (x y : num) : bool := negb (py_eq x y).

(* ---- outcomes of a call ------------------------------------------------------------------------ *)
Inductive exn := ValueError | TypeError | RuntimeError | KeyError | IndexError.
Inductive outcome (A : Type) : Type :=
| Ok (a : A)                    (* returned a *)
| Raise (e : exn)               (* an explicit `raise` statement was reached *)
| Unsupported (why : text).     (* the path leaves the exact model (float arithmetic) *)
Arguments Ok {A} a.  Arguments Raise {A} e.  Arguments Unsupported {A} why.
Definition bind {A B} (o : outcome A) (k : A -> outcome B) : outcome B :=
  match o with Ok a => k a | Raise e => Raise e | Unsupported w => Unsupported w end.
(* an argument annotated Union[float, Fraction] / tested by isinstance(x, (int, Fraction)) *)
Inductive pyarg := Exact (x : num) | Inexact.

(* ---- text: f'{x:0w}' on ints, str.join, + -------------------------------------------------------- *)
Fixpoint dec_fuel (fuel : nat) (n : Z) (acc : text) : text :=
  match fuel with
  | O => acc
  | S k => if n <? 10 then (48 + n) :: acc else dec_fuel k (n / 10) ((48 + n mod 10) :: acc)
  end.
Definition dec_nat (n : Z) : text := dec_fuel (S (Z.to_nat (Z.log2 n))) n [].     (* decimal digits of n >= 0 *)
Fixpoint zeros (k : nat) : text := match k with O => [] | S k' => 48 :: zeros k' end.
Definition zero_pad (w : Z) (t : text) : text := zeros (Z.to_nat (w - Z.of_nat (length t))) ++ t.
(* format(n, '0w') / '0wd' for an int n *)
Definition py_fmt0 (w : Z) (x : num) : text :=
  let n := floor_z x in if n <? 0 then 45 :: zero_pad (w - 1) (dec_nat (- n)) else zero_pad w (dec_nat n).
Fixpoint py_join (sep : text) (l : list text) : text :=
  match l with [] => [] | [a] => a | a :: l' => a ++ sep ++ py_join sep l' end.

(* =========================== reduction lemmas: to Z arithmetic =========================== *)
Lemma this_inj_frac a b : 0 < b -> (this (inj_frac a b) == a # Z.to_pos b)%Q.
Proof. intros _. unfold inj_frac. cbn [this Q2Qc]. apply Qred_correct. Qed.

Lemma num_eq (x y : num) : (this x == this y)%Q -> x = y.
Proof. apply Qc_is_canon. Qed.

Lemma frac_Qeq a b c d : 0 < b -> 0 < d -> ((a # Z.to_pos b) == (c # Z.to_pos d))%Q <-> a * d = c * b.
Proof. intros Hb Hd. unfold Qeq. cbn [Qnum Qden]. rewrite !Z2Pos.id by assumption. reflexivity. Qed.

Lemma inj_frac_eq a b c d : 0 < b -> 0 < d -> a * d = c * b -> inj_frac a b = inj_frac c d.
Proof.
  intros Hb Hd H. apply num_eq. rewrite !this_inj_frac by assumption. apply frac_Qeq; assumption.
Qed.
Lemma inj_frac_inv a b c d : 0 < b -> 0 < d -> inj_frac a b = inj_frac c d -> a * d = c * b.
Proof.
  intros Hb Hd H. apply (frac_Qeq a b c d Hb Hd). rewrite <- !this_inj_frac by assumption. rewrite H. reflexivity.
Qed.
Lemma inj_inj a b : inj a = inj b -> a = b.
Proof. intros H. apply inj_frac_inv in H; lia. Qed.
Lemma inj_frac_1 a : inj_frac a 1 = inj a.  Proof. reflexivity. Qed.
Lemma inj_frac_scale k a b : 0 < k -> 0 < b -> inj_frac (k * a) (k * b) = inj_frac a b.
Proof. intros. apply inj_frac_eq; nia. Qed.
Lemma inj_frac_int a b : 0 < b -> inj_frac (a * b) b = inj a.
Proof. intros. apply inj_frac_eq; lia. Qed.
Lemma inj_if (c : bool) a b : (if c then inj a else inj b) = inj (if c then a else b).
Proof. destruct c; reflexivity. Qed.

(* every value is some inj_frac *)
Lemma num_as_frac (x : num) : x = inj_frac (num_n x) (num_d x) /\ 0 < num_d x /\ Z.gcd (num_n x) (num_d x) = 1.
Proof.
  unfold num_n, num_d. split; [|split]; [|reflexivity|].
  - apply num_eq. rewrite this_inj_frac by reflexivity. rewrite Pos2Z.id. destruct (this x); reflexivity.
  - destruct x as [[n d] H]. cbn [this Qnum Qden].
    pose proof (Qred_correct (n # d)) as E.
    unfold Qred in *. pose proof (Z.ggcd_gcd n (Zpos d)) as G. pose proof (Z.ggcd_correct_divisors n (Zpos d)) as Dv.
    destruct (Z.ggcd n (Zpos d)) as [g [aa bb]]. cbn [fst snd] in *. injection H as H1 H2. destruct Dv as [D1 D2].
    assert (Hg : 0 < g) by (subst g; pose proof (Z.gcd_nonneg n (Zpos d));
      assert (Z.gcd n (Z.pos d) <> 0) by (intro Z0; apply Z.gcd_eq_0_r in Z0; discriminate); lia).
    assert (Hb : 0 < bb) by nia.
    assert (Hd : Z.pos d = bb) by (rewrite <- H2; apply Z2Pos.id; assumption).
    assert (g = 1) by nia. congruence.
Qed.

(* -- arithmetic -- *)
Ltac qc_frac := intros; apply num_eq;
  cbn [py_add py_sub py_mul py_neg py_truediv Qcplus Qcminus Qcmult Qcopp Qcdiv Qcinv this Q2Qc];
  unfold py_add, py_sub, py_mul, py_neg, py_truediv, Qcminus, Qcdiv, Qcplus, Qcmult, Qcopp, Qcinv; cbn [this Q2Qc];
  rewrite ?Qred_correct, ?this_inj_frac by (try assumption; try lia; try nia).

Lemma py_add_frac a b c d : 0 < b -> 0 < d -> py_add (inj_frac a b) (inj_frac c d) = inj_frac (a * d + c * b) (b * d).
Proof.
  qc_frac. unfold Qeq, Qplus. cbn [Qnum Qden]. rewrite !Pos2Z.inj_mul, !Z2Pos.id by (try assumption; nia). ring.
Qed.
Lemma py_neg_frac a b : 0 < b -> py_neg (inj_frac a b) = inj_frac (- a) b.
Proof. qc_frac. unfold Qeq, Qopp. cbn [Qnum Qden]. reflexivity. Qed.
Lemma py_sub_frac a b c d : 0 < b -> 0 < d -> py_sub (inj_frac a b) (inj_frac c d) = inj_frac (a * d - c * b) (b * d).
Proof.
  qc_frac. unfold Qeq, Qplus, Qopp. cbn [Qnum Qden]. rewrite !Pos2Z.inj_mul, !Z2Pos.id by (try assumption; nia). ring.
Qed.
Lemma py_mul_frac a b c d : 0 < b -> 0 < d -> py_mul (inj_frac a b) (inj_frac c d) = inj_frac (a * c) (b * d).
Proof.
  qc_frac. unfold Qeq, Qmult. cbn [Qnum Qden]. rewrite !Pos2Z.inj_mul, !Z2Pos.id by (try assumption; nia). ring.
Qed.
Lemma py_truediv_frac a b c d : 0 < b -> 0 < d -> 0 < c ->
  py_truediv (inj_frac a b) (inj_frac c d) = inj_frac (a * d) (b * c).
Proof.
  qc_frac. unfold Qeq, Qmult, Qinv. cbn [Qnum Qden].
  destruct c as [|c|c]; try lia. cbn [Qnum Qden]. rewrite !Pos2Z.inj_mul, !Z2Pos.id by (try assumption; nia).
  reflexivity.
Qed.
Lemma py_truediv_zero x : py_truediv x (inj 0) = inj 0.
Proof.
  apply num_eq. unfold py_truediv, Qcdiv, Qcmult, Qcinv. cbn [this Q2Qc]. rewrite !Qred_correct.
  change (this (inj 0)) with (0 # 1)%Q. unfold Qeq, Qmult, Qinv. cbn [Qnum Qden]. ring.
Qed.

(* int / mixed forms *)
Lemma py_add_int a b : py_add (inj a) (inj b) = inj (a + b).
Proof. unfold inj. rewrite py_add_frac by lia. apply inj_frac_eq; lia. Qed.
Lemma py_sub_int a b : py_sub (inj a) (inj b) = inj (a - b).
Proof. unfold inj. rewrite py_sub_frac by lia. apply inj_frac_eq; lia. Qed.
Lemma py_mul_int a b : py_mul (inj a) (inj b) = inj (a * b).
Proof. unfold inj. rewrite py_mul_frac by lia. apply inj_frac_eq; lia. Qed.
Lemma py_neg_int a : py_neg (inj a) = inj (- a).
Proof. unfold inj. apply py_neg_frac. lia. Qed.
Lemma py_truediv_int a b : 0 < b -> py_truediv (inj a) (inj b) = inj_frac a b.
Proof. intros. unfold inj. rewrite py_truediv_frac by lia. apply inj_frac_eq; lia. Qed.
Lemma py_mul_int_frac k a b : 0 < b -> py_mul (inj k) (inj_frac a b) = inj_frac (k * a) b.
Proof. intros. unfold inj. rewrite py_mul_frac by lia. apply inj_frac_eq; lia. Qed.
Lemma py_mul_frac_int k a b : 0 < b -> py_mul (inj_frac a b) (inj k) = inj_frac (a * k) b.
Proof. intros. unfold inj. rewrite py_mul_frac by lia. apply inj_frac_eq; lia. Qed.
Lemma py_add_int_frac k a b : 0 < b -> py_add (inj k) (inj_frac a b) = inj_frac (k * b + a) b.
Proof. intros. unfold inj. rewrite py_add_frac by lia. apply inj_frac_eq; lia. Qed.
Lemma py_add_frac_int k a b : 0 < b -> py_add (inj_frac a b) (inj k) = inj_frac (a + k * b) b.
Proof. intros. unfold inj. rewrite py_add_frac by lia. apply inj_frac_eq; lia. Qed.
Lemma py_sub_int_frac k a b : 0 < b -> py_sub (inj k) (inj_frac a b) = inj_frac (k * b - a) b.
Proof. intros. unfold inj. rewrite py_sub_frac by lia. apply inj_frac_eq; lia. Qed.
Lemma py_sub_frac_int k a b : 0 < b -> py_sub (inj_frac a b) (inj k) = inj_frac (a - k * b) b.
Proof. intros. unfold inj. rewrite py_sub_frac by lia. apply inj_frac_eq; lia. Qed.
Lemma py_truediv_frac_int k a b : 0 < b -> 0 < k -> py_truediv (inj_frac a b) (inj k) = inj_frac a (b * k).
Proof. intros. unfold inj. rewrite py_truediv_frac by lia. apply inj_frac_eq; nia. Qed.
Lemma py_truediv_int_frac k a b : 0 < b -> 0 < a -> py_truediv (inj k) (inj_frac a b) = inj_frac (k * b) a.
Proof. intros. unfold inj. rewrite py_truediv_frac by lia. apply inj_frac_eq; nia. Qed.

(* -- floor, ceil, round, int -- *)
Lemma floor_z_frac a b : 0 < b -> floor_z (inj_frac a b) = a / b.
Proof.
  intros. unfold floor_z. rewrite (Qfloor_comp _ _ (this_inj_frac a b H)). unfold Qfloor. rewrite Z2Pos.id by assumption. reflexivity.
Qed.
Lemma ceil_z_frac a b : 0 < b -> ceil_z (inj_frac a b) = ceil_div a b.
Proof.
  intros. unfold ceil_z. rewrite (Qceiling_comp _ _ (this_inj_frac a b H)). unfold Qceiling, Qfloor, Qopp, ceil_div.
  cbn [Qnum Qden]. rewrite Z2Pos.id by assumption. reflexivity.
Qed.
Lemma py_floor_frac a b : 0 < b -> py_floor (inj_frac a b) = inj (a / b).
Proof. intros. unfold py_floor. rewrite floor_z_frac by assumption. reflexivity. Qed.
Lemma py_ceil_frac a b : 0 < b -> py_ceil (inj_frac a b) = inj (ceil_div a b).
Proof. intros. unfold py_ceil. rewrite ceil_z_frac by assumption. reflexivity. Qed.
Lemma py_floor_int a : py_floor (inj a) = inj a.
Proof. unfold inj at 1. rewrite py_floor_frac by lia. rewrite Z.div_1_r. reflexivity. Qed.
Lemma py_ceil_int a : py_ceil (inj a) = inj a.
Proof. unfold inj at 1. rewrite py_ceil_frac by lia. unfold ceil_div. rewrite Z.div_1_r. f_equal. lia. Qed.
(* floor(a / b) on ints is Z division; also for b = 0 under the conventions above *)
Lemma py_floor_truediv_int a b : 0 <= b -> py_floor (py_truediv (inj a) (inj b)) = inj (a / b).
Proof.
  intros Hb. destruct (Z.eq_dec b 0) as [->|].
  - rewrite py_truediv_zero, py_floor_int. f_equal. symmetry. apply Zdiv_0_r.
  - rewrite py_truediv_int, py_floor_frac by lia. reflexivity.
Qed.

Lemma round_he_scale k n d : 0 < k -> 0 < d -> round_he (k * n) (k * d) = round_he n d.
Proof.
  intros Hk Hd. unfold round_he. rewrite Z.div_mul_cancel_l, Z.mul_mod_distr_l by lia.
  set (r := n mod d). set (q := n / d).
  replace (2 * (k * r) <? k * d) with (2 * r <? d) by (destruct (2 * r <? d) eqn:E; symmetry; nia).
  replace (k * d <? 2 * (k * r)) with (d <? 2 * r) by (destruct (d <? 2 * r) eqn:E; symmetry; nia).
  reflexivity.
Qed.
Lemma round_he_cross a b c d : 0 < b -> 0 < d -> a * d = c * b -> round_he a b = round_he c d.
Proof.
  intros Hb Hd H. rewrite <- (round_he_scale d a b), <- (round_he_scale b c d) by assumption.
  f_equal; lia.
Qed.
Lemma round_he_int k d : 0 < d -> round_he (k * d) d = k.
Proof. intros. unfold round_he. rewrite Z.div_mul, Z.mod_mul by lia. replace (2 * 0 <? d) with true by lia. reflexivity. Qed.

Lemma py_round_frac a b : 0 < b -> py_round (inj_frac a b) = inj (round_he a b).
Proof.
  intros Hb. unfold py_round. f_equal.
  destruct (num_as_frac (inj_frac a b)) as (E & Hd & _).
  apply round_he_cross; try assumption. apply inj_frac_inv; try assumption. symmetry. exact E.
Qed.
Lemma py_round_int a : py_round (inj a) = inj a.
Proof. unfold inj at 1. rewrite py_round_frac by lia. f_equal. replace a with (a * 1) at 1 by lia. apply round_he_int. lia. Qed.

Lemma num_n_sign a b : 0 < b -> (num_n (inj_frac a b) <? 0) = (a <? 0).
Proof.
  intros Hb. destruct (num_as_frac (inj_frac a b)) as (E & Hd & _).
  symmetry in E. apply inj_frac_inv in E; try assumption.
  destruct (num_n (inj_frac a b) <? 0) eqn:E1; destruct (a <? 0) eqn:E2; try reflexivity; nia.
Qed.
Lemma py_int_frac a b : 0 < b -> py_int (inj_frac a b) = inj (if a <? 0 then ceil_div a b else a / b).
Proof. intros. unfold py_int. rewrite num_n_sign, ceil_z_frac, floor_z_frac by assumption. reflexivity. Qed.
Lemma py_int_frac_nonneg a b : 0 < b -> 0 <= a -> py_int (inj_frac a b) = inj (a / b).
Proof. intros. rewrite py_int_frac by assumption. replace (a <? 0) with false by lia. reflexivity. Qed.
Lemma py_int_int a : py_int (inj a) = inj a.
Proof.
  unfold inj at 1. rewrite py_int_frac by lia. unfold ceil_div. rewrite !Z.div_1_r. destruct (a <? 0); f_equal; lia.
Qed.

(* -- // and % -- *)
Lemma py_floordiv_int a b : 0 <= b -> py_floordiv (inj a) (inj b) = inj (a / b).
Proof. apply py_floor_truediv_int. Qed.
Lemma py_mod_int a b : 0 <= b -> py_mod (inj a) (inj b) = inj (a mod b).
Proof.
  intros. unfold py_mod. rewrite py_floordiv_int, py_mul_int, py_sub_int by lia. f_equal.
  destruct (Z.eq_dec b 0) as [->|]; [rewrite Zmod_0_r; lia|]. rewrite Z.mod_eq by lia. reflexivity.
Qed.
Lemma py_mod_frac a b c d : 0 < b -> 0 < d -> 0 < c ->
  py_mod (inj_frac a b) (inj_frac c d) = inj_frac ((a * d) mod (b * c)) (b * d).
Proof.
  intros. unfold py_mod, py_floordiv. rewrite py_truediv_frac, py_floor_frac by (try assumption; nia).
  unfold inj. rewrite py_mul_frac, py_sub_frac by (try assumption; nia). apply inj_frac_eq; [nia | nia |].
  rewrite (Z.mod_eq (a * d) (b * c)) by nia. ring.
Qed.
Lemma py_mod_frac_int a b k : 0 < b -> 0 < k -> py_mod (inj_frac a b) (inj k) = inj_frac (a mod (b * k)) b.
Proof. intros. unfold inj. rewrite py_mod_frac by lia. apply inj_frac_eq; [nia | nia |]. rewrite !Z.mul_1_r. ring. Qed.

(* -- round(x, nd), numerator, denominator, float -- *)
Lemma py_round_nd_frac a b nd : 0 < b -> 0 <= nd ->
  py_round_nd (inj_frac a b) nd = inj_frac (round_he (a * 10 ^ nd) b) (10 ^ nd).
Proof.
  intros Hb Hn. assert (0 < 10 ^ nd) by (apply Z.pow_pos_nonneg; lia).
  unfold py_round_nd. rewrite py_mul_frac_int, py_round_frac, py_truediv_int by assumption. reflexivity.
Qed.
Lemma py_numerator_frac a b : 0 < b -> Z.gcd a b = 1 -> py_numerator (inj_frac a b) = inj a.
Proof.
  intros Hb Hg. unfold py_numerator, num_n, inj_frac. cbn [this Q2Qc]. rewrite Qred_identity; [reflexivity|].
  cbn [Qnum Qden]. rewrite Z2Pos.id by assumption. exact Hg.
Qed.
Lemma py_denominator_frac a b : 0 < b -> Z.gcd a b = 1 -> py_denominator (inj_frac a b) = inj b.
Proof.
  intros Hb Hg. unfold py_denominator, num_d, inj_frac. cbn [this Q2Qc]. rewrite Qred_identity.
  - cbn [Qden]. rewrite Z2Pos.id by assumption. reflexivity.
  - cbn [Qnum Qden]. rewrite Z2Pos.id by assumption. exact Hg.
Qed.
Lemma py_denominator_int a : py_denominator (inj a) = inj 1.
Proof. unfold inj at 1. apply py_denominator_frac; [lia|]. apply Z.gcd_1_r. Qed.

(* -- comparisons -- *)
Lemma compare_frac a b c d : 0 < b -> 0 < d ->
  Qcompare (this (inj_frac a b)) (this (inj_frac c d)) = (a * d ?= c * b).
Proof.
  intros Hb Hd. rewrite (Qcompare_comp _ _ (this_inj_frac a b Hb) _ _ (this_inj_frac c d Hd)).
  unfold Qcompare. cbn [Qnum Qden]. rewrite !Z2Pos.id by assumption. reflexivity.
Qed.
Lemma py_lt_frac a b c d : 0 < b -> 0 < d -> py_lt (inj_frac a b) (inj_frac c d) = (a * d <? c * b).
Proof. intros. unfold py_lt. rewrite compare_frac by assumption. unfold Z.ltb. reflexivity. Qed.
Lemma py_le_frac a b c d : 0 < b -> 0 < d -> py_le (inj_frac a b) (inj_frac c d) = (a * d <=? c * b).
Proof. intros. unfold py_le. rewrite compare_frac by assumption. unfold Z.leb. destruct (a * d ?= c * b); reflexivity. Qed.
Lemma py_eq_frac a b c d : 0 < b -> 0 < d -> py_eq (inj_frac a b) (inj_frac c d) = (a * d =? c * b).
Proof.
  intros Hb Hd. unfold py_eq. destruct (a * d =? c * b) eqn:E.
  - apply Qeq_bool_iff. rewrite !this_inj_frac by assumption. apply Z.eqb_eq in E. apply frac_Qeq; assumption.
  - destruct (Qeq_bool _ _) eqn:E'; [|reflexivity]. apply Qeq_bool_iff in E'.
    rewrite !this_inj_frac in E' by assumption. apply (proj1 (frac_Qeq a b c d Hb Hd)) in E'.
    apply Z.eqb_neq in E. contradiction.
Qed.
Lemma py_lt_int a b : py_lt (inj a) (inj b) = (a <? b).
Proof. unfold inj. rewrite py_lt_frac by lia. rewrite !Z.mul_1_r. reflexivity. Qed.
Lemma py_le_int a b : py_le (inj a) (inj b) = (a <=? b).
Proof. unfold inj. rewrite py_le_frac by lia. rewrite !Z.mul_1_r. reflexivity. Qed.
Lemma py_eq_int a b : py_eq (inj a) (inj b) = (a =? b).
Proof. unfold inj. rewrite py_eq_frac by lia. rewrite !Z.mul_1_r. reflexivity. Qed.
Lemma py_lt_frac_int a b k : 0 < b -> py_lt (inj_frac a b) (inj k) = (a <? k * b).
Proof. intros. unfold inj. rewrite py_lt_frac by lia. rewrite !Z.mul_1_r. reflexivity. Qed.

(* -- text -- *)
Lemma floor_z_int a : floor_z (inj a) = a.
Proof. unfold inj. rewrite floor_z_frac by lia. apply Z.div_1_r. Qed.
Lemma dec_fuel_enough f1 : forall f2 n acc, 0 <= n < 10 ^ Z.of_nat (S f1) -> n < 10 ^ Z.of_nat (S f2) ->
  dec_fuel (S f1) n acc = dec_fuel (S f2) n acc.
Proof.
  induction f1 as [|f1 IH]; intros f2 n acc H1 H2; cbn [dec_fuel]; destruct (n <? 10) eqn:E; try reflexivity.
  - change (10 ^ Z.of_nat 1) with 10 in H1. lia.
  - destruct f2 as [|f2]; [change (10 ^ Z.of_nat 1) with 10 in H2; lia|].
    rewrite !Nat2Z.inj_succ, !Z.pow_succ_r in H1, H2 by lia.
    apply IH; rewrite ?Nat2Z.inj_succ, ?Z.pow_succ_r by lia.
    + split; [apply Z.div_pos; lia|]. apply Z.div_lt_upper_bound; lia.
    + apply Z.div_lt_upper_bound; lia.
Qed.
Lemma dec_nat_fuel n f : 0 <= n < 10 ^ Z.of_nat (S f) -> dec_nat n = dec_fuel (S f) n [].
Proof.
  intros H. unfold dec_nat. apply dec_fuel_enough; [|lia].
  split; [lia|]. destruct (Z.eq_dec n 0) as [->|]; [apply Z.pow_pos_nonneg; lia|].
  rewrite Nat2Z.inj_succ, Z2Nat.id by apply Z.log2_nonneg.
  apply Z.lt_le_trans with (2 ^ Z.succ (Z.log2 n)); [apply Z.log2_spec; lia|].
  apply Z.pow_le_mono_l. lia.
Qed.

(* -- bitwise and, to_bytes -- *)
Lemma py_and_int a b : py_and (inj a) (inj b) = inj (Z.land a b).
Proof. unfold py_and. rewrite !floor_z_int. reflexivity. Qed.
Lemma py_to_bytes2_int a : py_to_bytes2 (inj a) = (inj (a / 256), inj (a mod 256)).
Proof. unfold py_to_bytes2. rewrite !floor_z_int. reflexivity. Qed.
