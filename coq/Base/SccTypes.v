(* types shared by the C17 model and specification *)
From TT Require Import Base.Prelude.

(* the decoded view of a word: class, channel (0 none, 1, 2), code identity, PAC row, PAC indent (-1 none),
   colour (packed rgba, -1 none), italic, underline, background flag, text code points (-1 absent) *)
Record dec := mkDec { d_cls : Z ; d_chan : Z ; d_code : Z ; d_row : Z ; d_indent : Z ; d_color : Z ;
                      d_italic : bool ; d_under : bool ; d_bg : bool ; d_t1 : Z ; d_t2 : Z }.
Definition cPad := 0.  Definition cChars := 1.  Definition cPac := 2.  Definition cMidRow := 3.
Definition cControl := 4.  Definition cAttr := 5.  Definition cSpecial := 6.  Definition cExtended := 7.
Definition cUnknown := 8.

Definition dec_eqb (a b : dec) : bool :=
  (d_cls a =? d_cls b) && (d_chan a =? d_chan b) && (d_code a =? d_code b) && (d_row a =? d_row b) &&
  (d_indent a =? d_indent b) && (d_color a =? d_color b) && Bool.eqb (d_italic a) (d_italic b) &&
  Bool.eqb (d_under a) (d_under b) && Bool.eqb (d_bg a) (d_bg b) && (d_t1 a =? d_t1 b) && (d_t2 a =? d_t2 b).

