(* Types of the heap machine that models ttconv/model.py for property C15: element kinds, style
   properties, the *shape* of style values (what the validate functions of style_properties.py can
   tell apart), nodes with their private link fields, document records and the heap.
   Shared by the implementation model (Model/Heap.v) and by the specification (Spec/ModelWF.v),
   which share nothing else.  No proofs here beyond decidable equalities. *)
From Coq Require Import List Arith Bool.
Import ListNotations.

Inductive kind := KRegion | KBody | KDiv | KP | KSpan | KBr | KText | KRuby | KRb | KRt | KRp | KRbc | KRtc.

(* the 36 members of StyleProperties.ALL, in source order *)
Inductive prop :=
| PBackgroundColor | PColor | PDirection | PDisparity | PDisplay | PDisplayAlign | PExtent | PFillLineGap
| PFontFamily | PFontSize | PFontStyle | PFontWeight | PLineHeight | PLinePadding | PLuminanceGain
| PMultiRowAlign | POpacity | POrigin | POverflow | PPadding | PPosition | PRubyAlign | PRubyPosition
| PRubyReserve | PShear | PShowBackground | PTextAlign | PTextCombine | PTextDecoration | PTextEmphasis
| PTextOutline | PTextShadow | PUnicodeBidi | PVisibility | PWrapOption | PWritingMode.

Inductive lunit := Uem | Upct | Urh | Urw | Uc | Upx.

(* enumeration classes of style_properties.py whose members are style values *)
Inductive enumty :=
| EDirection | EDisplay | EDisplayAlign | EFontStyle | EFontWeight | EMultiRowAlign | EOverflow | ERubyAlign
| EAnnotationPosition | EShowBackground | ETextAlign | ETextCombine | EUnicodeBidi | EVisibility | EWrapOption
| EWritingMode | EGenericFontFamily.

Inductive special := SNone | SNormal.            (* SpecialValues.none / .normal *)
Inductive fitem := FStr | FGeneric | FOther.      (* an item of a tuple/list: str, GenericFontFamilyType, anything else *)

(* Shape of a Python value passed as a style value.  A field of a geometry dataclass that is not a
   LengthType (the dataclasses do not check) is None. *)
Inductive sval :=
| VColor                                   (* ColorType *)
| VLen (u : lunit)                         (* LengthType *)
| VEnum (e : enumty)
| VSpecial (s : special)
| VBool                                    (* bool (a numbers.Number in Python) *)
| VNum                                     (* int, float, Fraction *)
| VStr
| VTuple (l : list fitem)
| VList (l : list fitem)                   (* a list, not a tuple *)
| VExtent (h w : option lunit)             (* ExtentType(height, width) *)
| VCoord (x y : option lunit)              (* CoordinateType(x, y) *)
| VPos (h v : option lunit)                (* PositionType(h_offset, v_offset, ..) *)
| VPadding | VRubyReserve | VTextDec | VTextEmph | VTextOutline | VTextShadow
| VOther.                                  (* any other object *)

Record node := mkNode {
  n_kind : kind ;
  n_doc : option nat ;
  n_parent : option nat ;
  n_first : option nat ;
  n_last : option nat ;
  n_next : option nat ;
  n_prev : option nat ;
  n_region : option nat ;
  n_begin : bool ;
  n_end : bool ;
  n_id : option nat ;
  n_lang : bool ;
  n_space : bool ;
  n_styles : list (prop * sval) ;
  n_anims : list (prop * sval) ;
  n_users : list nat ;
  n_text : nat }.

(* n_users: Region._users, the set of elements that reference the region (kept in ascending order; [] on
   elements that are not regions).  n_text: the text content of a Text node, as the number of the string
   in the harness's pool (0 = the empty string). *)
Definition set_doc (v : option nat) (n : node) : node := mkNode (n_kind n) v (n_parent n) (n_first n) (n_last n) (n_next n) (n_prev n) (n_region n) (n_begin n) (n_end n) (n_id n) (n_lang n) (n_space n) (n_styles n) (n_anims n) (n_users n) (n_text n).
Definition set_parent (v : option nat) (n : node) : node := mkNode (n_kind n) (n_doc n) v (n_first n) (n_last n) (n_next n) (n_prev n) (n_region n) (n_begin n) (n_end n) (n_id n) (n_lang n) (n_space n) (n_styles n) (n_anims n) (n_users n) (n_text n).
Definition set_first (v : option nat) (n : node) : node := mkNode (n_kind n) (n_doc n) (n_parent n) v (n_last n) (n_next n) (n_prev n) (n_region n) (n_begin n) (n_end n) (n_id n) (n_lang n) (n_space n) (n_styles n) (n_anims n) (n_users n) (n_text n).
Definition set_last (v : option nat) (n : node) : node := mkNode (n_kind n) (n_doc n) (n_parent n) (n_first n) v (n_next n) (n_prev n) (n_region n) (n_begin n) (n_end n) (n_id n) (n_lang n) (n_space n) (n_styles n) (n_anims n) (n_users n) (n_text n).
Definition set_next (v : option nat) (n : node) : node := mkNode (n_kind n) (n_doc n) (n_parent n) (n_first n) (n_last n) v (n_prev n) (n_region n) (n_begin n) (n_end n) (n_id n) (n_lang n) (n_space n) (n_styles n) (n_anims n) (n_users n) (n_text n).
Definition set_prev (v : option nat) (n : node) : node := mkNode (n_kind n) (n_doc n) (n_parent n) (n_first n) (n_last n) (n_next n) v (n_region n) (n_begin n) (n_end n) (n_id n) (n_lang n) (n_space n) (n_styles n) (n_anims n) (n_users n) (n_text n).
Definition set_region (v : option nat) (n : node) : node := mkNode (n_kind n) (n_doc n) (n_parent n) (n_first n) (n_last n) (n_next n) (n_prev n) v (n_begin n) (n_end n) (n_id n) (n_lang n) (n_space n) (n_styles n) (n_anims n) (n_users n) (n_text n).
Definition set_begin (v : bool) (n : node) : node := mkNode (n_kind n) (n_doc n) (n_parent n) (n_first n) (n_last n) (n_next n) (n_prev n) (n_region n) v (n_end n) (n_id n) (n_lang n) (n_space n) (n_styles n) (n_anims n) (n_users n) (n_text n).
Definition set_end (v : bool) (n : node) : node := mkNode (n_kind n) (n_doc n) (n_parent n) (n_first n) (n_last n) (n_next n) (n_prev n) (n_region n) (n_begin n) v (n_id n) (n_lang n) (n_space n) (n_styles n) (n_anims n) (n_users n) (n_text n).
Definition set_id (v : option nat) (n : node) : node := mkNode (n_kind n) (n_doc n) (n_parent n) (n_first n) (n_last n) (n_next n) (n_prev n) (n_region n) (n_begin n) (n_end n) v (n_lang n) (n_space n) (n_styles n) (n_anims n) (n_users n) (n_text n).
Definition set_lang (v : bool) (n : node) : node := mkNode (n_kind n) (n_doc n) (n_parent n) (n_first n) (n_last n) (n_next n) (n_prev n) (n_region n) (n_begin n) (n_end n) (n_id n) v (n_space n) (n_styles n) (n_anims n) (n_users n) (n_text n).
Definition set_space (v : bool) (n : node) : node := mkNode (n_kind n) (n_doc n) (n_parent n) (n_first n) (n_last n) (n_next n) (n_prev n) (n_region n) (n_begin n) (n_end n) (n_id n) (n_lang n) v (n_styles n) (n_anims n) (n_users n) (n_text n).
Definition set_styles (v : list (prop * sval)) (n : node) : node := mkNode (n_kind n) (n_doc n) (n_parent n) (n_first n) (n_last n) (n_next n) (n_prev n) (n_region n) (n_begin n) (n_end n) (n_id n) (n_lang n) (n_space n) v (n_anims n) (n_users n) (n_text n).
Definition set_anims (v : list (prop * sval)) (n : node) : node := mkNode (n_kind n) (n_doc n) (n_parent n) (n_first n) (n_last n) (n_next n) (n_prev n) (n_region n) (n_begin n) (n_end n) (n_id n) (n_lang n) (n_space n) (n_styles n) v (n_users n) (n_text n).
Definition set_users (v : list nat) (n : node) : node := mkNode (n_kind n) (n_doc n) (n_parent n) (n_first n) (n_last n) (n_next n) (n_prev n) (n_region n) (n_begin n) (n_end n) (n_id n) (n_lang n) (n_space n) (n_styles n) (n_anims n) v (n_text n).
Definition set_text (v : nat) (n : node) : node := mkNode (n_kind n) (n_doc n) (n_parent n) (n_first n) (n_last n) (n_next n) (n_prev n) (n_region n) (n_begin n) (n_end n) (n_id n) (n_lang n) (n_space n) (n_styles n) (n_anims n) (n_users n) v.

(* ContentDocument: _regions (dict id -> region element, insertion order), _body, _initial_values, and the
   Document parameters _active_area, _cell_resolution, _px_resolution, _dar, _lang as the number of the value
   in the harness's pool (0 = the default value; None where the parameter is optional) *)
Record docrec := mkDoc { d_regions : list (nat * nat) ; d_body : option nat ; d_initials : list (prop * sval) ; d_active : option nat ; d_cell : nat ; d_px : nat ; d_dar : option nat ; d_dlang : nat }.
Definition set_regions (v : list (nat * nat)) (d : docrec) := mkDoc v (d_body d) (d_initials d) (d_active d) (d_cell d) (d_px d) (d_dar d) (d_dlang d).
Definition set_body (v : option nat) (d : docrec) := mkDoc (d_regions d) v (d_initials d) (d_active d) (d_cell d) (d_px d) (d_dar d) (d_dlang d).
Definition set_initials (v : list (prop * sval)) (d : docrec) := mkDoc (d_regions d) (d_body d) v (d_active d) (d_cell d) (d_px d) (d_dar d) (d_dlang d).
Definition set_active (v : option nat) (d : docrec) := mkDoc (d_regions d) (d_body d) (d_initials d) v (d_cell d) (d_px d) (d_dar d) (d_dlang d).
Definition set_cell (v : nat) (d : docrec) := mkDoc (d_regions d) (d_body d) (d_initials d) (d_active d) v (d_px d) (d_dar d) (d_dlang d).
Definition set_px (v : nat) (d : docrec) := mkDoc (d_regions d) (d_body d) (d_initials d) (d_active d) (d_cell d) v (d_dar d) (d_dlang d).
Definition set_dar (v : option nat) (d : docrec) := mkDoc (d_regions d) (d_body d) (d_initials d) (d_active d) (d_cell d) (d_px d) v (d_dlang d).
Definition set_dlang (v : nat) (d : docrec) := mkDoc (d_regions d) (d_body d) (d_initials d) (d_active d) (d_cell d) (d_px d) (d_dar d) v.

Record heap := mkHeap { h_nodes : list node ; h_docs : list docrec }.

Definition dnode : node := mkNode KText None None None None None None None false false None false false [] [] [] 0.
Definition ddoc : docrec := mkDoc [] None [] None 0 0 None 0.
Definition nd (h : heap) (i : nat) : node := nth i (h_nodes h) dnode.
Definition dc (h : heap) (d : nat) : docrec := nth d (h_docs h) ddoc.
Definition nnodes (h : heap) : nat := length (h_nodes h).
Definition ndocs (h : heap) : nat := length (h_docs h).

Fixpoint upd {A} (l : list A) (i : nat) (f : A -> A) : list A :=
  match l, i with
  | [], _ => []
  | x :: t, O => f x :: t
  | x :: t, S j => x :: upd t j f
  end.
Definition updn (h : heap) (i : nat) (f : node -> node) : heap := mkHeap (upd (h_nodes h) i f) (h_docs h).
Definition updd (h : heap) (d : nat) (f : docrec -> docrec) : heap := mkHeap (h_nodes h) (upd (h_docs h) d f).

(* ---- decidable equalities (boolean) ---- *)
Definition kind_eq_dec (a b : kind) : {a = b} + {a <> b}. Proof. decide equality. Defined.
Definition prop_eq_dec (a b : prop) : {a = b} + {a <> b}. Proof. decide equality. Defined.
Definition lunit_eq_dec (a b : lunit) : {a = b} + {a <> b}. Proof. decide equality. Defined.
Definition enumty_eq_dec (a b : enumty) : {a = b} + {a <> b}. Proof. decide equality. Defined.
Definition special_eq_dec (a b : special) : {a = b} + {a <> b}. Proof. decide equality. Defined.
Definition fitem_eq_dec (a b : fitem) : {a = b} + {a <> b}. Proof. decide equality. Defined.
Definition onat_eq_dec (a b : option nat) : {a = b} + {a <> b}. Proof. decide equality; apply Nat.eq_dec. Defined.
Definition olunit_eq_dec (a b : option lunit) : {a = b} + {a <> b}. Proof. decide equality; apply lunit_eq_dec. Defined.
Definition sval_eq_dec (a b : sval) : {a = b} + {a <> b}.
Proof. decide equality; try apply lunit_eq_dec; try apply enumty_eq_dec; try apply special_eq_dec;
  try apply olunit_eq_dec; apply list_eq_dec, fitem_eq_dec. Defined.
Definition pv_eq_dec (a b : prop * sval) : {a = b} + {a <> b}.
Proof. decide equality; [apply sval_eq_dec | apply prop_eq_dec]. Defined.
Definition node_eq_dec (a b : node) : {a = b} + {a <> b}.
Proof. decide equality; try apply onat_eq_dec; try apply Bool.bool_dec; try apply kind_eq_dec; try apply Nat.eq_dec;
  try (apply list_eq_dec, pv_eq_dec); apply list_eq_dec, Nat.eq_dec. Defined.
Definition docrec_eq_dec (a b : docrec) : {a = b} + {a <> b}.
Proof. decide equality; try apply onat_eq_dec; try apply Nat.eq_dec; try (apply list_eq_dec, pv_eq_dec).
  apply list_eq_dec. decide equality; apply Nat.eq_dec. Defined.
Definition heap_eq_dec (a b : heap) : {a = b} + {a <> b}.
Proof. decide equality; apply list_eq_dec; [apply docrec_eq_dec | apply node_eq_dec]. Defined.

Definition kind_eqb (a b : kind) : bool := if kind_eq_dec a b then true else false.
Definition prop_eqb (a b : prop) : bool := if prop_eq_dec a b then true else false.
Definition onat_eqb (a b : option nat) : bool := if onat_eq_dec a b then true else false.
Definition heap_eqb (a b : heap) : bool := if heap_eq_dec a b then true else false.
