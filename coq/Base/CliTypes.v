(* Types shared by the model (Model/Cli.v), the specification (Spec/CliSpec.v) and the generated case files of C19:
   JSON values, Python exception classes, decoded configuration records, command-line options, plans. *)
From Coq Require Import String Ascii.
From TT Require Import Base.Prelude.

(* ASCII string literal -> text *)
Definition T (s : string) : text := List.map (fun a => Z.of_N (N_of_ascii a)) (list_ascii_of_string s).

(* c repeated n times (used by generated literals for long runs) *)
Definition rep (c n : Z) : text := repeat c (Z.to_nat n).

(* ------------------------------------------------------------------ JSON values (as json.loads builds them) *)
Inductive json :=
| JNull
| JBool (b : bool)
| JInt (z : Z)                       (* arbitrary precision *)
| JFloat (n d : Z)                   (* a finite float, exactly n/d with d > 0 (float.as_integer_ratio) *)
| JFloatSpecial (k : Z)              (* 0 NaN, 1 Infinity, 2 -Infinity *)
| JStr (s : text)
| JArr (l : list json)
| JObj (l : list (text * json)).     (* source order; a repeated key: the last one wins, as in json.loads *)

(* Python exception classes / exits that can end `tt` before anything is written *)
Inductive exn := EValue | EType | EAttribute | EZeroDivision | EOverflow | EJsonDecode | EOSError
               | EExitUnsupported      (* sys.exit("... is not supported") *)
               | EExitUsage            (* argparse: exit status 2 *)
               | EStage (n : Z).       (* whatever a reader, filter or writer raises while it runs (class n; not modelled further) *)
Inductive res (A : Type) := Ok (a : A) | Raise (e : exn).
Arguments Ok {A} a. Arguments Raise {A} e.
Definition bind {A B} (r : res A) (f : A -> res B) : res B := match r with Ok a => f a | Raise e => Raise e end.
Notation "'do' x <- r ; k" := (bind r (fun x => k)) (at level 200, x name, r at level 100, k at level 200).
Definition is_ok {A} (r : res A) : bool := match r with Ok _ => true | Raise _ => false end.

(* ------------------------------------------------------------------ decoded configuration values *)
Inductive scc_align := AlLeft | AlCenter | AlRight | AlAuto.
Inductive tfmt := TfFrames | TfClockTime | TfClockTimeWithFrames.
Inductive mrc := MrcMNR | MrcInt (z : Z).
Definition rgba := (Z * Z * Z * Z)%type.
Record stl_cfg := { st_fill_gap : bool; st_start_tc : option text; st_line_padding : bool;
                    st_font_stack : option text   (* the accepted string; its families are parse_font_families of it *);
                    st_max_row : option mrc }.
Record imsc_cfg := { im_time_format : option tfmt; im_fps : option (Z * Z) }.
Record vtt_cfg := { vt_line_position : bool; vt_text_align : bool; vt_cue_id : bool }.
Record lcd_cfg := { lc_safe_area : Z; lc_preserve_text_align : bool; lc_color : option rgba; lc_bg_color : option rgba }.

Inductive ftype := TTML | SCC | SRT | STL | VTT.

Record options := { o_input : text; o_output : text; o_itype : option text; o_otype : option text;
                    o_filters : list text }.
Inductive argv := NoSubcommand | Subcommand (name : text) (o : options).
Inductive inline_src := IAbsent | IMalformed | IGiven (j : json).                 (* --config *)
Inductive file_src := FAbsent | FUnreadable | FMalformed | FGiven (j : json).     (* --config_file *)

Inductive reader := RdTtml | RdScc (c : option scc_align) | RdStl (c : option stl_cfg) | RdSrt | RdVtt.
Inductive writer := WrTtml (c : option imsc_cfg) | WrSrt (c : option bool) | WrVtt (c : option vtt_cfg).
Inductive filter_app := FLcd (c : lcd_cfg).
Record plan_t := { p_reader : reader; p_lang : option text; p_filters : list filter_app; p_writer : writer;
                   p_level : option Z; p_progress : option bool }.

Inductive outcome := OError (e : exn) | OHelp | OPlan (p : plan_t).

(* ------------------------------------------------------------------ the raw command line (tokens after the program name) *)
(* argparse destinations of the `convert` sub-parser (tt.py @subcommand([...])), plus its implicit -h/--help *)
Inductive dest := DHelp | DInput | DOutput | DItype | DOtype | DFilter | DConfig | DConfigFile.
(* the Namespace argparse builds: `store` keeps the last value, `append` all of them in order *)
Record namespace := { n_input : option text; n_output : option text; n_itype : option text; n_otype : option text;
                      n_filters : list text; n_config : option text; n_config_file : option text }.
(* what the process does, in order: effects that are visible outside tt.convert *)
Inductive event := EvProgress (b : bool)              (* progress.display_progress_bar = b *)
                 | EvLevel (z : Z)                     (* LOGGER.setLevel *)
                 | EvRead (r : reader) (path : text)   (* the reader is called on the input file *)
                 | EvLang (l : text)                   (* model.set_lang *)
                 | EvFilter (f : filter_app)           (* doc_filter.process(model) *)
                 | EvWrite (w : writer)                (* the writer's from_model is called *)
                 | EvOutput (path : text).             (* the output file is opened for writing and written *)
Inductive final (B : Type) := FHelp | FError (e : exn) | FDone (path : text) (b : B).
Arguments FHelp {B}. Arguments FError {B} e. Arguments FDone {B} path b.

Inductive key := KLogLevel | KProgressBar | KDocumentLang | KTimeFormat | KFps | KSccTextAlign
               | KFillLineGap | KStartTc | KLinePadding | KFontStack | KMaxRowCount | KTextFormatting
               | KLinePosition | KVttTextAlign | KCueId | KSafeArea | KPreserveTextAlign | KColor | KBgColor.
Inductive cval := CNone | CBool (b : bool) | CInt (z : Z) | CText (s : text) | CAlign (a : scc_align) | CTfmt (t : tfmt)
                | CFrac (n d : Z) | CMrc (m : mrc) | CColor (r g b a : Z).
Inductive probe_res := POk (c : cval) | PRaise (e : exn).
