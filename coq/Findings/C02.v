(* Recorded finding for C02 (KNOWN_FINDINGS.txt id anim-offset-parent-interval): compute_sig_times offsets the
   begin/end of animation steps by the PARENT's interval while _process_element offsets them by the element's
   own interval.  Witness: <p begin="10s" end="20s"><set begin="2s" end="4s" tts:backgroundColor="red"/>:
   the code reports [0, 2, 4, 10, 20]; the background changes at 12 and 14.  The obvious repair turns
   test_isd.ContentDocument0Test.test_significant_times red, hence recorded.  If this file stops compiling the
   finding is stale (reported as such, not a violation). *)
From TT Require Import Model.Doc Gen.StyleTables Model.Isd Model.SigTimes Model.IsdCases Proofs.C02.Stable.
Open Scope Z_scope.

Definition c02_witness : doc := (mkDoc [(Elem (mkAttrs KRegion (Some [114;49]) None None None [] [] false [] []) [])] (Some (Elem (mkAttrs KBody None None None (Some [114;49]) [] [] false [] []) [(Elem (mkAttrs KDiv None None None None [] [] false [] []) [(Elem (mkAttrs KP None (Some (Qmake 10 1)) (Some (Qmake 20 1)) None [] [(mkAnim 0 (Some (Qmake 2 1)) (Some (Qmake 4 1)) (VColor 4278190335))] false [] []) [(Elem (mkAttrs KSpan None None None None [] [] false [] []) [(Elem (mkAttrs KText None None None None [] [] false [] [120]) [])])])])])) [] 15 32 1080 1920 None None []).

Definition same_side_b (l : list Q) (t1 t2 : Q) : bool :=
  forallb (fun s => Bool.eqb (Qle_bool s t1) (Qle_bool s t2)) l.
Lemma same_side_b_true l t1 t2 : same_side_b l t1 t2 = true -> same_side l t1 t2.
Proof.
  unfold same_side_b, same_side. rewrite forallb_forall. intros H s Hs. specialize (H s Hs).
  apply Bool.eqb_prop in H. rewrite <- !Qle_bool_iff. rewrite H. reflexivity.
Qed.

Theorem C02_stable_refuted :
  exists d l t1 t2 i1 i2, sig d = Ok l /\ same_side l t1 t2 /\ Qle 0 t1 /\ Qle 0 t2 /\
                    isd d t1 = Ok i1 /\ isd d t2 = Ok i2 /\ isd_close i1 i2 = false.
Proof.
  exists c02_witness. eexists. exists (Qmake 11 1), (Qmake 13 1). eexists. eexists.
  split; [vm_compute; reflexivity|]. split; [apply same_side_b_true; vm_compute; reflexivity|].
  split; [discriminate|]. split; [discriminate|].
  split; [vm_compute; reflexivity|]. split; [vm_compute; reflexivity|]. vm_compute. reflexivity.
Qed.
Print Assumptions C02_stable_refuted.
