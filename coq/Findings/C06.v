(* Recorded findings for C06 (findings_proposed/C06.txt): the full-strength statements are false of the faithful model.
   Witness documents are those of harness/witnesses_c06.py (re-run against the implementation on every check); every
   refutation is decided by vm_compute on the model.  If this file stops compiling a finding is stale (reported as such). *)
From TT Require Import Model.Doc Gen.StyleTables Model.Isd Model.SigTimes Model.TimeCode Model.IsdFilters Gen.CueTables Model.CueWriter.
From TT Require Import Model.CueTriggers Spec.IsdSpec Spec.CueSpec Proofs.C06.Filters Proofs.C06.Inline Proofs.C06.Loop Proofs.C06.Text.
Open Scope Z_scope.

(* <p>pre<ruby><rb>BASE</rb><rt>anno</rt></ruby>post</p>, body 1 s .. 2 s *)
Definition w_ruby : doc := (mkDoc [(Elem (mkAttrs KRegion (Some [114;48]) None None None [] [] false [] []) [])] (Some (Elem (mkAttrs KBody None (Some (Qmake 1 1)) (Some (Qmake 2 1)) None [] [] false [] []) [(Elem (mkAttrs KDiv None None None (Some [114;48]) [] [] false [] []) [(Elem (mkAttrs KP None None None None [] [] false [] []) [(Elem (mkAttrs KSpan None None None None [] [] false [] []) [(Elem (mkAttrs KText None None None None [] [] false [] [112;114;101]) [])]); (Elem (mkAttrs KRuby None None None None [] [] false [] []) [(Elem (mkAttrs KRb None None None None [] [] false [] []) [(Elem (mkAttrs KSpan None None None None [] [] false [] []) [(Elem (mkAttrs KText None None None None [] [] false [] [66;65;83;69]) [])])]); (Elem (mkAttrs KRt None None None None [] [] false [] []) [(Elem (mkAttrs KSpan None None None None [] [] false [] []) [(Elem (mkAttrs KText None None None None [] [] false [] [97;110;110;111]) [])])])]); (Elem (mkAttrs KSpan None None None None [] [] false [] []) [(Elem (mkAttrs KText None None None None [] [] false [] [112;111;115;116]) [])])])])])) [] 15 32 1080 1920 None None []).

(* body/div/div/p "nested" *)
Definition w_nested : doc := (mkDoc [(Elem (mkAttrs KRegion (Some [114;48]) None None None [] [] false [] []) [])] (Some (Elem (mkAttrs KBody None (Some (Qmake 1 1)) (Some (Qmake 2 1)) None [] [] false [] []) [(Elem (mkAttrs KDiv None None None (Some [114;48]) [] [] false [] []) [(Elem (mkAttrs KDiv None None None None [] [] false [] []) [(Elem (mkAttrs KP None None None None [] [] false [] []) [(Elem (mkAttrs KSpan None None None None [] [] false [] []) [(Elem (mkAttrs KText None None None None [] [] false [] [110;101;115;116;101;100]) [])])])])])])) [] 15 32 1080 1920 None None []).

(* <p><span tts:color="red"><br/></span></p> *)
Definition w_tagsonly : doc := (mkDoc [(Elem (mkAttrs KRegion (Some [114;48]) None None None [] [] false [] []) [])] (Some (Elem (mkAttrs KBody None (Some (Qmake 1 1)) (Some (Qmake 2 1)) None [] [] false [] []) [(Elem (mkAttrs KDiv None None None (Some [114;48]) [] [] false [] []) [(Elem (mkAttrs KP None None None None [] [] false [] []) [(Elem (mkAttrs KSpan None None None None [(1, (VColor 4278190335))] [] false [] []) [(Elem (mkAttrs KBr None None None None [] [] false [] []) [])])])])])) [] 15 32 1080 1920 None None []).

(* <p begin="1s" end="2s">first</p> <p begin="3s" end="3.0003s">x</p> *)
Definition w_collapsed : doc := (mkDoc [(Elem (mkAttrs KRegion (Some [114;48]) None None None [] [] false [] []) [])] (Some (Elem (mkAttrs KBody None None None None [] [] false [] []) [(Elem (mkAttrs KDiv None None None (Some [114;48]) [] [] false [] []) [(Elem (mkAttrs KP None (Some (Qmake 1 1)) (Some (Qmake 2 1)) None [] [] false [] []) [(Elem (mkAttrs KSpan None None None None [] [] false [] []) [(Elem (mkAttrs KText None None None None [] [] false [] [102;105;114;115;116]) [])])]); (Elem (mkAttrs KP None (Some (Qmake 3 1)) (Some (Qmake 30003 10000)) None [] [] false [] []) [(Elem (mkAttrs KSpan None None None None [] [] false [] []) [(Elem (mkAttrs KText None None None None [] [] false [] [120]) [])])])])])) [] 15 32 1080 1920 None None []).

(* xml:space="preserve": a <br/> "  " <br/> b *)
Definition w_blankline : doc := (mkDoc [(Elem (mkAttrs KRegion (Some [114;48]) None None None [] [] false [] []) [])] (Some (Elem (mkAttrs KBody None None None None [] [] false [] []) [(Elem (mkAttrs KDiv None None None (Some [114;48]) [] [] false [] []) [(Elem (mkAttrs KP None (Some (Qmake 1 1)) (Some (Qmake 2 1)) None [] [] true [] []) [(Elem (mkAttrs KSpan None None None None [] [] true [] []) [(Elem (mkAttrs KText None None None None [] [] false [] [97]) [])]); (Elem (mkAttrs KBr None None None None [] [] true [] []) []); (Elem (mkAttrs KSpan None None None None [] [] true [] []) [(Elem (mkAttrs KText None None None None [] [] false [] [32;32]) [])]); (Elem (mkAttrs KBr None None None None [] [] true [] []) []); (Elem (mkAttrs KSpan None None None None [] [] true [] []) [(Elem (mkAttrs KText None None None None [] [] false [] [98]) [])])])])])) [] 15 32 1080 1920 None None []).

(* a --&gt; b *)
Definition w_arrow : doc := (mkDoc [(Elem (mkAttrs KRegion (Some [114;48]) None None None [] [] false [] []) [])] (Some (Elem (mkAttrs KBody None None None None [] [] false [] []) [(Elem (mkAttrs KDiv None None None (Some [114;48]) [] [] false [] []) [(Elem (mkAttrs KP None (Some (Qmake 1 1)) (Some (Qmake 2 1)) None [] [] false [] []) [(Elem (mkAttrs KSpan None None None None [] [] false [] []) [(Elem (mkAttrs KText None None None None [] [] false [] [97;32;45;45;62;32;98]) [])])])])])) [] 15 32 1080 1920 None None []).


(* writers-skip-ruby: C06_text_total_partial_srt without its trigger hypothesis *)
Theorem C06_text_total_srt_refuted : exists d seq cs,
  isd_sequence d = Ok seq /\ seq_shape seq = true /\ srt_cues true seq = Ok cs /\ visc (flat_map cue_chars cs) <> visc (seq_text seq).
Proof.
  exists w_ruby. eexists. eexists. split; [vm_compute; reflexivity|]. split; [vm_compute; reflexivity|].
  split; [vm_compute; reflexivity|]. vm_compute. discriminate.
Qed.
Theorem C06_ruby_trigger_fires : exists seq, isd_sequence w_ruby = Ok seq /\ trig_ruby seq = true /\ trig_lost_srt seq = true.
Proof. eexists. split; [vm_compute; reflexivity|]. split; vm_compute; reflexivity. Qed.

(* vtt-nested-div-lost: C06_text_total_partial_vtt without its trigger hypothesis (the SubRip writer keeps the text) *)
Theorem C06_text_total_vtt_refuted : exists d seq cs css,
  isd_sequence d = Ok seq /\ seq_shape seq = true /\ vtt_cues (mkVttConfig false false true) seq = Ok (cs, css) /\
  visc (flat_map cue_chars cs) <> visc (seq_text seq) /\ trig_lost_srt seq = false /\ trig_nested_div (mkVttConfig false false true) seq = true.
Proof.
  exists w_nested. eexists. eexists. eexists. split; [vm_compute; reflexivity|]. split; [vm_compute; reflexivity|].
  split; [vm_compute; reflexivity|]. split; [vm_compute; discriminate|]. split; vm_compute; reflexivity.
Qed.

(* tags-only-cue: a cue is written over an interval for which the property prescribes none (nothing but a line break is visible) *)
Theorem C06_nonblank_refuted : exists d ts seq cs,
  sig d = Ok ts /\ isd_sequence d = Ok seq /\ srt_cues true seq = Ok cs /\ cue_spec false d ts = [] /\ cue_spec true d ts = [] /\
  cs <> [] /\ trig_tags_only cs = true.
Proof.
  exists w_tagsonly. eexists. eexists. eexists. split; [vm_compute; reflexivity|]. split; [vm_compute; reflexivity|].
  split; [vm_compute; reflexivity|]. split; [vm_compute; reflexivity|]. split; [vm_compute; reflexivity|]. split; [discriminate|]. vm_compute. reflexivity.
Qed.

(* no-cues-when-writer-raises: the property prescribes two cues, the writer returns nothing *)
Theorem C06_no_cues_refuted : exists d ts,
  sig d = Ok ts /\ length (cue_spec false d ts) = 2%nat /\ srt_from_model d true = Err errToString /\
  vtt_from_model d (mkVttConfig false false true) = Err errToString.
Proof. exists w_collapsed. eexists. split; [vm_compute; reflexivity|]. split; [vm_compute; reflexivity|]. split; vm_compute; reflexivity. Qed.

(* payload-not-recoverable: the cues a reader finds in the output are not the prescribed ones (here: the file does not even parse) *)
Theorem C06_payload_refuted : exists d1 d2 out1 out2,
  srt_from_model d1 true = Ok out1 /\ srt_parse out1 = None /\
  vtt_from_model d2 (mkVttConfig false false true) = Ok out2 /\ vtt_parse out2 = None.
Proof.
  exists w_blankline, w_arrow. eexists. eexists. split; [vm_compute; reflexivity|]. split; [vm_compute; reflexivity|].
  split; vm_compute; reflexivity.
Qed.

Print Assumptions C06_text_total_srt_refuted.  Print Assumptions C06_text_total_vtt_refuted.  Print Assumptions C06_nonblank_refuted.
Print Assumptions C06_no_cues_refuted.  Print Assumptions C06_payload_refuted.
