(* Recorded findings for C06 (findings_proposed/C06.txt): the full-strength statements are false of the faithful model.
   Witness documents are those of harness/witnesses_c06.py (re-run against the implementation on every check); every
   refutation is decided by vm_compute on the model.  If this file stops compiling a finding is stale (reported as such). *)
From TT Require Import Model.Doc Gen.StyleTables Model.Isd Model.SigTimes Model.TimeCode Model.IsdFilters Gen.CueTables Model.CueWriter.
From TT Require Import Model.CueTriggers Spec.IsdSpec Spec.CueSpec Proofs.C06.Filters Proofs.C06.Inline Proofs.C06.Loop Proofs.C06.Text.
Open Scope Z_scope.

(* <p begin="1s" end="2s">first</p> <p begin="3s" end="3.0003s">x</p> *)
Definition w_collapsed : doc := (mkDoc [(Elem (mkAttrs KRegion (Some [114;48]) None None None [] [] false [] []) [])] (Some (Elem (mkAttrs KBody None None None None [] [] false [] []) [(Elem (mkAttrs KDiv None None None (Some [114;48]) [] [] false [] []) [(Elem (mkAttrs KP None (Some (Qmake 1 1)) (Some (Qmake 2 1)) None [] [] false [] []) [(Elem (mkAttrs KSpan None None None None [] [] false [] []) [(Elem (mkAttrs KText None None None None [] [] false [] [102;105;114;115;116]) [])])]); (Elem (mkAttrs KP None (Some (Qmake 3 1)) (Some (Qmake 30003 10000)) None [] [] false [] []) [(Elem (mkAttrs KSpan None None None None [] [] false [] []) [(Elem (mkAttrs KText None None None None [] [] false [] [120]) [])])])])])) [] 15 32 1080 1920 None None []).

(* xml:space="preserve": a <br/> "  " <br/> b *)
Definition w_blankline : doc := (mkDoc [(Elem (mkAttrs KRegion (Some [114;48]) None None None [] [] false [] []) [])] (Some (Elem (mkAttrs KBody None None None None [] [] false [] []) [(Elem (mkAttrs KDiv None None None (Some [114;48]) [] [] false [] []) [(Elem (mkAttrs KP None (Some (Qmake 1 1)) (Some (Qmake 2 1)) None [] [] true [] []) [(Elem (mkAttrs KSpan None None None None [] [] true [] []) [(Elem (mkAttrs KText None None None None [] [] false [] [97]) [])]); (Elem (mkAttrs KBr None None None None [] [] true [] []) []); (Elem (mkAttrs KSpan None None None None [] [] true [] []) [(Elem (mkAttrs KText None None None None [] [] false [] [32;32]) [])]); (Elem (mkAttrs KBr None None None None [] [] true [] []) []); (Elem (mkAttrs KSpan None None None None [] [] true [] []) [(Elem (mkAttrs KText None None None None [] [] false [] [98]) [])])])])])) [] 15 32 1080 1920 None None []).

(* a --&gt; b *)
Definition w_arrow : doc := (mkDoc [(Elem (mkAttrs KRegion (Some [114;48]) None None None [] [] false [] []) [])] (Some (Elem (mkAttrs KBody None None None None [] [] false [] []) [(Elem (mkAttrs KDiv None None None (Some [114;48]) [] [] false [] []) [(Elem (mkAttrs KP None (Some (Qmake 1 1)) (Some (Qmake 2 1)) None [] [] false [] []) [(Elem (mkAttrs KSpan None None None None [] [] false [] []) [(Elem (mkAttrs KText None None None None [] [] false [] [97;32;45;45;62;32;98]) [])])])])])) [] 15 32 1080 1920 None None []).


(* no-cues-when-writer-raises: the property prescribes two cues, the writer returns nothing *)
Theorem C06_no_cues_refuted : exists d ts,
  sig d = Ok ts /\ length (cue_spec false d ts) = 2%nat /\ srt_from_model d true = Err errToString /\
  vtt_from_model d (mkVttConfig false false true) = Err errToString.
Proof. exists w_collapsed. eexists. split; [vm_compute; reflexivity|]. split; [vm_compute; reflexivity|]. split; vm_compute; reflexivity. Qed.

(* payload-not-recoverable: the cues a reader finds in the output are not the prescribed ones (here: the file does not even parse) *)
Theorem C06_payload_refuted : exists d1 d2 out1 out2,
  srt_from_model d1 true = Ok out1 /\ srt_parse out1 = None /\
  vtt_from_model d2 (mkVttConfig false false true) = Ok out2 /\ vtt_parse out2 = None.
Proof.
  exists w_blankline, w_arrow. eexists. eexists. split; [vm_compute; reflexivity|]. split; [vm_compute; reflexivity|].
  split; vm_compute; reflexivity.
Qed.

Print Assumptions C06_no_cues_refuted.  Print Assumptions C06_payload_refuted.
