(* Recorded finding for C14 (id ruby-base-emptied-by-region): with the significant-times cache, a ruby base (rb, or an
   rb inside rbc) that has no region of its own and whose children all belong to OTHER regions than the one being
   rendered is kept childless by _clone_doc_with_one_region and then pruned by the region test of
   ISD._process_element ("no children and not associated with the selected region"); without the cache the same element
   has children, passes the test, loses them one by one and is kept (Rb/Rbc are always kept).  Consequences:
     (1) <ruby><rb><span region=r2/></rb><rt><span region=r1/><span region=r2/></rt></ruby>: ISD.from_model(doc, t)
         returns a snapshot, ISD.from_model(doc, t, sig_times) raises ValueError (Ruby.push_children);
     (2) the same inside <rbc>/<rtc>: both return a snapshot, region r1 of the cached one lacks the (empty) <rb>.
   Model/CloneTrigger.v `clone_empties_doc` is the executable trigger; the `_partial` theorems of Properties/C14.v hold
   for every document on which it does not fire.  If this file stops compiling the finding is stale. *)
From TT Require Import Model.Doc Gen.StyleTables Model.Isd Model.SigTimes Model.CloneTrigger Model.IsdCases Spec.RenderSpec Spec.DocWf.
Open Scope Z_scope.

Definition w_at (k : kind) (reg : option text) : attrs := mkAttrs k None None None reg [] [] false [] [].
Definition w_text (s : text) : elem := Elem (mkAttrs KText None None None None [] [] false [] s) [].
Definition w_span (reg : text) (s : text) : elem := Elem (w_at KSpan (Some reg)) [w_text s].
Definition w_r1 : text := [114; 49].
Definition w_r2 : text := [114; 50].
Definition w_region (rid : text) : elem := Elem (mkAttrs KRegion (Some rid) None None None [] [] false [] []) [].
Definition w_rb : elem := Elem (w_at KRb None) [w_span w_r2 [98]].
Definition w_rt : elem := Elem (w_at KRt None) [w_span w_r1 [97]; w_span w_r2 [97]].
Definition w_doc (ruby_children : list elem) : doc :=
  mkDoc [w_region w_r1; w_region w_r2]
        (Some (Elem (w_at KBody None) [Elem (w_at KDiv None) [Elem (w_at KP None) [Elem (w_at KRuby None) ruby_children]]]))
        [] 15 32 1080 1920 None None [].
Definition c14_witness1 : doc := w_doc [w_rb; w_rt].
Definition c14_witness2 : doc := w_doc [Elem (w_at KRbc None) [w_rb]; Elem (w_at KRtc None) [w_rt]].

(* (1) the cached path raises where the uncached path returns a snapshot *)
Theorem C14_cached_raises_refuted :
  exists d t ds rs c, doc_wf d = true /\ clone_empties_doc d = true /\ cached_docs d = Ok ds /\ isd d t = Ok rs /\ isd_cached d t = Err c.
Proof.
  exists c14_witness1, 0%Q. eexists. eexists. eexists.
  split; [vm_compute; reflexivity|]. split; [vm_compute; reflexivity|]. split; [vm_compute; reflexivity|].
  split; vm_compute; reflexivity.
Qed.

(* (2) both return a snapshot; they differ inside a region that paints *)
Theorem C14_cached_render_refuted :
  exists d t rs rs', doc_wf d = true /\ clone_empties_doc d = true /\ isd d t = Ok rs /\ isd_cached d t = Ok rs' /\
                     isd_close (render rs') (render rs) = false.
Proof.
  exists c14_witness2, 0%Q. eexists. eexists.
  split; [vm_compute; reflexivity|]. split; [vm_compute; reflexivity|]. split; [vm_compute; reflexivity|].
  split; vm_compute; reflexivity.
Qed.
Print Assumptions C14_cached_raises_refuted.  Print Assumptions C14_cached_render_refuted.
