(* Recorded findings for C11 (findings_proposed/C11.txt).  Each theorem exhibits a grammatical WebVTT file on
   which the faithful model of ttconv.vtt.reader contradicts S: `judge f (print_file f) (to_model (print_file f))`
   lists the failed clause (2 exception, 20 region, 30 styled/timed text runs) together with the finding whose
   trigger covers the cue.  The check re-runs the same inputs against the real code (harness/witnesses_c11.py).
   If this file stops compiling a finding is stale, which the check reports as such (it is not a violation). *)
From Coq Require Import QArith.
From TT Require Import Base.Prelude Model.VttTokenizer Model.VttReader Spec.VttSpec Model.VttCases.
From TT Require Import Proofs.C11.Region.
Local Open Scope Z_scope.

Definition contradicts (f : vfile) (clause finding : Z) : Prop :=
  In (clause, finding) (judge f (print_file f) (to_model (print_file f))).
Ltac witness := unfold contradicts; vm_compute; auto 10.

(* WEBVTT / 00:01.000 --> 00:02.000 size:100% / x : region x = 2.5, width = 100 *)
Definition w_region_not_clamped : vfile :=
  mkFile [] [BCue (mkCue None (mkTs None 0 1 0) (mkTs None 0 2 0) [SetSize 100] [CText [120]])].
Theorem C11_region_not_clamped_refuted : contradicts w_region_not_clamped 20 1.
Proof. witness. Qed.

(* … line:-1 : origin y = 104.3 %, height = -4.3 % *)
Definition w_line_number_nonpositive : vfile :=
  mkFile [] [BCue (mkCue None (mkTs None 0 1 0) (mkTs None 0 2 0) [SetLine (LineNum (-1)) None] [CText [120]])].
Theorem C11_line_number_nonpositive_refuted : contradicts w_line_number_nonpositive 20 2.
Proof. witness. Qed.

(* … vertical:lr line:30%,center : origin x = 30 - 91.3/2 < 0 (extent_height used for origin_x) *)
Definition w_vertical_line_center : vfile :=
  mkFile [] [BCue (mkCue None (mkTs None 0 1 0) (mkTs None 0 2 0) [SetVertical VLr; SetLine (LinePct 30) (Some LaCenter)] [CText [120]])].
Theorem C11_vertical_line_center_refuted : contradicts w_vertical_line_center 20 3.
Proof. witness. Qed.

(* the unconditional containment statement is false: *)
Theorem C11_region_inside_refuted : exists cs, ~ inside_root (compute_region cs).
Proof.
  exists [[115;105;122;101;58;49;48;48;37]].      (* size:100% *)
  intros H. apply inside_root_b_spec in H. vm_compute in H. discriminate.
Qed.

(* <v Tom &amp; Jerry>hello</v> : the text shown is "v& Jerry>hello" (annot_cref is an alias of data_cref) *)
Definition w_annotation_charref : vfile :=
  mkFile [] [BCue (mkCue None (mkTs None 0 1 0) (mkTs None 0 2 0) []
                         [CTag (TgV [84;111;109;32;38;32;74;101;114;114;121]) [CText [104;101;108;108;111]]])].
Theorem C11_annotation_charref_refuted : contradicts w_annotation_charref 30 4.
Proof. witness. Qed.
Theorem C11_annotation_charref_tokens :
  tokenize [60;118;32;84;111;109;32;38;97;109;112;59;32;74;101;114;114;121;62;104;105] =
  [TString [118;38;32;74;101;114;114;121;62;104;105]].
Proof. vm_compute. reflexivity. Qed.

(* cue 10 s - 20 s, <00:12.000>a<00:15.000>b : "b" is placed at 10 + 2 + 13 = 25 s instead of 15 s *)
Definition w_timestamp_span_nesting : vfile :=
  mkFile [] [BCue (mkCue None (mkTs None 0 10 0) (mkTs None 0 20 0) []
                         [CTs (mkTs None 0 12 0); CText [97]; CTs (mkTs None 0 15 0); CText [98]])].
Theorem C11_timestamp_span_nesting_refuted : contradicts w_timestamp_span_nesting 30 5.
Proof. witness. Qed.
(* <b>a<00:12.000>b</b>c : </b> closes the timestamp span, "c" stays bold *)
Definition w_timestamp_swallows_end_tag : vfile :=
  mkFile [] [BCue (mkCue None (mkTs None 0 10 0) (mkTs None 0 20 0) []
                         [CTag TgB [CText [97]; CTs (mkTs None 0 12 0); CText [98]]; CText [99]])].
Theorem C11_timestamp_swallows_end_tag_refuted : contradicts w_timestamp_swallows_end_tag 30 5.
Proof. witness. Qed.

(* a&lrm;b : html.unescape is applied to "&lrm" without the semicolon, only the legacy names decode: "a&lrmb" *)
Definition w_charref_legacy_names_only : vfile :=
  mkFile [] [BCue (mkCue None (mkTs None 0 1 0) (mkTs None 0 2 0) [] [CText [97]; CRef (RefNamed [108;114;109]); CText [98]])].
Theorem C11_charref_legacy_names_only_refuted : contradicts w_charref_legacy_names_only 30 6.
Proof. witness. Qed.

(* <b><ruby>a<rt>b</rt></ruby></b> : TypeError (Span.push_child(Ruby)) *)
Definition w_ruby_structure : vfile :=
  mkFile [] [BCue (mkCue None (mkTs None 0 1 0) (mkTs None 0 2 0) [] [CTag TgB [CRuby [([CText [97]], [CText [98]])]]])].
Theorem C11_ruby_structure_refuted : contradicts w_ruby_structure 2 7.
Proof. witness. Qed.

(* robustness outside the grammar: <rt> outside <ruby> raises AttributeError *)
Theorem C11_rt_outside_ruby_refuted :
  to_model [87;69;66;86;84;84;10;10;48;48;58;48;49;46;48;48;48;32;45;45;62;32;48;48;58;48;50;46;48;48;48;10;60;114;116;62;120;10]
  = Raised ExAttribute.
Proof. vm_compute. reflexivity. Qed.

Print Assumptions C11_region_not_clamped_refuted.
Print Assumptions C11_region_inside_refuted.
Print Assumptions C11_timestamp_span_nesting_refuted.
