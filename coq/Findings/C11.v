(* Recorded findings for C11 (findings_proposed/C11.txt).  Each theorem exhibits a grammatical WebVTT file on
   which the faithful model of ttconv.vtt.reader contradicts S: `judge f (print_file f) (to_model (print_file f))`
   lists the failed clause (2 exception, 20 region, 30 styled/timed text runs) together with the finding whose
   trigger covers the cue.  One finding is left (7 ruby-structure); the others were repaired in the code and their
   refuted theorems deleted (they no longer hold of the model); since 2ddde69 unmatched end tags and an omitted last </rt> are read as WebVTT says (Properties C11_example_unmatched_judged).  The check re-runs the same inputs against the real code (harness/witnesses_c11.py).
   If this file stops compiling a finding is stale, which the check reports as such (it is not a violation). *)
From Coq Require Import QArith.
From TT Require Import Base.Prelude Model.VttTokenizer Model.VttReader Spec.VttSpec Model.VttCases.
Local Open Scope Z_scope.

Definition contradicts (f : vfile) (clause finding : Z) : Prop :=
  In (clause, finding) (judge f (print_file f) (to_model (print_file f))).
Ltac witness := unfold contradicts; vm_compute; auto 10.

(* <b><ruby>a<rt>b</rt></ruby></b> : TypeError (Span.push_child(Ruby)) *)
Definition w_ruby_structure : vfile :=
  mkFile [] [BCue (mkCue None (mkTs None 0 1 0) (mkTs None 0 2 0) [] [CTag TgB [CRuby [([CText [97]], [CText [98]])]]])].
Theorem C11_ruby_structure_refuted : contradicts w_ruby_structure 2 7.
Proof. witness. Qed.

(* a timestamp inside a ruby base splits the base into two Rb elements; Rbc/Rtc then pair "a" with the ruby text and
   leave "b" behind it: the runs come out as a, rt, b instead of a, b, rt *)
Definition w_ruby_base_timestamp : vfile :=
  mkFile [] [BCue (mkCue None (mkTs None 0 1 0) (mkTs None 0 9 0) []
                         [CRuby [([CText [97]; CTs (mkTs None 0 2 0); CText [98]], [CText [99]])]])].
Theorem C11_ruby_base_timestamp_refuted : contradicts w_ruby_base_timestamp 30 7.
Proof. witness. Qed.

(* an ignored end tag inside a ruby base does the same: <ruby>a</x>b<rt>c</rt></ruby> reads as a, c, b (WebVTT ignores
   </x>, the base is "ab") *)
Definition w_ruby_base_end_tag : vfile :=
  mkFile [] [BCue (mkCue None (mkTs None 0 1 0) (mkTs None 0 9 0) []
                         [CRuby [([CText [97]; CEnd [120]; CText [98]], [CText [99]])]])].
Theorem C11_ruby_base_end_tag_refuted : contradicts w_ruby_base_end_tag 30 7.
Proof. witness. Qed.
Print Assumptions C11_ruby_structure_refuted.
Print Assumptions C11_ruby_base_end_tag_refuted.
Print Assumptions C11_ruby_base_timestamp_refuted.
