(* Recorded findings for C08 (findings_proposed/C08.txt; same ids as the witnesses of harness/witnesses_c08.py).
   Each theorem exhibits a stream on which the faithful model M (Model/SccReader.v, equal to the code on every
   generated stream) contradicts the reference decoder S at full strength (the standard, one window per
   display-changing word, rows + characters + attributes: `model_vs_S dev0 0 0`), and, where S can emulate the
   deviation, shows that admitting exactly the recorded deviation (or the coarser granularity / view it is
   delimited by) makes S accept the stream again.  If this file stops compiling a finding is stale, which the
   check reports as such (it is not a violation). *)
From Coq Require Import QArith String.
From TT Require Import Base.Prelude Base.SccTypes Base.SccDoc Model.SccWord Model.TimeCode Model.SccReader Model.SccReaderCases
                       Spec.Cea608Screen Proofs.C08.Stamps Proofs.C08.Words.
Open Scope Z_scope.

Ltac decide_stream := vm_compute; first [reflexivity | discriminate | (split; [discriminate|reflexivity])].

(* (a) the second copy of a doubled control code consumes no frame: the caption begins at T+5, its EOC is word 7 *)
Definition w_doubled : list string := [ln "00:00:10:00" "1420 1420 142e 142e 1470 1470 4142 142f 142f"].
Theorem C08_doubled_code_no_frame_refuted : model_vs_S dev0 0 0 w_doubled <> None /\ model_vs_S dev0 1 0 w_doubled = None.
Proof. decide_stream. Qed.
(* the same defect on the model alone: the second copy does not advance the line's time code *)
Theorem C08_doubled_frame_refuted : exists c w, c_err c = false /\ is_dup c w = false /\ ch1_code w = true /\
  c_tc (step (step c w) w) <> tc_next (c_tc (step c w)).
Proof. exists (ctx_init 0), 5152. vm_compute. repeat split; discriminate. Qed.

(* (c) roll-up / paint-on text is shown from the code that opened its paragraph *)
Definition w_late : list string := [ln "00:00:10:00" "1425 142d 1470 0000 0000 0000 0000 0000 0000 4142"].
Theorem C08_text_shown_from_paragraph_begin_refuted : model_vs_S dev0 0 0 w_late <> None /\ model_vs_S dev0 2 0 w_late = None.
Proof. decide_stream. Qed.

(* (d) roll-up base row forced to 15 *)
Definition w_base : list string := [ln "00:00:10:00" "1425 142d 1670 4142"].
Theorem C08_rollup_base_row_forced_15_refuted :
  model_vs_S dev0 2 0 w_base <> None /\ model_vs_S (mkDev true false false) 2 0 w_base = None.
Proof. decide_stream. Qed.

(* (e) paint-on paragraph attached to a region that starts above it *)
Definition w_above : list string := [ln "00:00:10:00" "1429 1750 4142"; ln "00:00:13:10" "142c"; ln "00:00:16:20" "1429 1350 4344"].
Theorem C08_region_above_attached_refuted : model_vs_S dev0 2 1 w_above <> None /\ model_vs_S dev0 2 2 w_above = None /\
  region_above (run_lines 0 (map text_of_string w_above)) = true.
Proof. vm_compute. split; [discriminate|split; reflexivity]. Qed.

(* paint-on PAC erases the row it addresses *)
Definition w_clears : list string := [ln "00:00:10:00" "1429 1550 4142 4344 4546 1556 5859"].
Theorem C08_painton_pac_clears_row_refuted :
  model_vs_S dev0 2 2 w_clears <> None /\ model_vs_S (mkDev false true false) 0 0 w_clears = None.
Proof. decide_stream. Qed.

(* characters written over a row take the attributes of the text element they land in *)
Definition w_over : list string := [ln "00:00:10:00" "1420 142e 1542 4142 4344 1550 5859 142f"].
Theorem C08_overwrite_keeps_element_style_refuted : model_vs_S dev0 2 0 w_over <> None /\ model_vs_S dev0 0 1 w_over = None.
Proof. decide_stream. Qed.

(* ... also without any overwriting: a PAC that puts the cursor directly behind the text of its row continues the text element,
   which keeps its colour (the indent PAC carries none) *)
Definition w_over2 : list string := [ln "00:00:10:00" "1420 142e 1542 4142 4344 1552 4546 142f"].
Theorem C08_overwrite_keeps_element_style_2_refuted : model_vs_S dev0 2 0 w_over2 <> None /\ model_vs_S dev0 0 1 w_over2 = None /\
  Z.land (triggers (slines_of w_over2)) tOVER <> 0.
Proof. vm_compute. split; [discriminate|split; [reflexivity|discriminate]]. Qed.

(* colour PAC on a row that already holds text further right: the characters are shuffled *)
Definition w_left : list string := [ln "00:00:10:00" "1420 142e 1554 4142 4344 1546 5758 595a 142f"].
Theorem C08_pac_left_of_row_content_refuted : model_vs_S dev0 2 2 w_left <> None /\ model_vs_S dev_all 2 2 w_left <> None.
Proof. vm_compute. split; discriminate. Qed.

(* roll-up text after EDM without PAC / RUx is put on row 0 and lost at the next CR *)
Definition w_row0 : list string :=
  [ln "00:00:10:00" "1425 142d 1470 4142"; ln "00:00:13:10" "142c"; ln "00:00:16:20" "142d 4344"; ln "00:00:20:00" "142d 1470 4546"].
Theorem C08_rollup_text_after_edm_row0_refuted : model_vs_S dev0 2 2 w_row0 <> None /\ model_vs_S dev_all 2 2 w_row0 <> None.
Proof. vm_compute. split; discriminate. Qed.

(* a carriage return in pop-on mode erases the displayed caption *)
Definition w_cr : list string := [ln "00:00:10:00" "1420 142e 1470 4142 142f"; ln "00:00:13:10" "142d"].
Theorem C08_cr_erases_non_rollup_caption_refuted :
  model_vs_S dev0 2 2 w_cr <> None /\ model_vs_S (mkDev false false true) 0 0 w_cr = None.
Proof. decide_stream. Qed.

(* the triggers of Spec/Cea608Screen.v fire on their witnesses *)
Theorem C08_triggers_fire :
  Z.land (triggers (slines_of w_doubled)) tDUP <> 0 /\
  Z.land (triggers (slines_of w_late)) tLATE <> 0 /\ Z.land (triggers (slines_of w_base)) tBASE <> 0 /\
  Z.land (triggers (slines_of w_clears)) tCLEAR <> 0 /\
  Z.land (triggers (slines_of w_over)) tOVER <> 0 /\ Z.land (triggers (slines_of w_left)) tNEGCUR <> 0 /\
  Z.land (triggers (slines_of w_row0)) tROW0 <> 0 /\
  Z.land (triggers (slines_of w_cr)) tCR <> 0.
Proof. vm_compute. repeat split; discriminate. Qed.

Print Assumptions C08_doubled_code_no_frame_refuted.  Print Assumptions C08_doubled_frame_refuted.
Print Assumptions C08_text_shown_from_paragraph_begin_refuted.  Print Assumptions C08_rollup_base_row_forced_15_refuted.
Print Assumptions C08_region_above_attached_refuted.
Print Assumptions C08_painton_pac_clears_row_refuted.
Print Assumptions C08_overwrite_keeps_element_style_refuted.  Print Assumptions C08_overwrite_keeps_element_style_2_refuted.
Print Assumptions C08_pac_left_of_row_content_refuted.
Print Assumptions C08_rollup_text_after_edm_row0_refuted.  Print Assumptions C08_cr_erases_non_rollup_caption_refuted.
Print Assumptions C08_triggers_fire.
