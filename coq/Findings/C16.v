(* Recorded findings for C16 (KNOWN_FINDINGS.txt): statements of the property that are false of the faithful
   model Model/Lcd.v, each with a minimal witness decided by vm_compute.  The matching `_partial` theorems (with the
   executable triggers of Model/LcdCases.v) are in Properties/C16.v.  If this file stops compiling a finding is stale. *)
From TT Require Import Proofs.C16.All.
Open Scope Z_scope.

Definition dflt : lcd_cfg := mkCfg 10 false None None.
Definition el (k : kind) (id : option text) (e : option Q) (r : option text) (st : smap) (cs : list elem) : elem :=
  Elem (mkAttrs k id None e r st [] false [] []) cs.
Definition r0 : text := [114; 48].  Definition r1 : text := [114; 49].
Definition hello : elem := Elem (mkAttrs KText None None None None [] [] false [] [104; 105]) [].
(* <body><div region=dr><p region=pr><span>hi</span></p></div></body> over the given regions *)
Definition two (regs : list elem) (dr pr : option text) (pst : smap) : doc :=
  mkDoc regs (Some (el KBody None None None [] [el KDiv None None dr [] [el KP (Some [112]) None pr pst [el KSpan None None None [] [hello]]]]))
        [] 15 32 1080 1920 None None [].
Definition pc (z : Z) : len := mkLen (inject_Z z) Upct.

(* lcd-nested-region-conflict: <div region=r0><p region=r1>: nothing visible before, the text visible after *)
Theorem C16_timeline_refuted_nested : exists c d d' t,
  lcd c d = Ok d' /\ no_hiding_b d = true /\ visible d t = [] /\ visible d' t <> [].
Proof.
  exists dflt, (two [el KRegion (Some r0) None None [] []; el KRegion (Some r1) None None [] []] (Some r0) (Some r1) []). eexists. exists 0%Q.
  split; [vm_compute; reflexivity|]. split; [vm_compute; reflexivity|].
  split; [vm_compute; reflexivity | vm_compute; discriminate].
Qed.
(* observation (not a clause of the property): the writing mode never reaches the fingerprint, because the style
   clean-up removes tts:writingMode from the region and from the initial values before it is read — a vertical and a
   horizontal region with equal timing are merged, and the tblr / tbrl branches of the displayAlign rule are dead *)
Theorem C16_writing_mode_ignored : exists c d d',
  lcd c d = Ok d' /\ Z.of_nat (length (d_regions d)) = 2 /\ Z.of_nat (length (d_regions d')) = 1.
Proof.
  exists dflt, (two [el KRegion (Some r0) None None [(p_WritingMode, VEnum e_WritingModeType_tbrl)] []; el KRegion (Some r1) None None [] []] (Some r1) None []). eexists.
  split; [vm_compute; reflexivity|]. split; reflexivity.
Qed.

Print Assumptions C16_timeline_refuted_nested.  Print Assumptions C16_writing_mode_ignored.
