(* Recorded findings for C15 (findings_proposed/C15.txt): for each finding k a reachable well-formed
   state and a call whose trigger is k after which the faithful model (which equals the code on
   these histories, see harness/witnesses_c15.py) is not well formed.  If this file stops compiling a
   finding is stale, which the check reports as such (it is not a violation). *)
From Coq Require Import List Arith Bool Lia.
From TT Require Import Proofs.C15.All.
Import ListNotations.

Definition refutes (k : nat) (elems : list (kind * option nat * option nat)) (pre : list call) (c : call) : Prop :=
  let h := run (init elems 1) pre in
  admissible (init elems 1) pre = true /\ WF h /\ trigger h c = Some k /\ ~ WF (fst (step h c)).

Ltac pre_ok := split; [vm_compute; reflexivity|split; [apply wf_b_sound; vm_compute; reflexivity|split; [vm_compute; reflexivity|]]].
(* element i references region r, which is not the one registered under its id *)
Ltac bad_region i r :=
  intros (_ & _ & _ & _ & (W1 & _) & _);
  destruct (W1 i r ltac:(vm_compute; lia) eq_refl) as [_ (d & id & E1 & E2 & E3)];
  vm_compute in E1; vm_compute in E2; injection E1 as <-; injection E2 as <-; vm_compute in E3; discriminate E3.
Ltac bad_doc c p :=
  intros (_ & _ & W & _); specialize (W c p ltac:(vm_compute; lia) eq_refl); vm_compute in W; discriminate W.
Ltac bad_content p cs :=
  intros (_ & _ & _ & W & _);
  match type of W with WF_content ?h =>
    assert (C : Children h p cs) by (apply children_b_sound; vm_compute; reflexivity);
    specialize (W p cs ltac:(vm_compute; lia) C); vm_compute in W; discriminate W
  end.

Definition r1 := Some 1.
Theorem C15_put_region_replace_refuted :
  refutes 1 [(KRegion, Some 0, r1); (KRegion, Some 0, r1); (KP, Some 0, None)]
          [CPutRegion 0 0; CSetRegion 2 (Some 0)] (CPutRegion 0 1).
Proof. pre_ok. bad_region 2 0. Qed.
Theorem C15_remove_region_outside_body_refuted :
  refutes 2 [(KRegion, Some 0, r1); (KP, Some 0, None)] [CPutRegion 0 0; CSetRegion 1 (Some 0)] (CRemoveRegion 0 1).
Proof. pre_ok. bad_region 1 0. Qed.
Theorem C15_set_region_by_id_refuted :
  refutes 3 [(KRegion, Some 0, r1); (KRegion, Some 0, r1); (KP, Some 0, None)] [CPutRegion 0 0] (CSetRegion 2 (Some 1)).
Proof. pre_ok. bad_region 2 1. Qed.
Theorem C15_set_doc_none_half_applied_refuted :
  refutes 4 [(KP, Some 0, None); (KSpan, Some 0, None)] [CPushChild 0 1] (CSetDoc 0 None).
Proof. pre_ok. bad_doc 1 0. Qed.
Theorem C15_set_doc_on_child_refuted :
  refutes 5 [(KP, None, None); (KSpan, None, None)] [CPushChild 0 1] (CSetDoc 1 (Some 0)).
Proof. pre_ok. bad_doc 1 0. Qed.
Theorem C15_push_children_half_applied_refuted :
  refutes 6 [(KRuby, Some 0, None); (KRbc, Some 0, None); (KRtc, None, None)] [] (CPushChildren 0 [1; 2]).
Proof. pre_ok. bad_content 0 [1]. Qed.
Theorem C15_rtc_lone_rp_refuted :
  refutes 7 [(KRtc, Some 0, None); (KRp, Some 0, None)] [] (CPushChild 0 1).
Proof. pre_ok. bad_content 0 [1]. Qed.
Theorem C15_rtc_push_children_appends_refuted :
  refutes 8 [(KRtc, Some 0, None); (KRt, Some 0, None); (KRp, Some 0, None); (KRt, Some 0, None); (KRp, Some 0, None)]
          [CPushChild 0 1] (CPushChildren 0 [2; 3; 4]).
Proof. pre_ok. bad_content 0 [1; 2; 3; 4]. Qed.

(* finding 4 also breaks atomicity: the call is rejected and the state has changed *)
Theorem C15_atomic_refuted :
  exists h c e, WF h /\ single_element c = true /\ snd (step h c) = ORaised e /\ fst (step h c) <> h.
Proof.
  exists (run (init [(KP, Some 0, None); (KSpan, Some 0, None)] 1) [CPushChild 0 1]), (CSetDoc 0 None), ERuntime.
  split; [apply wf_b_sound; vm_compute; reflexivity|]. split; [reflexivity|]. split; [vm_compute; reflexivity|].
  vm_compute. discriminate.
Qed.

Print Assumptions C15_put_region_replace_refuted.
Print Assumptions C15_remove_region_outside_body_refuted.
Print Assumptions C15_set_region_by_id_refuted.
Print Assumptions C15_set_doc_none_half_applied_refuted.
Print Assumptions C15_set_doc_on_child_refuted.
Print Assumptions C15_push_children_half_applied_refuted.
Print Assumptions C15_rtc_lone_rp_refuted.
Print Assumptions C15_rtc_push_children_appends_refuted.
Print Assumptions C15_atomic_refuted.
