From TT Require Import Proofs.C15.All.
