(* Recorded findings for C15: none.  The eight call shapes that used to break well-formedness
   (put-region-replace, remove-region-outside-body, set-region-by-id, set-doc-none-half-applied,
   set-doc-on-child, push-children-half-applied, rtc-lone-rp, rtc-push-children-appends) were repaired in
   model.py (`fix:` commits); their `..._refuted` theorems are gone with them and the theorems of
   Properties/C15.v no longer exclude any call.  The witnesses stay in harness/witnesses_c15.py and must
   pass.  The former witness histories are replayed here on the model of the repaired code. *)
From Coq Require Import List Arith Bool Lia.
From TT Require Import Proofs.C15.All.
Import ListNotations.

Definition r1 := Some 1.
Definition stays_wf (elems : list (kind * option nat * option nat)) (calls : list call) : bool :=
  wf_b (run (init elems 1) calls) && rep_b (run (init elems 1) calls).
Example former_witnesses_now_well_formed :
  stays_wf [(KRegion, Some 0, r1); (KRegion, Some 0, r1); (KP, Some 0, None)] [CPutRegion 0 0; CSetRegion 2 (Some 0); CPutRegion 0 1] = true /\
  stays_wf [(KRegion, Some 0, r1); (KP, Some 0, None)] [CPutRegion 0 0; CSetRegion 1 (Some 0); CRemoveRegion 0 1] = true /\
  stays_wf [(KRegion, Some 0, r1); (KRegion, Some 0, r1); (KP, Some 0, None)] [CPutRegion 0 0; CSetRegion 2 (Some 1)] = true /\
  stays_wf [(KP, Some 0, None); (KSpan, Some 0, None)] [CPushChild 0 1; CSetDoc 0 None] = true /\
  stays_wf [(KP, None, None); (KSpan, None, None)] [CPushChild 0 1; CSetDoc 1 (Some 0)] = true /\
  stays_wf [(KRuby, Some 0, None); (KRbc, Some 0, None); (KRtc, None, None)] [CPushChildren 0 [1; 2]] = true /\
  stays_wf [(KRtc, Some 0, None); (KRp, Some 0, None)] [CPushChild 0 1] = true /\
  stays_wf [(KRtc, Some 0, None); (KRt, Some 0, None); (KRp, Some 0, None); (KRt, Some 0, None); (KRp, Some 0, None)]
           [CPushChild 0 1; CPushChildren 0 [2; 3; 4]] = true.
Proof. vm_compute. repeat split. Qed.
