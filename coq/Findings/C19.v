(* Recorded findings for C19 (findings_proposed/C19.txt), as they stand after the repairs of the boolean, safe_area, fps,
   colour, program_start_tc, max_row_count and font-family decoders.  The README acceptance table (Spec/CliSpec.v
   documented) is still false of the faithful model in two ways; each refutation names concrete (key, JSON value) pairs.
   If this file stops compiling a finding is stale, which the check reports as such (it is not a violation). *)
From Coq Require Import String.
From TT Require Import Base.Prelude Base.CliTypes Gen.CliUnicode Model.Cli Spec.CliSpec.

(* undocumented-values-accepted (what is left): log_level takes any logging level name, document_lang any
   string, scc_reader.text_align / "TCP" / "MNR" any letter case, program_start_tc any separators (drop-frame pattern with an
   unescaped dot), colours any letter case of a name and white space around rgb() components (both pinned by
   test_imsc_color_parser), font_stack any string with a family-like token *)
Theorem C19_config_accepts_lenient_refuted :
  Forall (fun kv => in_table (fst kv) (snd kv) = true /\ accepts (fst kv) (snd kv) = true /\ documented (fst kv) (snd kv) = false /\
                    trigger_lenient (fst kv) (snd kv) = true)
    [(KLogLevel, JStr (T "DEBUG")); (KDocumentLang, JStr (T "not a tag")); (KSccTextAlign, JStr (T "LEFT"));
     (KStartTc, JStr (T "tcp")); (KStartTc, JStr (T "10x00y00z00")); (KMaxRowCount, JStr (T "mnr"));
     (KColor, JStr (T "RED")); (KBgColor, JStr (T "rgb( 1 , 2 , 3 )")); (KFontStack, JStr (T "a,,b")); (KFontStack, JStr (T "'a"))].
Proof. repeat constructor. Qed.
(* ... and what the repairs closed: every one of the formerly accepted values is rejected now *)
Theorem C19_formerly_accepted_now_rejected :
  Forall (fun kv => accepts (fst kv) (snd kv) = false /\ documented (fst kv) (snd kv) = false /\ trigger (fst kv) (snd kv) = false)
    [(KTextFormatting, JStr (T "no")); (KCueId, JInt 0); (KProgressBar, JStr (T "false")); (KPreserveTextAlign, JArr [JInt 0]);
     (KSafeArea, JStr (T "10")); (KSafeArea, JFloat 107 10); (KSafeArea, JBool true); (KFps, JStr (T "-25/1")); (KFps, JStr (T "0/1"));
     (KFps, JStr (T " 25 / 1 ")); (KFps, JStr (T "2_5/1")); (KColor, JStr (T "rgb(300,0,0)")); (KBgColor, JStr (T "#FF0000zz"));
     (KColor, JStr (T "rgb(1,2,3)x")); (KStartTc, JStr (T "10:00:00:00xyz")); (KMaxRowCount, JBool true);
     (KLogLevel, JInt 10); (KLogLevel, JBool true)].
Proof. repeat constructor. Qed.

(* documented-values-rejected (what is left): digit strings longer than CPython's int() limit *)
Theorem C19_config_accepts_rejected_refuted :
  exists k v, documented k v = true /\ accepts k v = false /\ trigger_rejected k v = true.
Proof. exists KFps, (JStr (rep 48 4300 ++ T "25/1")). vm_compute. repeat split; reflexivity. Qed.
(* ... and the one-character font family is accepted now *)
Theorem C19_short_family_accepted : accepts KFontStack (JStr (T "a")) = true /\ accepts KFontStack (JStr (T "x, y")) = true.
Proof. split; reflexivity. Qed.

(* observation (not a separate finding): README does not say what an explicit null means outside the colours; for seven
   keys it is "not specified", for the true | false keys, safe_area and scc_reader.text_align it is an error like any
   other value of the wrong type: a ValueError *)
Theorem C19_null_handling :
  decode KSccTextAlign JNull = Raise EValue /\ decode KSafeArea JNull = Raise EValue /\
  decode KCueId JNull = Raise EValue /\ decode KFps JNull = Ok CNone /\ decode KColor JNull = Ok CNone /\
  decode KLogLevel JNull = Ok CNone /\ decode KDocumentLang JNull = Ok CNone /\ decode KStartTc JNull = Ok CNone.
Proof. repeat split; reflexivity. Qed.

Print Assumptions C19_config_accepts_lenient_refuted.
Print Assumptions C19_config_accepts_rejected_refuted.
