(* Recorded findings for C19 (findings_proposed/C19.txt), as they stand after the repairs of the boolean, safe_area, fps,
   colour, program_start_tc, max_row_count and font-family decoders.  The README acceptance table (Spec/CliSpec.v
   documented) is still false of the faithful model in two ways, and the way a value is rejected in a third; each
   refutation names concrete (key, JSON value) pairs.
   If this file stops compiling a finding is stale, which the check reports as such (it is not a violation). *)
From Coq Require Import String.
From TT Require Import Base.Prelude Base.CliTypes Gen.CliUnicode Model.Cli Spec.CliSpec.

(* undocumented-values-accepted (what is left): log_level takes any logging level name or integer, document_lang any
   string, scc_reader.text_align / "TCP" / "MNR" any letter case, program_start_tc any separators (drop-frame pattern with an
   unescaped dot), colours any letter case of a name and white space around rgb() components (both pinned by
   test_imsc_color_parser), font_stack any string with a family-like token *)
Theorem C19_config_accepts_lenient_refuted :
  Forall (fun kv => in_table (fst kv) (snd kv) = true /\ accepts (fst kv) (snd kv) = true /\ documented (fst kv) (snd kv) = false /\
                    trigger_lenient (fst kv) (snd kv) = true)
    [(KLogLevel, JInt 10); (KLogLevel, JStr (T "DEBUG")); (KDocumentLang, JStr (T "not a tag")); (KSccTextAlign, JStr (T "LEFT"));
     (KStartTc, JStr (T "tcp")); (KStartTc, JStr (T "10x00y00z00")); (KMaxRowCount, JStr (T "mnr"));
     (KColor, JStr (T "RED")); (KBgColor, JStr (T "rgb( 1 , 2 , 3 )")); (KFontStack, JStr (T "a,,b")); (KFontStack, JStr (T "'a"))].
Proof. repeat constructor. Qed.
(* ... and what the repairs closed: every one of the formerly accepted values is rejected now *)
Theorem C19_formerly_accepted_now_rejected :
  Forall (fun kv => accepts (fst kv) (snd kv) = false /\ documented (fst kv) (snd kv) = false /\ trigger (fst kv) (snd kv) = false)
    [(KTextFormatting, JStr (T "no")); (KCueId, JInt 0); (KProgressBar, JStr (T "false")); (KPreserveTextAlign, JArr [JInt 0]);
     (KSafeArea, JStr (T "10")); (KSafeArea, JFloat 107 10); (KSafeArea, JBool true); (KFps, JStr (T "-25/1")); (KFps, JStr (T "0/1"));
     (KFps, JStr (T " 25 / 1 ")); (KFps, JStr (T "2_5/1")); (KColor, JStr (T "rgb(300,0,0)")); (KBgColor, JStr (T "#FF0000zz"));
     (KColor, JStr (T "rgb(1,2,3)x")); (KStartTc, JStr (T "10:00:00:00xyz")); (KMaxRowCount, JBool true)].
Proof. repeat constructor. Qed.

(* documented-values-rejected (what is left): digit strings longer than CPython's int() limit *)
Theorem C19_config_accepts_rejected_refuted :
  exists k v, documented k v = true /\ accepts k v = false /\ trigger_rejected k v = true.
Proof. exists KFps, (JStr (rep 48 4300 ++ T "25/1")). vm_compute. repeat split; reflexivity. Qed.
(* ... and the one-character font family is accepted now *)
Theorem C19_short_family_accepted : accepts KFontStack (JStr (T "a")) = true /\ accepts KFontStack (JStr (T "x, y")) = true.
Proof. split; reflexivity. Qed.

(* rejection-not-a-value-error: three keys whose value is used before any decoder has looked at its type; the rejection is
   an AttributeError / TypeError from inside the library instead of the decoders' ValueError.  (stl_reader.program_start_tc
   and font_stack were two more until they were repaired: C19_example_rejections in Properties/C19.v.) *)
Theorem C19_config_rejection_is_value_error_refuted :
  Forall (fun kve => decode (fst (fst kve)) (snd (fst kve)) = Raise (snd kve) /\ snd kve <> EValue /\
                     trigger_escape (fst (fst kve)) (snd (fst kve)) = true)
    [(KSccTextAlign, JBool true, EAttribute); (KSccTextAlign, JInt 5, EAttribute); (KSccTextAlign, JArr [JStr (T "left")], EAttribute);
     (KSccTextAlign, JNull, EAttribute); (KDocumentLang, JInt 5, EType); (KDocumentLang, JBool true, EType);
     (KLogLevel, JFloat 5 2, EType); (KLogLevel, JArr [], EType); (KLogLevel, JObj [], EType)].
Proof. repeat constructor; discriminate. Qed.

(* observation (not a separate finding): README does not say what an explicit null means outside the colours; for five
   keys it is "not specified", for the true | false keys and safe_area it is now an error like any other non-boolean /
   non-integer, for scc_reader.text_align it is an uncaught AttributeError *)
Theorem C19_null_handling :
  decode KSccTextAlign JNull = Raise EAttribute /\ decode KSafeArea JNull = Raise EValue /\
  decode KCueId JNull = Raise EValue /\ decode KFps JNull = Ok CNone /\ decode KColor JNull = Ok CNone /\
  decode KLogLevel JNull = Ok CNone /\ decode KStartTc JNull = Ok CNone.
Proof. repeat split; reflexivity. Qed.

Print Assumptions C19_config_accepts_lenient_refuted.
Print Assumptions C19_config_accepts_rejected_refuted.
Print Assumptions C19_config_rejection_is_value_error_refuted.
