(* Recorded findings for C19 (findings_proposed/C19.txt).  The README acceptance table (Spec/CliSpec.v documented) is
   false of the faithful model in three ways; each refutation names a concrete (key, JSON value).  If this file stops
   compiling a finding is stale, which the check reports as such (it is not a violation). *)
From Coq Require Import String.
From TT Require Import Base.Prelude Base.CliTypes Gen.CliUnicode Model.Cli Spec.CliSpec.

(* bool-decoders-accept-anything: "no" is accepted for srt_writer.text_formatting and means true;
   null means false although the documented default is true *)
Theorem C19_config_accepts_bool_refuted :
  exists k v, v <> JNull /\ accepts k v = true /\ documented k v = false /\
              decode k v = Ok (CBool true) /\ decode k JNull = Ok (CBool false) /\ default_srt = true.
Proof. exists KTextFormatting, (JStr (T "no")). repeat split; try reflexivity. discriminate. Qed.

(* undocumented-values-accepted: lcd.safe_area "10" / 10.7 / true, fps "-25/1", color "rgb(300,0,0)" and "#FF0000zz",
   program_start_tc "10x00y00z00xyz" *)
Theorem C19_config_accepts_lenient_refuted :
  Forall (fun kv => accepts (fst kv) (snd kv) = true /\ documented (fst kv) (snd kv) = false)
    [(KSafeArea, JStr (T "10")); (KSafeArea, JFloat 107 10); (KSafeArea, JBool true); (KFps, JStr (T "-25/1")); (KFps, JStr (T "0/1"));
     (KColor, JStr (T "rgb(300,0,0)")); (KBgColor, JStr (T "#FF0000zz")); (KStartTc, JStr (T "10x00y00z00xyz"));
     (KMaxRowCount, JBool true); (KSccTextAlign, JStr (T "LEFT")); (KLogLevel, JInt 10); (KDocumentLang, JStr (T "not a tag"))].
Proof. repeat constructor. Qed.
Theorem C19_safe_area_coerced : decode KSafeArea (JFloat 107 10) = Ok (CInt 10) /\ decode KColor (JStr (T "rgb(300,0,0)")) = Ok (CColor 300 0 0 255).
Proof. split; reflexivity. Qed.

(* documented-values-rejected: a one-character font family *)
Theorem C19_config_accepts_rejected_refuted :
  exists k v, documented k v = true /\ accepts k v = false.
Proof. exists KFontStack, (JStr (T "a")). split; reflexivity. Qed.

(* observation (not a separate finding): README does not say what an explicit null means; for most keys it is
   "leave the default", for two it is an uncaught AttributeError / TypeError, for the bool keys it is false *)
Theorem C19_null_handling :
  decode KSccTextAlign JNull = Raise EAttribute /\ decode KSafeArea JNull = Raise EType /\
  decode KCueId JNull = Ok (CBool false) /\ decode KFps JNull = Ok CNone /\ decode KColor JNull = Ok CNone.
Proof. repeat split; reflexivity. Qed.

Print Assumptions C19_config_accepts_bool_refuted.
Print Assumptions C19_config_accepts_lenient_refuted.
Print Assumptions C19_config_accepts_rejected_refuted.
