(* Recorded findings for C07 (findings_proposed/C07.txt): the full-strength statements are false of the faithful model.
   Witness documents are those of harness/witnesses_c07.py (re-run against the implementation on every check); every
   refutation is decided by vm_compute on the model.  If this file stops compiling a finding is stale (reported as such). *)
From TT Require Import Model.Doc Gen.StyleTables Model.Isd Model.SigTimes Model.TimeCode Model.IsdFilters Gen.CueTables Model.CueWriter.
From TT Require Import Model.CueTriggers Model.CueCases Spec.IsdSpec Spec.CueSpec Spec.CueSettings.
Open Scope Z_scope.

(* <p begin="1s" end="2s">first</p> <p begin="3s" end="3.0003s">x</p> *)
Definition w_collapsed : doc := (mkDoc [(Elem (mkAttrs KRegion (Some [114;48]) None None None [] [] false [] []) [])] (Some (Elem (mkAttrs KBody None None None None [] [] false [] []) [(Elem (mkAttrs KDiv None None None (Some [114;48]) [] [] false [] []) [(Elem (mkAttrs KP None (Some (Qmake 1 1)) (Some (Qmake 2 1)) None [] [] false [] []) [(Elem (mkAttrs KSpan None None None None [] [] false [] []) [(Elem (mkAttrs KText None None None None [] [] false [] [102;105;114;115;116]) [])])]); (Elem (mkAttrs KP None (Some (Qmake 3 1)) (Some (Qmake 30003 10000)) None [] [] false [] []) [(Elem (mkAttrs KSpan None None None None [] [] false [] []) [(Elem (mkAttrs KText None None None None [] [] false [] [120]) [])])])])])) [] 15 32 1080 1920 None None []).

(* xml:space="preserve": a <br/> "  " <br/> b *)
Definition w_blankline : doc := (mkDoc [(Elem (mkAttrs KRegion (Some [114;48]) None None None [] [] false [] []) [])] (Some (Elem (mkAttrs KBody None None None None [] [] false [] []) [(Elem (mkAttrs KDiv None None None (Some [114;48]) [] [] false [] []) [(Elem (mkAttrs KP None (Some (Qmake 1 1)) (Some (Qmake 2 1)) None [] [] true [] []) [(Elem (mkAttrs KSpan None None None None [] [] true [] []) [(Elem (mkAttrs KText None None None None [] [] false [] [97]) [])]); (Elem (mkAttrs KBr None None None None [] [] true [] []) []); (Elem (mkAttrs KSpan None None None None [] [] true [] []) [(Elem (mkAttrs KText None None None None [] [] false [] [32;32]) [])]); (Elem (mkAttrs KBr None None None None [] [] true [] []) []); (Elem (mkAttrs KSpan None None None None [] [] true [] []) [(Elem (mkAttrs KText None None None None [] [] false [] [98]) [])])])])])) [] 15 32 1080 1920 None None []).

(* xml:space="preserve": a <br/> "\r\nb" *)
Definition w_crlf : doc := (mkDoc [(Elem (mkAttrs KRegion (Some [114;48]) None None None [] [] false [] []) [])] (Some (Elem (mkAttrs KBody None None None None [] [] false [] []) [(Elem (mkAttrs KDiv None None None (Some [114;48]) [] [] false [] []) [(Elem (mkAttrs KP None (Some (Qmake 1 1)) (Some (Qmake 2 1)) None [] [] true [] []) [(Elem (mkAttrs KSpan None None None None [] [] true [] []) [(Elem (mkAttrs KText None None None None [] [] false [] [97]) [])]); (Elem (mkAttrs KBr None None None None [] [] true [] []) []); (Elem (mkAttrs KSpan None None None None [] [] true [] []) [(Elem (mkAttrs KText None None None None [] [] false [] [13;10;98]) [])])])])])) [] 15 32 1080 1920 None None []).

(* a --&gt; b *)
Definition w_arrow : doc := (mkDoc [(Elem (mkAttrs KRegion (Some [114;48]) None None None [] [] false [] []) [])] (Some (Elem (mkAttrs KBody None None None None [] [] false [] []) [(Elem (mkAttrs KDiv None None None (Some [114;48]) [] [] false [] []) [(Elem (mkAttrs KP None (Some (Qmake 1 1)) (Some (Qmake 2 1)) None [] [] false [] []) [(Elem (mkAttrs KSpan None None None None [] [] false [] []) [(Elem (mkAttrs KText None None None None [] [] false [] [97;32;45;45;62;32;98]) [])])])])])) [] 15 32 1080 1920 None None []).

(* <span tts:fontWeight="bold">B<span tts:fontWeight="normal">n</span></span> *)
Definition w_reset : doc := (mkDoc [(Elem (mkAttrs KRegion (Some [114;48]) None None None [] [] false [] []) [])] (Some (Elem (mkAttrs KBody None (Some (Qmake 1 1)) (Some (Qmake 2 1)) None [] [] false [] []) [(Elem (mkAttrs KDiv None None None (Some [114;48]) [] [] false [] []) [(Elem (mkAttrs KP None None None None [] [] false [] []) [(Elem (mkAttrs KSpan None None None None [(11, (VEnum 1))] [] false [] []) [(Elem (mkAttrs KText None None None None [] [] false [] [66]) []); (Elem (mkAttrs KSpan None None None None [(11, (VEnum 0))] [] false [] []) [(Elem (mkAttrs KText None None None None [] [] false [] [110]) [])])])])])])) [] 15 32 1080 1920 None None []).


(* two paragraphs, both tts:textAlign="center", in one region *)
Definition w_align : doc := (mkDoc [(Elem (mkAttrs KRegion (Some [114;48]) None None None [] [] false [] []) [])] (Some (Elem (mkAttrs KBody None (Some (Qmake 1 1)) (Some (Qmake 2 1)) None [] [] false [] []) [(Elem (mkAttrs KDiv None None None (Some [114;48]) [] [] false [] []) [(Elem (mkAttrs KP None None None None [(26, (VEnum 0))] [] false [] []) [(Elem (mkAttrs KSpan None None None None [] [] false [] []) [(Elem (mkAttrs KText None None None None [] [] false [] [111;110;101]) [])])]); (Elem (mkAttrs KP None None None None [(26, (VEnum 0))] [] false [] []) [(Elem (mkAttrs KSpan None None None None [] [] false [] []) [(Elem (mkAttrs KText None None None None [] [] false [] [116;119;111]) [])])])])])) [] 15 32 1080 1920 None None []).

Definition lp : vtt_config := mkVttConfig true false true.
Definition dflt : vtt_config := mkVttConfig false false true.

(* collapsed-interval-valueerror: C07_total_partial_srt / _vtt without the trig_collapsed hypothesis *)
Theorem C07_total_collapsed_refuted : exists d seq cs,
  isd_sequence d = Ok seq /\ srt_cues true seq = Ok cs /\ trig_collapsed cs = true /\
  srt_of_seq true (Ok seq) = Err errToString /\ vtt_of_seq dflt (Ok seq) = Err errToString.
Proof.
  exists w_collapsed. eexists. eexists. split; [vm_compute; reflexivity|]. split; [vm_compute; reflexivity|].
  split; [vm_compute; reflexivity|]. split; vm_compute; reflexivity.
Qed.
(* arrow-in-payload *)
Theorem C07_wf_arrow_refuted : exists d o1 o2,
  srt_from_model d true = Ok o1 /\ srt_wf o1 = false /\ vtt_from_model d dflt = Ok o2 /\ vtt_wf o2 = false.
Proof. exists w_arrow. eexists. eexists. split; [vm_compute; reflexivity|]. split; [vm_compute; reflexivity|]. split; vm_compute; reflexivity. Qed.
(* blank-looking-line-in-payload: a line of preserved spaces (SubRip), LF CR LF (WebVTT and SubRip) *)
Theorem C07_wf_blank_line_refuted : exists d1 d2 o1 o2 o3,
  srt_from_model d1 true = Ok o1 /\ srt_wf o1 = false /\
  srt_from_model d2 true = Ok o2 /\ srt_wf o2 = false /\ vtt_from_model d2 dflt = Ok o3 /\ vtt_wf o3 = false.
Proof.
  exists w_blankline, w_crlf. eexists. eexists. eexists. split; [vm_compute; reflexivity|]. split; [vm_compute; reflexivity|].
  split; [vm_compute; reflexivity|]. split; [vm_compute; reflexivity|]. split; vm_compute; reflexivity.
Qed.
(* nested-span-resets-style: the character n is computed normal and written inside <b>...</b> *)
Theorem C07_runs_refuted : exists d seq o cs,
  isd_sequence d = Ok seq /\ srt_from_model d true = Ok o /\ srt_wf o = true /\ srt_parse o = Some cs /\
  runs_ok true false srt_cstyle srt_runs seq cs = false /\ trig_reset_style seq = true.
Proof.
  exists w_reset. eexists. eexists. eexists. split; [vm_compute; reflexivity|]. split; [vm_compute; reflexivity|].
  split; [vm_compute; reflexivity|]. split; [vm_compute; reflexivity|]. split; vm_compute; reflexivity.
Qed.

(* align-lost-when-paragraphs-merged: the output is well formed, its cue settings are not the prescribed ones *)
Theorem C07_cue_settings_refuted : exists d seq o cs,
  isd_sequence d = Ok seq /\ vtt_from_model d (mkVttConfig false true true) = Ok o /\ vtt_wf o = true /\ vtt_parse o = Some cs /\
  settings_ok false true seq cs = false /\ trig_align_lost (mkVttConfig false true true) seq = true.
Proof.
  exists w_align. eexists. eexists. eexists. split; [vm_compute; reflexivity|]. split; [vm_compute; reflexivity|].
  split; [vm_compute; reflexivity|]. split; [vm_compute; reflexivity|]. split; vm_compute; reflexivity.
Qed.

Print Assumptions C07_cue_settings_refuted.
Print Assumptions C07_total_collapsed_refuted.  Print Assumptions C07_wf_arrow_refuted.
Print Assumptions C07_wf_blank_line_refuted.  Print Assumptions C07_runs_refuted.
