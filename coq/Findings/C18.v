(* C18 — where the full statement "the guard never returns Internal" is false of the faithful models: witnesses
   (decided by vm_compute) for every recorded finding the guard models can express, each with its executable trigger
   firing.  The same inputs are in harness/witnesses_c18.py and are re-run against the real code on every check.
   After the repairs of the code one finding is left here: vtt-ruby-structure (the WebVTT cue-text cursor with <ruby>). *)
From TT Require Import Base.Prelude Model.Outcome Model.ReaderGuards.

(* ---- the WebVTT cue-text cursor ------------------------------------------------------------------------------- *)
(* finding vtt-ruby-structure.  On the code the check does not take "the cue has a <ruby> tag" as the trigger: it evaluates the exact
   model of the cue-text parser (C11's Model/VttReader.v parse_cue_text through Model/GuardCueCases.v cue_class) on the cue text and accepts
   only the exception class computed there (Properties/C18.v C18_vtt_cue_text_classes) *)
Theorem C18_vtt_cursor_refuted :
  vtt_cursor_run true [TStartSpan 0; TStartRuby 1] = Internal TypeErr                            (* <b><ruby> *)
  /\ vtt_cursor_run true [TStartRuby 0; TStartSpan 1] = Internal RuntimeErr                      (* <ruby><b> *)
  /\ vtt_cursor_run true [TStartRuby 0; TData 0; TStartRuby 0] = Internal RuntimeErr             (* nested ruby *)
  /\ vtt_cursor_run true [TStartRuby 0; TData 0; TStartRt 1; TData 1] = Internal TypeErr         (* line break inside <rt> *)
  /\ vtt_cursor_run true [TStartRuby 0; TData 1] = Internal RuntimeErr                           (* line break inside <ruby> *)
  /\ vtt_has_ruby [TStartSpan 0; TStartRuby 1] = true.
Proof. repeat split; reflexivity. Qed.

(* ---- SCC: the word-level function alone can fail internally ------------------------------------------------------ *)
(* SccWord.from_str("ab\f\f"): four characters, int(.., 16) strips the form feeds, bytes.fromhex skips them and returns one
   byte, data[1] raises IndexError.  Not reachable through scc/reader.py (Proofs/C18/Scc.v): splitlines removes form feeds. *)
Theorem C18_scc_word_refuted : scc_word_from_str [97; 98; 12; 12] = Internal IndexErr.
Proof. vm_compute. reflexivity. Qed.

(* ---- SRT: the variant without `subtitle_text = ""` (the code before repository commit 76afcc4) -------------------- *)
Theorem C18_srt_unbound_variant_refuted :
  srt_run_unbound [] [49;10;48;48;58;48;48;58;48;49;44;48;48;48;32;45;45;62;32;48;48;58;48;48;58;48;50;44;48;48;48;10;10]
  = Internal UnboundLocalErr.
Proof. vm_compute. reflexivity. Qed.

(* ---- repaired in the repository: the former witnesses now pass ------------------------------------------------------ *)
Fixpoint patch (off : nat) (v : list Z) (l : list Z) : list Z :=
  match off with
  | O => v ++ skipn (length v) l
  | S k => match l with [] => [] | x :: r => x :: patch k v r end
  end.
Definition gsi_blank : list Z := patch 3 [83;84;76;50;53;46;48;49] (repeat 32 1024).      (* spaces, DFC = STL25.01 *)
Definition tti (cs : Z) (sec : Z) : list Z :=                                             (* SGN 0, SN 1, EBN 0xFF, TCI 00:00:sec:00, TCO +1 s *)
  [0; 1; 0; 255; cs; 0; 0; sec; 0; 0; 0; sec + 1; 0; 20; 2; 0] ++ repeat 143 112.
Definition cfg0 := {| cfg_start := StartNone; cfg_rows := RowsNone |}.
Definition vtt_cue : text := [87;69;66;86;84;84;10;10;48;48;58;48;49;46;48;48;48;32;45;45;62;32;48;48;58;48;50;46;48;48;48].

(* commits 7ed55ac, 05a353c, 9e84fe8, 41b1329 *)
Theorem C18_repaired_witnesses_pass :
  vtt_run [] [] = OkDoc                                                                                   (* empty file *)
  /\ vtt_run [] (vtt_cue ++ [10]) = OkDoc                                                                 (* cue without payload *)
  /\ stl_run {| cfg_start := StartTCP; cfg_rows := RowsNone |} [] (gsi_blank ++ tti 0 5) = OkDoc          (* blank TCP *)
  /\ stl_run {| cfg_start := StartNone; cfg_rows := RowsMNR |} [] (gsi_blank ++ tti 0 30) = OkDoc.        (* blank MNR, subtitle at 30 s *)
Proof. repeat split; vm_compute; reflexivity. Qed.

(* commits 818e997 (srt-stray-end-tag), 15db449 (vtt-rt-outside-ruby), 8eaaab8, c08d0ef (stl-zero-block-count), 8f4f9e5
   (stl-cumulative-block-first) *)
Theorem C18_repaired_witnesses_pass_2 :
  srt_cursor_run true [EvData; EvEnd 0; EvData] = OkDoc                                                   (* a</b>c *)
  /\ srt_cursor_run false [EvEnd 0; EvData] = OkDoc                                                       (* </b>c, paragraph not attached *)
  /\ srt_cursor_run true [EvEnd 0; EvEnd 0; EvEnd 0; EvEnd 0] = OkDoc
  /\ srt_cursor_run true [EvStart 0 None; EvStart 1 None; EvEnd 0; EvData; EvEnd 1; EvEnd 0; EvEnd 0] = OkDoc   (* <b><i></b>x</i></b></b> *)
  /\ vtt_cursor_run true [TStartRt 0; TData 0] = OkDoc                                                    (* <rt>x *)
  /\ vtt_cursor_run true [TTimestamp; TData 0; TStartSpan 0; TTimestamp; TEnd 0; TData 0] = OkDoc         (* a timestamp tag opens nothing *)
  /\ stl_run cfg0 [] (patch 238 [48;48;48;48;48] gsi_blank ++ tti 0 5) = OkDoc                            (* TNB = "00000" *)
  /\ stl_run cfg0 [] (gsi_blank ++ tti 2 5) = OkDoc                                                       (* first subtitle block has CS = 2 *)
  /\ stl_run cfg0 [] (gsi_blank ++ tti 1 5 ++ tti 2 6) = OkDoc.
Proof. repeat split; vm_compute; reflexivity. Qed.

(* lab commits 654d3f5 (vtt-stray-end-tag), cb365b8 (vtt-percentage-overflow), 02aa1c0 (srt-font-color-without-value), 7e042d3
   (stl-zero-row-count) *)
Theorem C18_repaired_witnesses_pass_3 :
  vtt_cursor_run true [TData 0; TEnd 0; TData 0] = OkDoc                                                  (* a</b>c *)
  /\ vtt_cursor_run false [TEnd 0; TEnd 1; TEnd 0; TData 2] = OkDoc
  /\ vtt_cursor_run true [TStartSpan 0; TData 0; TEnd 1; TData 0; TEnd 0; TData 0] = OkDoc                (* <b>x</i>y</b>z *)
  /\ vtt_cursor_run true [TStartRuby 0; TData 0; TStartRt 1; TData 0; TEnd 0; TData 0; TStartRuby 0; TData 0; TStartRt 1; TData 0; TEnd 1; TEnd 0] = OkDoc
                                                                                                          (* <ruby>a<rt>b</ruby>c<ruby>d<rt>e</rt></ruby> *)
  /\ vtt_run [] (vtt_cue ++ [32;115;105;122;101;58] ++ repeat 57 400 ++ [37;10;120;10]) = OkDoc          (* size:999...9% with 400 nines *)
  /\ srt_cursor_run true [EvStart 0 (Some ColorNoValue); EvData] = OkDoc                                  (* <font color>x *)
  /\ stl_run {| cfg_start := StartNone; cfg_rows := RowsMNR |} [] (patch 253 [48; 48] gsi_blank ++ tti 0 5) = OkDoc     (* MNR = "00" *)
  /\ stl_run {| cfg_start := StartNone; cfg_rows := RowsInt 0 |} [] (gsi_blank ++ tti 0 5) = OkDoc
  /\ stl_run {| cfg_start := StartNone; cfg_rows := RowsInt (-3) |} [] (gsi_blank ++ tti 0 5) = OkDoc.
Proof. repeat split; vm_compute; reflexivity. Qed.
