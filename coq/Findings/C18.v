(* C18 — where the full statement "the guard never returns Internal" is false of the faithful models: witnesses
   (decided by vm_compute) for every recorded finding the guard models can express, each with its executable trigger
   firing.  The same inputs are in harness/witnesses_c18.py and are re-run against the real code on every check. *)
From TT Require Import Base.Prelude Model.Outcome Model.ReaderGuards.

(* ---- WebVTT line machine -------------------------------------------------------------------------------------- *)
(* finding vtt-percentage-overflow:  "... --> 00:02.000 size:999...9%\nx\n" with 400 nines *)
Definition w_vtt_overflow : text :=
  [87;69;66;86;84;84;10;10;48;48;58;48;49;46;48;48;48;32;45;45;62;32;48;48;58;48;50;46;48;48;48;32;115;105;122;101;58]
  ++ repeat 57 400 ++ [37;10;120;10].
Theorem C18_vtt_total_refuted_overflow :
  vtt_run [] w_vtt_overflow = Internal OverflowErr
  /\ vtt_any_overflow (map vtt_classify (readlines w_vtt_overflow)) = true.
Proof. repeat split; vm_compute; reflexivity. Qed.

(* ---- the cursors ---------------------------------------------------------------------------------------------- *)
(* finding srt-font-color-without-value: "<font color>x" *)
Theorem C18_srt_cursor_refuted_font :
  srt_cursor_run true [EvStart 0 (Some ColorNoValue); EvData] = Internal TypeErr
  /\ srt_font_novalue [EvStart 0 (Some ColorNoValue); EvData] = true.
Proof. split; reflexivity. Qed.

(* findings vtt-stray-end-tag, vtt-ruby-structure *)
Theorem C18_vtt_cursor_refuted :
  vtt_cursor_run true [TData 0; TEnd; TData 0] = Internal TypeErr                      (* a</b>c *)
  /\ vtt_cursor_run true [TStartSpan; TStartRuby] = Internal TypeErr                   (* <b><ruby> *)
  /\ vtt_cursor_run true [TStartRuby; TStartSpan] = Internal RuntimeErr                (* <ruby><b> *)
  /\ vtt_cursor_run true [TStartRuby; TData 0; TStartRuby] = Internal RuntimeErr       (* nested ruby *)
  /\ vtt_cursor_run true [TStartRuby; TData 0; TStartRt; TData 1] = Internal TypeErr   (* line break inside <rt> *)
  /\ vtt_stray_end [TData 0; TEnd; TData 0] = true
  /\ vtt_has_ruby [TStartSpan; TStartRuby] = true.
Proof. repeat split; reflexivity. Qed.

(* ---- SCC: the word-level function alone can fail internally ------------------------------------------------------ *)
(* SccWord.from_str("ab\f\f"): four characters, int(.., 16) strips the form feeds, bytes.fromhex skips them and returns one
   byte, data[1] raises IndexError.  Not reachable through scc/reader.py (Proofs/C18/Scc.v): splitlines removes form feeds. *)
Theorem C18_scc_word_refuted : scc_word_from_str [97; 98; 12; 12] = Internal IndexErr.
Proof. vm_compute. reflexivity. Qed.

(* ---- EBU STL ---------------------------------------------------------------------------------------------------- *)
Fixpoint patch (off : nat) (v : list Z) (l : list Z) : list Z :=
  match off with
  | O => v ++ skipn (length v) l
  | S k => match l with [] => [] | x :: r => x :: patch k v r end
  end.
Definition gsi_blank : list Z := patch 3 [83;84;76;50;53;46;48;49] (repeat 32 1024).      (* spaces, DFC = STL25.01 *)
Definition tti (cs : Z) (sec : Z) : list Z :=                                             (* SGN 0, SN 1, EBN 0xFF, TCI 00:00:sec:00, TCO +1 s *)
  [0; 1; 0; 255; cs; 0; 0; sec; 0; 0; 0; sec + 1; 0; 20; 2; 0] ++ repeat 143 112.
Definition cfg0 := {| cfg_start := StartNone; cfg_rows := RowsNone |}.

(* finding stl-zero-row-count: MNR = "00" *)
Theorem C18_stl_refuted_zero_rows :
  let cfg := {| cfg_start := StartNone; cfg_rows := RowsMNR |} in
  let file := patch 253 [48; 48] gsi_blank ++ tti 0 5 in
  stl_run cfg [] file = Internal ZeroDivisionErr /\ trig_zero_rows cfg (firstn 1024 file) = true.
Proof. split; vm_compute; reflexivity. Qed.

(* ---- SRT: the variant without `subtitle_text = ""` (the code before repository commit 76afcc4) -------------------- *)
Theorem C18_srt_unbound_variant_refuted :
  srt_run_unbound [] [49;10;48;48;58;48;48;58;48;49;44;48;48;48;32;45;45;62;32;48;48;58;48;48;58;48;50;44;48;48;48;10;10]
  = Internal UnboundLocalErr.
Proof. vm_compute. reflexivity. Qed.

(* ---- repaired in the repository (commits 7ed55ac, 05a353c, 9e84fe8, 41b1329; 818e997, 15db449, c08d0ef, 8f4f9e5): the
   former witnesses now pass ------------------------------------------------------------------------------------------ *)
Theorem C18_repaired_witnesses_pass :
  vtt_run [] [] = OkDoc                                                                                   (* empty file *)
  /\ vtt_run [] [87;69;66;86;84;84;10;10;48;48;58;48;49;46;48;48;48;32;45;45;62;32;48;48;58;48;50;46;48;48;48;10] = OkDoc   (* cue without payload *)
  /\ stl_run {| cfg_start := StartTCP; cfg_rows := RowsNone |} [] (gsi_blank ++ tti 0 5) = OkDoc          (* blank TCP *)
  /\ stl_run {| cfg_start := StartNone; cfg_rows := RowsMNR |} [] (gsi_blank ++ tti 0 30) = OkDoc         (* blank MNR, subtitle at 30 s *)
  /\ srt_cursor_run true [EvData; EvEnd 0; EvData] = OkDoc                                                (* a</b>c *)
  /\ srt_cursor_run false [EvEnd 0; EvData] = OkDoc                                                       (* </b>c, paragraph not attached *)
  /\ srt_cursor_run true [EvStart 0 None; EvStart 1 None; EvEnd 0; EvData; EvEnd 1; EvEnd 0; EvEnd 0] = OkDoc   (* <b><i></b>x</i></b></b> *)
  /\ vtt_cursor_run true [TStartRt; TData 0] = OkDoc                                                      (* <rt>x *)
  /\ vtt_cursor_run true [TTimestamp; TData 0; TEnd; TData 0] = Internal TypeErr                          (* a timestamp tag opens nothing: the end tag is stray *)
  /\ stl_run cfg0 [] (patch 238 [48;48;48;48;48] gsi_blank ++ tti 0 5) = OkDoc                            (* TNB = "00000" *)
  /\ stl_run cfg0 [] (gsi_blank ++ tti 2 5) = OkDoc                                                       (* first subtitle block has CS = 2 *)
  /\ stl_run cfg0 [] (gsi_blank ++ tti 1 5 ++ tti 2 6) = OkDoc.
Proof. repeat split; vm_compute; reflexivity. Qed.
