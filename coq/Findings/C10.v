(* Recorded findings for C10 (findings_proposed/C10.txt).  Each statement exhibits a grammar-conforming file on
   which the faithful model of srt/reader.py does not return the cues written; the witnesses are also run
   against the real code by harness/c10.py on every check.  If this file stops compiling a finding is stale,
   which the check reports as such (it is not a violation). *)
From TT Require Import Base.Prelude Base.SrtTypes Model.SrtReader Spec.SrtCueSpec Proofs.C10.Witness.

(* id=brace-short-tags : {b}x{/b} is read as literal text *)
Theorem C10_brace_short_refuted : exists f, wf_file f = true /\ trigger_brace_short f = true /\
  read_cues (print_file f) <> Ok (cues f) /\ read_cues_file (print_file f) <> Ok (cues f).
Proof. exact brace_short_refuted. Qed.
(* id=stray-end-tag : a</b>c raises TypeError; <b>x</i>y</b> ends bold at </i> *)
Theorem C10_stray_end_refuted : exists f, wf_file f = true /\ trigger_stray_end f = true /\
  read_cues (print_file f) = Raised ETypeError /\ read_cues_file (print_file f) = Raised ETypeError.
Proof. exact stray_end_refuted. Qed.
Theorem C10_mismatched_end_refuted : wf_file f_mismatch = true /\ trigger_stray_end f_mismatch = true /\
  read_cues (print_file f_mismatch) <> Ok (cues f_mismatch).
Proof. exact mismatched_end_refuted. Qed.
(* id=literal-backslash-n-backslash-r *)
Theorem C10_backslash_refuted : exists f, wf_file f = true /\ plain_file f = true /\ trigger_backslash f = true /\
  read_cues (print_file f) <> Ok (cues f) /\ read_cues_file (print_file f) <> Ok (cues f).
Proof. exact backslash_refuted. Qed.
(* id=crlf-kept-in-untranslated-stream : exact through a text-mode file, not through a stream that keeps CR LF *)
Theorem C10_crlf_untranslated_refuted : exists f, wf_file f = true /\ plain_file f = true /\ trigger_crlf_untranslated f false = true /\
  read_cues (print_file f) <> Ok (cues f) /\ read_cues_file (print_file f) = Ok (cues f).
Proof. exact crlf_untranslated_refuted. Qed.
Print Assumptions C10_brace_short_refuted.  Print Assumptions C10_stray_end_refuted.  Print Assumptions C10_mismatched_end_refuted.
Print Assumptions C10_backslash_refuted.  Print Assumptions C10_crlf_untranslated_refuted.
