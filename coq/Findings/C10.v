(* Recorded findings for C10 (findings_proposed/C10.txt).  Each statement exhibits an input on which the faithful
   model of srt/reader.py does not return the cues written; the witnesses are also run against the real code by
   harness/c10.py on every check.  If this file stops compiling a finding is stale, which the check reports as such
   (it is not a violation).
   The four findings recorded earlier (brace-short-tags, stray-end-tag, literal-backslash-n-backslash-r,
   crlf-kept-in-untranslated-stream) are repaired in the code: their refuted statements are gone and their witnesses
   are read as written (Properties/C10.v, C10_repaired_witnesses). *)
From TT Require Import Base.Prelude Base.SrtTypes Model.SrtReader Spec.SrtCueSpec Spec.SrtWriterOut Proofs.C10.Witness.

(* id=hours-beyond-999-rejected : a cue that ends at 1000 h or later is printed by the SRT writer with a four-digit
   hour field (1000:00:00,000); the reader's pattern [0-9]{2,3} does not accept it: "Missing timecode", None returned *)
Theorem C10_writer_hours_refuted : exists cs, wwf cs = true /\ trigger_hours_1000 cs = true /\
  read_cues (wprint cs) = RetNone /\ read_cues_file (wprint cs) = RetNone.
Proof. exact writer_hours_refuted. Qed.
Print Assumptions C10_writer_hours_refuted.
