From TT Require Import Base.Prelude Base.SrtTypes Model.SrtReader Spec.SrtCueSpec.
