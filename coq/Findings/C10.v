(* Recorded findings for C10 (findings_proposed/C10.txt): none.
   The five findings recorded earlier (brace-short-tags, stray-end-tag, literal-backslash-n-backslash-r,
   crlf-kept-in-untranslated-stream, hours-beyond-999-rejected) are repaired in the code: their refuted statements are
   gone and their witnesses are read as written (Properties/C10.v, C10_repaired_witnesses and C10_writer_hours_example;
   harness/witnesses_c10.py runs them against the code on every check).  This file is kept so that the build targets and
   the check's stale-finding test stay in place. *)
From TT Require Import Base.Prelude Base.SrtTypes Model.SrtReader Spec.SrtCueSpec Spec.SrtWriterOut Proofs.C10.Witness.
