(* Recorded findings for C09 (KNOWN_FINDINGS.txt).  One is left: df-23976 (it is C12's roundtrip-23976 in time_code.py,
   pinned by the tests).  tcp-attribute-error, mnr-sets-start-offset, sn-identity, cumulative-before-first,
   tf-strip-not-cut, iso6937-a4, comment-flag-ignored, blank-row-dropped, vp-zero-above-safe-area and tnb-zero-division
   were repaired and their refutations removed (their inputs are Examples of Properties/C09.v now).  Each theorem
   exhibits an input on which the faithful model of ttconv/stl (and, by the correspondence run, the code) departs from
   the specification; the matching trigger is in Model/StlTriggers.v and the `_partial` theorems in Properties/C09.v.
   If this file stops compiling a finding is stale, which the check reports as such (it is not a violation). *)
From Coq Require Import QArith.
From TT Require Import Base.Prelude Model.TimeCode Model.Iso6937 Model.StlTf Model.StlDatafile Model.StlTriggers.
From TT Require Import Spec.Smpte12M Spec.Ebu3264Spec.
From TT Require Import Proofs.C09.Tables Proofs.C09.TextField Proofs.C09.Times Proofs.C09.Datafile Proofs.C09.File.
Open Scope Z_scope.

(* df-23976: 00:01:00:00 at 24000/1001 is placed one frame early *)
Theorem C09_offset_23976_refuted : exists l, valid 24 0 l /\ ~ (offset_q r23976 l == time_of (mkFR 24000 1001 24 0) l)%Q.
Proof. exact offset23976_refuted. Qed.

(* ... and so is a whole file: the specification's domain contains a file (STL23.01, one subtitle at 00:01:00:00) whose
   document the reader returns does not match the presentation - C09_file_partial without its trigger hypothesis is false *)
Definition file_23976 : list Z :=
  put 3 [83; 84; 76; 50; 51; 46; 48; 49] witness_gsi ++
  [0; 1; 0; 255; 0; 0; 1; 0; 0; 0; 1; 1; 0; 20; 2; 0] ++ firstn 112 ([65] ++ repeat 143 112%nat).
Theorem C09_file_refuted : exists file cfg sc groups rows d,
  Forall is_byte file /\ spec_start (cf_start cfg) = Some sc /\
  presentation file sc (spec_rows (cf_rows cfg)) = Some (groups, rows) /\
  reader_model file cfg = Ok d /\ ~ doc_matches rows d groups.
Proof.
  exists file_23976, cfg0, StartNone.
  eexists. eexists. eexists. split; [|split; [reflexivity|split; [vm_compute; reflexivity|split; [vm_compute; reflexivity|]]]].
  - apply Forall_forall. intros b Hb.
    assert (H : forallb (fun b => (0 <=? b) && (b <? 256)) file_23976 = true) by (vm_compute; reflexivity).
    rewrite forallb_forall in H. specialize (H b Hb). unfold is_byte. lia.
  - unfold doc_matches. cbn [d_divs d_regions]. intros H.
    inversion H as [|? ? ? ? Hd _]; subst. inversion Hd as [|? ? ? ? Hp _]; subst.
    destruct Hp as (_ & Hparts & _). vm_compute in Hparts. discriminate Hparts.
Qed.

Print Assumptions C09_offset_23976_refuted.  Print Assumptions C09_file_refuted.
