(* Recorded findings for C09 (KNOWN_FINDINGS.txt; tcp-attribute-error, mnr-sets-start-offset and sn-identity were repaired
   upstream and their refutations removed).  Each theorem exhibits an input on which the faithful model
   of ttconv/stl (and, by the correspondence run, the code) departs from the specification; the matching trigger is in
   Model/StlTriggers.v and the `_partial` theorem in Properties/C09.v.  If this file stops compiling a finding is stale,
   which the check reports as such (it is not a violation). *)
From Coq Require Import QArith.
From TT Require Import Base.Prelude Model.TimeCode Model.Iso6937 Model.StlTf Model.StlDatafile Model.StlTriggers.
From TT Require Import Spec.Smpte12M Spec.Ebu3264Spec.
From TT Require Import Proofs.C09.Tables Proofs.C09.TextField Proofs.C09.Times Proofs.C09.Datafile.
Open Scope Z_scope.

(* iso6937-a4: byte 0xA4 is decoded to U+00A4 (which is 0xA8), the standard has the dollar sign *)
Theorem C09_iso6937_refuted : exists b, 0 <= b < 256 /\ decode6937 [b] = [164] /\ decode_iso6937 [b] = [36].
Proof. exists 164. split; [lia|]. split; vm_compute; reflexivity. Qed.

(* blank-row-dropped: A, empty row, B in single height is presented with one line break *)
Theorem C09_tf_refuted : exists bs, map piece_of_leaf (tf_model (fun x => x) true bs) <> tf_spec (fun x => x) true bs.
Proof. exact tf_blank_row_refuted. Qed.

(* tf-strip-not-cut: text after a leading unused-space byte is presented *)
Theorem C09_strip_refuted : exists tf, strip_8f tf <> text_of_field tf.
Proof. exact strip_is_cut_refuted. Qed.

(* df-23976: 00:01:00:00 at 24000/1001 is placed one frame early *)
Theorem C09_offset_23976_refuted : exists l, valid 24 0 l /\ ~ (offset_q r23976 l == time_of (mkFR 24000 1001 24 0) l)%Q.
Proof. exact offset23976_refuted. Qed.

(* vp-zero-above-safe-area *)
Theorem C09_region_vp_zero_refuted : exists rows tf r, region_for rows 0 tf false = Some r /\ ~ inside_safe_area (rect_of r).
Proof. exact region_vp_zero_refuted. Qed.

(* the remaining ones are about whole files: S presents subtitles, the reader raises (or presents something else) *)
Definition presents (file : list Z) (sc : start_cfg) (rc : rows_cfg) (n : nat) : Prop :=
  exists g rows, presentation file sc rc = Some (g, rows) /\ length (concat g) = n.

(* cumulative-before-first: an intermediate member of a cumulative set as the first block *)
Theorem C09_cumulative_first_refuted : exists file, reader_model file cfg0 = Err EAttribute.
Proof. exists (witness_gsi ++ witness_tti 0 1 2 20 2 0 [65]). vm_compute. reflexivity. Qed.

(* tnb-zero-division: TNB = 00000 *)
Theorem C09_tnb_refuted : exists file, presents file StartNone RowsDefault 1 /\ reader_model file cfg0 = Err EZeroDiv.
Proof.
  exists (put 238 [48; 48; 48; 48; 48] witness_gsi ++ witness_tti 0 1 2 20 0 0 [65]).
  split; [eexists; eexists; split; vm_compute; reflexivity | vm_compute; reflexivity].
Qed.

(* comment-flag-ignored: a block whose comment flag is set is presented *)
Theorem C09_comment_refuted : exists file, presents file StartNone RowsDefault 0 /\ paragraphs_of (reader_model file cfg0) = 1.
Proof.
  exists (witness_gsi ++ witness_tti 0 1 2 20 0 1 [65]).
  split; [eexists; eexists; split; vm_compute; reflexivity | vm_compute; reflexivity].
Qed.

Print Assumptions C09_iso6937_refuted.  Print Assumptions C09_tf_refuted.  Print Assumptions C09_strip_refuted.
Print Assumptions C09_offset_23976_refuted.  Print Assumptions C09_region_vp_zero_refuted.
Print Assumptions C09_cumulative_first_refuted.
Print Assumptions C09_tnb_refuted.  Print Assumptions C09_comment_refuted.
