From TT Require Import Base.Prelude.
