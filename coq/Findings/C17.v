(* Recorded finding for C17 (KNOWN_FINDINGS.txt id caret-turned-v): the extended character 0x13 0x2C is the
   circumflex "^" in CTA-608; the code decodes it to U+028C LATIN SMALL LETTER TURNED V (pinned by
   test_scc_extended_characters.py, hence recorded rather than repaired).  If this file stops compiling
   the finding is stale, which the check reports as such (it is not a violation). *)
From TT Require Import Base.Prelude Base.SccTypes Model.SccWord Spec.Cea608Words.
Theorem C17_decode_spec_refuted : exists w, 0 <= w < 65536 /\ spec_ok w (decode w) = false.
Proof. exists 4908. split; [lia|]. vm_compute. reflexivity. Qed.
Print Assumptions C17_decode_spec_refuted.
