(* Recorded findings for C04 (findings_proposed/C04.txt).  If this file stops compiling a finding is stale, which the
   check reports as such (it is not a violation).
   The findings that had a statement about the model here (seq-indefinite-sibling, zero-rate-division, tickrate-default,
   lax-value-syntax, style-invalid-value-abort) are repaired in the code: their refuted statements are gone and the unconditional
   theorems are in Properties/C04.v (C04_read_total, C04_rates_positive, C04_tick_rate, C04_time_reject, C04_bad_value_in_style_ignored).
   The one finding that remains, unknown-attribute-not-logged, is about log records, which are not modelled: the model reads an element
   with an attribute it does not know exactly as without it (below), the missing log record is observed by the check on the code.
   seq-region-break-hides-nested-style (a non-content child after a child with an indefinite end hid the nested styles of a seq region) is
   repaired as well: C04_noncontent_children_transparent is unconditional, Properties/C04.v C04_example_seq_region_nested_style shows the shape. *)
From TT Require Import Base.Prelude Base.ImscXml Model.ImscTime Model.ImscStyles Model.ImscTiming.
From Coq Require Import QArith.
Local Open Scope Z_scope.

Definition ev0 : env := mkEnv 1 (30 # 1) [] (fun _ _ => None) (fun _ _ => true) [].
Definition pc0 : pctx := mkPctx true (Some 0%Q) false [] true.

(* <p xml:base="x">a</p> is read as <p>a</p> (no outcome of the model tells that nothing was reported) *)
Theorem C04_unknown_attribute_same_result :
  process ev0 pc0 (X T_p [((NS_XML, [98; 97; 115; 101]), [120])] (Some [97]) None []) = process ev0 pc0 (X T_p [] (Some [97]) None []).
Proof. reflexivity. Qed.
Print Assumptions C04_unknown_attribute_same_result.
