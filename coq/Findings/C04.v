(* Recorded findings for C04 (findings_proposed/C04.txt).  If this file stops compiling a finding is stale, which the
   check reports as such (it is not a violation). *)
From TT Require Import Base.Prelude Base.ImscXml Model.ImscTime Model.ImscStyles Model.ImscTiming Model.ImscTriggers Spec.TtmlTimingSpec.
From TT Require Import Proofs.C04.TimeSyntax Proofs.C04.Interval Proofs.C04.Total.
From Coq Require Import QArith.
Local Open Scope Z_scope.

Definition ev0 : env := mkEnv 1 (30 # 1) [] (fun _ _ => None) (fun _ _ => true) [].
Definition pc0 : pctx := mkPctx true None 0 false [] true.

(* seq-indefinite-sibling: <div timeContainer="seq"><p>a</p><p>b</p></div> aborts the read (TypeError), although the
   TTML2 semantics give the div a (indefinite) interval; the trigger fires on it *)
Definition seq_witness : xml :=
  X T_div [(A_timeContainer, V_seq)] None None [X T_p [] (Some [97]) None []; X T_p [] (Some [98]) None []].
Theorem C04_read_total_refuted : exists ev x pc, rates_ok ev /\ pc_par pc = true /\ process ev pc x = PErr 1 /\
  trigger_seq (tv_of ev) false x = true.
Proof.
  exists ev0, seq_witness, pc0. split; [|split; [|split]].
  - split; [reflexivity|]. reflexivity.
  - reflexivity.
  - vm_compute. reflexivity.
  - vm_compute. reflexivity.
Qed.

(* zero-rate-division: ttp:frameRate="0" makes begin="10f" raise ZeroDivisionError *)
Theorem C04_zero_rate_refuted : exists x, process (mkEnv 1 0 [] (fun _ _ => None) (fun _ _ => true) []) pc0 x = PErr 2.
Proof. exists (X T_p [(A_begin, [49; 48; 102])] None None []). reflexivity. Qed.

(* tickrate-default: under ttp:frameRate="25" and no ttp:tickRate the reader uses 1 tick per second, TTML2 gives 25 *)
Theorem C04_tick_default_refuted : exists attrs, ~ (inject_Z (extract_tick_rate attrs) == spec_tick_rate attrs)%Q.
Proof. exists [(A_frameRate, [50; 53])]. intro H. vm_compute in H. discriminate. Qed.

(* lax-value-syntax: "10fx" is not a time expression and is read as 10 frames; "1s\n" likewise *)
Theorem C04_time_reject_refuted : exists s, ~ in_grammar s /\ parse_time (Some 1) (Some (25 # 1)) s <> None.
Proof.
  exists [49; 48; 102; 120]. split.
  - change [49; 48; 102; 120] with ([49; 48; 102] ++ [120]). apply not_in_grammar_last; [reflexivity|]. simpl. intuition discriminate.
  - vm_compute. discriminate.
Qed.
Theorem C04_time_reject_newline_refuted : exists s, ~ in_grammar s /\ parse_time (Some 1) (Some (25 # 1)) s <> None.
Proof.
  exists ([49; 115] ++ [10]). split.
  - apply not_in_grammar_last; [reflexivity|]. simpl. intuition discriminate.
  - vm_compute. discriminate.
Qed.

Print Assumptions C04_read_total_refuted.  Print Assumptions C04_zero_rate_refuted.  Print Assumptions C04_tick_default_refuted.
Print Assumptions C04_time_reject_refuted.  Print Assumptions C04_time_reject_newline_refuted.

(* style-invalid-value-abort: <style xml:id="s1" tts:extent="1em 1em"/> parses but is not a valid model value; referenced from a p
   it makes set_style raise ValueError outside any handler (outcome 5), while the same attribute inline is ignored *)
From TT Require Import Model.ImscWrite Model.ImscWriteCases Model.ImscCases Gen.ImscTables.
Definition extent_attr : qname * text := ((NS_TTS, [101; 120; 116; 101; 110; 116]), [49; 101; 109; 32; 49; 101; 109]).
Definition ev_style : env :=
  mkEnv 1 (30 # 1) [] (to_model_inst []) valid_inst
        [mkSty [115; 49] (collect (to_model_inst []) [extent_attr] []) []].
Theorem C04_style_abort_refuted :
  process ev_style pc0 (X T_p [(A_style, [115; 49])] (Some [97]) None []) = PErr 5 /\
  match process ev_style pc0 (X T_p [extent_attr] (Some [97]) None []) with POk _ => True | _ => False end.
Proof. split; vm_compute; [reflexivity|exact I]. Qed.
Print Assumptions C04_style_abort_refuted.
