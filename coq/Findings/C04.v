(* Recorded findings for C04 (findings_proposed/C04.txt).  If this file stops compiling a finding is stale, which the
   check reports as such (it is not a violation).
   The findings that had a statement about the model here (seq-indefinite-sibling, zero-rate-division, tickrate-default,
   lax-value-syntax, style-invalid-value-abort) are repaired in the code: their refuted statements are gone and the unconditional
   theorems are in Properties/C04.v (C04_read_total, C04_rates_positive, C04_tick_rate, C04_time_reject, C04_bad_value_in_style_ignored).
   The one finding that remains, unknown-attribute-not-logged, is about log records, which are not modelled: the model reads an element
   with an attribute it does not know exactly as without it (below), the missing log record is observed by the check on the code.
   Proposed (findings_proposed/C04.txt seq-region-break-hides-nested-style): in a region with timeContainer="seq", after a child whose
   end is indefinite, a child that is no content element makes the reader leave the children loop, and the nested styles that follow
   it are not read, while in the document without that child they are: the transparency statement of Properties/C04.v holds outside
   the shape Spec/TtmlContentSpec.v style_after_break only. *)
From TT Require Import Base.Prelude Base.ImscXml Model.ImscTime Model.ImscStyles Model.ImscTiming Spec.TtmlContentSpec Proofs.C04.Transparent.
From Coq Require Import QArith.
Local Open Scope Z_scope.

Definition ev0 : env := mkEnv 1 (30 # 1) [] (fun _ _ => None) (fun _ _ => true) [].
Definition pc0 : pctx := mkPctx true (Some 0%Q) false [] true.

(* <p xml:base="x">a</p> is read as <p>a</p> (no outcome of the model tells that nothing was reported) *)
Theorem C04_unknown_attribute_same_result :
  process ev0 pc0 (X T_p [((NS_XML, [98; 97; 115; 101]), [120])] (Some [97]) None []) = process ev0 pc0 (X T_p [] (Some [97]) None []).
Proof. reflexivity. Qed.
Print Assumptions C04_unknown_attribute_same_result.

(* <region xml:id="r" timeContainer="seq"><p>a</p><metadata/><style tts:color="x"/></region>: the nested style is not read; without the
   metadata element it is *)
Definition ev1 : env :=
  mkEnv 1 (30 # 1) [] (fun q _ => if qname_eqb q (NS_TTS, [99; 111; 108; 111; 114]) then Some (1, SO 0) else None) (fun _ _ => true) [].
Definition seq_region : xml :=
  X T_region [(A_id, [114]); (A_timeContainer, V_seq)] None None
    [X T_p [] (Some [97]) None []; X T_metadata [] None None []; X T_style [((NS_TTS, [99; 111; 108; 111; 114]), [120])] None None []].
Theorem C04_noncontent_children_transparent_refuted :
  exists ev pc x, style_after_break x = true /\ ~ pres_rel (process ev pc x) (process ev pc (strip x)).
Proof.
  exists ev1, pc0, seq_region. split; [reflexivity|]. intro H. vm_compute in H.
  destruct H as (_ & _ & _ & H & _). inversion H.
Qed.
Print Assumptions C04_noncontent_children_transparent_refuted.
