(* Recorded finding for C12 (KNOWN_FINDINGS.txt id roundtrip-23976).  If this file stops compiling the
   finding is stale, which the check reports as such (it is not a violation). *)
From TT Require Import Base.Prelude Model.TimeCode Proofs.C12.DropFrame.
Theorem C12_roundtrip_23976_refuted : exists n, 0 <= n /\ to_frames r23976 (from_frames r23976 n) <> n.
Proof. exact rt23976_refuted. Qed.
Print Assumptions C12_roundtrip_23976_refuted.
