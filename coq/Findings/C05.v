(* Recorded findings for C05 (findings_proposed/C05.txt).  If this file stops compiling a finding is stale, which the check reports
   as such (it is not a violation).  Repaired in the code, hence gone from here: none-special-value, g-exponent, textshadow-list,
   number-as-fraction (unconditional theorems in Properties/C05.v). *)
From TT Require Import Base.Prelude Base.ImscXml Model.ImscTime Model.TimeCode Model.ImscWrite Gen.ImscTables.
From TT Require Import Proofs.C05.Values.
From Coq Require Import QArith.
Local Open Scope Z_scope.

(* linepadding-units: 1rh is a valid ebutts:linePadding in the model, written as such and rejected on re-read *)
Theorem C05_line_padding_refuted : exists l, validate_style P_LinePadding (SLen l) = true /\ read_style P_LinePadding (print_len l) = None.
Proof. exists (mkLen 1 U_rh). split; vm_compute; reflexivity. Qed.

(* transparent-background: an explicitly transparent background is not written *)
Theorem C05_transparent_refuted : print_style P_BackgroundColor (SColor transparent) = WSkip.
Proof. reflexivity. Qed.

(* negative-time: the clock-time writer refuses a negative offset the model accepts *)
Theorem C05_negative_time_refuted : to_time_format SyClock None (- (1 # 1)) = None.
Proof. reflexivity. Qed.

(* shear-clamped: tts:shear 250 is written as "250%" and read back as 100 *)
Theorem C05_shear_clamped_refuted : exists s, print_style P_Shear (SInt 250) = WAttr s /\ read_style P_Shear s = Some (SFrac (100 # 1)).
Proof. eexists. split; [reflexivity|]. vm_compute. reflexivity. Qed.

(* textdecoration-no-component: a tts:textDecoration value without any component has no TTML representation and is not written; as the
   value of an animation step or of an initial value (where it is not equivalent to the absence of the property) it is lost *)
Theorem C05_text_decoration_empty_refuted : print_style P_TextDecoration (STextDec None None None) = WSkip.
Proof. reflexivity. Qed.

Print Assumptions C05_line_padding_refuted.  Print Assumptions C05_transparent_refuted.  Print Assumptions C05_negative_time_refuted.
Print Assumptions C05_shear_clamped_refuted.  Print Assumptions C05_text_decoration_empty_refuted.
