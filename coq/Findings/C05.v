(* Recorded findings for C05 (findings_proposed/C05.txt).  If this file stops compiling a finding is stale, which the check reports
   as such (it is not a violation). *)
From TT Require Import Base.Prelude Base.ImscXml Model.ImscTime Model.TimeCode Model.ImscWrite Gen.ImscTables.
From TT Require Import Proofs.C05.Values.
From Coq Require Import QArith.
Local Open Scope Z_scope.

(* none-special-value: the writer fails on values the model accepts *)
Theorem C05_total_refuted : print_style P_TextEmphasis SNone = WErr 3 /\ has_px P_RubyReserve SNone = None /\ has_px P_TextShadow SNone = None.
Proof. repeat split; reflexivity. Qed.

(* g-exponent: 1234567px is written as 1.23457e+06px, which the reader rejects *)
Theorem C05_length_roundtrip_refuted : exists x u, 0 <= u <= 5 /\ parse_len (print_len (mkLen x u)) = None.
Proof. exists (1234567 # 1), U_px. split; [unfold U_px; lia|]. vm_compute. reflexivity. Qed.

(* linepadding-units: 1rh is a valid ebutts:linePadding in the model, written as such and rejected on re-read *)
Theorem C05_line_padding_refuted : exists l, validate_style P_LinePadding (SLen l) = true /\ read_style P_LinePadding (print_len l) = None.
Proof. exists (mkLen 1 U_rh). split; vm_compute; reflexivity. Qed.

(* textshadow-list: two shadows are written with ", " and rejected on re-read *)
Theorem C05_text_shadow_list_refuted : exists l s,
  length l = 2%nat /\ print_style P_TextShadow (SShadows l) = WAttr s /\ read_style P_TextShadow s = None.
Proof.
  exists [(mkLen 1 U_px, mkLen 2 U_px, None, None); (mkLen 3 U_px, mkLen 4 U_px, None, None)]. eexists.
  split; [reflexivity|]. split; [reflexivity|]. vm_compute. reflexivity.
Qed.

(* transparent-background: an explicitly transparent background is not written *)
Theorem C05_transparent_refuted : print_style P_BackgroundColor (SColor transparent) = WSkip.
Proof. reflexivity. Qed.

(* number-as-fraction: tts:opacity 3/4 is written as "3/4" *)
Theorem C05_fraction_refuted : print_style P_Opacity (SFrac (3 # 4)) = WAttr [51; 47; 52].
Proof. vm_compute. reflexivity. Qed.

(* negative-time: the clock-time writer refuses a negative offset the model accepts *)
Theorem C05_negative_time_refuted : to_time_format SyClock None (- (1 # 1)) = None.
Proof. reflexivity. Qed.

Print Assumptions C05_total_refuted.  Print Assumptions C05_length_roundtrip_refuted.  Print Assumptions C05_line_padding_refuted.
Print Assumptions C05_text_shadow_list_refuted.  Print Assumptions C05_transparent_refuted.  Print Assumptions C05_fraction_refuted.
Print Assumptions C05_negative_time_refuted.
