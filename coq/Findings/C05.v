From TT Require Import Base.Prelude Base.ImscXml Model.ImscTime Model.TimeCode Model.ImscWrite.
