(* Helpers evaluated by the generated case files of C16, and the executable trigger of its recorded finding
   (lcd-nested-region-conflict; the triggers of lcd-position and lcd-position-survives went away with their repairs).
   A case = configuration, source document, the implementation's outcome (Ok filtered document | Err class of the
   exception), query times.  No proofs here. *)
From Coq Require Import Qabs.
From TT Require Import Model.Doc Gen.StyleTables Model.Isd Model.IsdCases Model.Lcd Spec.IsdSpec Spec.LcdSpec.

(* ---- comparison of documents (numbers inside style values with the tolerance of Model/IsdCases.v) ------ *)
Definition obody_close (a b : option elem) : bool :=
  match a, b with Some x, Some y => elem_close x y | None, None => true | _, _ => false end.
Definition oq4_eqb (a b : option (Q * Q * Q * Q)) : bool :=
  match a, b with
  | Some (a1, a2, a3, a4), Some (b1, b2, b3, b4) => Qeq_bool a1 b1 && Qeq_bool a2 b2 && Qeq_bool a3 b3 && Qeq_bool a4 b4
  | None, None => true
  | _, _ => false
  end.
Definition doc_close (a b : doc) : bool :=
  list_close elem_close (d_regions a) (d_regions b) && obody_close (d_body a) (d_body b) &&
  smap_close (d_initials a) (d_initials b) &&
  (d_rows a =? d_rows b) && (d_cols a =? d_cols b) && (d_pxh a =? d_pxh b) && (d_pxw a =? d_pxw b) &&
  oq4_eqb (d_active a) (d_active b) && oQ_eqb (d_dar a) (d_dar b) && text_eqb (d_lang a) (d_lang b).
Definition lcd_outcome_close (m py : res doc) : bool :=
  match m, py with
  | Ok a, Ok b => doc_close a b
  | Err x, Err y => x =? y
  | _, _ => false
  end.
(* the style keys of every element and the initial values, in dictionary order *)
Definition key_order (d : doc) : list (list Z) := skeys (d_initials d) :: map (fun a => skeys (e_styles a)) (doc_attrs d).
Fixpoint zlist_eqb (a b : list Z) : bool :=
  match a, b with [] , [] => true | x :: a', y :: b' => (x =? y) && zlist_eqb a' b' | _, _ => false end.
Definition same_key_order (m py : res doc) : bool :=
  match m, py with
  | Ok a, Ok b => list_close zlist_eqb (key_order a) (key_order b)
  | _, _ => true
  end.

(* ---- binary floating point: the only place where the code's floats decide something is `< 50` / `>= 50` on
   origin and origin + extent.  A case is tie-sensitive when such a quantity is within 1e-6 of 50. ---------- *)
Definition near50 (q : Q) : bool := Qle_bool (Qabs (Qminus q q50)) (Qmake 1 1000000).
Definition region_tie (c : lcd_cfg) (d : doc) (inits : smap) (r : elem) : bool :=
  match region_pre d inits (keep_rstyles c (e_styles (eattrs r))) with
  | Ok st =>
      match sget st p_Origin, sget st p_Extent with
      | Some (VCoord x y), Some (VExtent h w) =>
          near50 (lv y) || near50 (Qplus (lv y) (lv h)) || near50 (lv x) || near50 (Qplus (lv x) (lv w))
      | _, _ => false
      end
  | Err _ => false
  end.
Definition tie_sensitive (c : lcd_cfg) (d : doc) : bool :=
  existsb (region_tie c d (keep_styles c (d_initials d))) (d_regions d).

(* ---- triggers of the recorded findings -------------------------------------------------------------------- *)
(* lcd-nested-region-conflict: an element with a region attribute below an ancestor associated with another region,
   the two regions being merged by the filter (al = the filter's alias list) *)
Definition alias_of (al : list (text * text)) (r : text) : text := match lookup_id al r with Some t => t | None => r end.
Fixpoint nested_conflict (al : list (text * text)) (inh : option text) (e : elem) : bool :=
  match e with
  | Elem a cs =>
      let here := match e_region a, inh with
                  | Some r, Some i => negb (text_eqb r i) && text_eqb (alias_of al r) (alias_of al i)
                  | _, _ => false
                  end in
      let assoc := match e_region a with Some r => Some r | None => inh end in
      here || existsb (nested_conflict al assoc) cs
  end.
Definition trig_nested (c : lcd_cfg) (d : doc) : bool :=
  match lcd_aliases c d, d_body d with
  | Ok al, Some b => nested_conflict al None b
  | _, _ => false
  end.

(* ---- the domain of the theorems (well-formedness of the canonical model, C15), as executable predicates ------------- *)
(* region geometry is of its value class, not in em, and an extent has its height in %, px, c or rh and its width in %, px, c
   or rw (style_properties.py validate, enforced by set_style and put_initial_value) *)
Definition not_em (l : len) : bool := negb (unit_eqb (lu l) Uem).
Definition height_unit (l : len) : bool := not_em l && negb (unit_eqb (lu l) Urw).
Definition width_unit (l : len) : bool := not_em l && negb (unit_eqb (lu l) Urh).
Definition geometry_typed (m : smap) : bool :=
  match sget m p_Origin with None => true | Some (VCoord x y) => not_em x && not_em y | Some _ => false end &&
  match sget m p_Extent with None => true | Some (VExtent h w) => height_unit h && width_unit w | Some _ => false end &&
  match sget m p_Position with None => true | Some (VPos h _ v _) => not_em h && not_em v | Some _ => false end.
Definition inits_typed (m : smap) : bool :=
  match sget m p_Origin with None | Some (VCoord _ _) => true | Some _ => false end &&
  match sget m p_Extent with None => true | Some (VExtent h w) => height_unit h && width_unit w | Some _ => false end.
Definition lcd_typed (d : doc) : bool :=
  forallb (fun r => geometry_typed (e_styles (eattrs r))) (d_regions d) && inits_typed (d_initials d).

(* the content model of the canonical document as far as the computed-style theorem needs it (model.py: push_child type
   checks, Region/Br/Text do not have children): regions are region elements; in the body, br and text have no children, there
   is no region element and no p inside a p *)
Fixpoint content_ok (in_p : bool) (e : elem) : bool :=
  match e with
  | Elem a cs =>
      negb (kind_eqb (e_kind a) KRegion) &&
      (if is_leaf_kind (e_kind a) then match cs with [] => true | _ => false end else true) &&
      negb (in_p && kind_eqb (e_kind a) KP) &&
      (fix go (l : list elem) : bool :=
         match l with [] => true | x :: l' => content_ok (in_p || kind_eqb (e_kind a) KP) x && go l' end) cs
  end.
Definition lcd_content_b (d : doc) : bool :=
  forallb (fun r => kind_eqb (e_kind (eattrs r)) KRegion) (d_regions d) &&
  match d_body d with Some b => content_ok false b | None => true end.

Fixpoint nodup_z (l : list Z) : bool := match l with [] => true | x :: l' => negb (existsb (Z.eqb x) l') && nodup_z l' end.
Fixpoint nodup_t (l : list text) : bool := match l with [] => true | x :: l' => negb (existsb (text_eqb x) l') && nodup_t l' end.
Definition wf_doc_b (d : doc) : bool :=
  lcd_typed d &&
  forallb (fun r => nodup_z (skeys (e_styles (eattrs r)))) (d_regions d) &&
  forallb (fun r => match echildren r with [] => true | _ => false end) (d_regions d) &&
  forallb (fun r => match e_id (eattrs r) with Some _ => true | None => false end) (d_regions d) &&
  nodup_t (map (fun r => rid (eattrs r)) (d_regions d)) &&
  refs_resolved_b d && lcd_content_b d.

(* ---- case evaluation ---------------------------------------------------------------------------------------- *)
Definition on_ok (py : res doc) (f : doc -> bool) : bool := match py with Ok d' => f d' | Err _ => true end.
(* static clauses of S on the implementation's result; excused = the finding's trigger *)
Definition case_static (c : lcd_cfg) (d : doc) (py : res doc) : list bool :=
  [ on_ok py no_anim_b;
    on_ok py (whitelist_b (c_pta c) (c_color c) (c_bg c));
    on_ok py (safe_area_b (c_sa c));
    on_ok py (merged_b (c_pta c) d);
    on_ok py (fun d' => refs_resolved_b d' && redirected_b true d d');
    match py with Ok _ => true | Err _ => false end;
    (* the model run again on the implementation's result gives that result back *)
    on_ok py (fun d' => lcd_outcome_close (lcd c d') (Ok d')) ].
(* timeline at the query times: required when the document hides nothing and the nested-conflict trigger does not fire *)
Definition case_timeline (c : lcd_cfg) (d : doc) (py : res doc) (ts : list Q) : list bool :=
  map (fun t => (on_ok py (fun d' => timeline_b d d' t) || negb (no_hiding_b d) || trig_nested c d) &&
                (* whatever the document hides, nothing visible before is lost (the filter only removes display styling) *)
                on_ok py (fun d' => timeline_kept_b d d' t)) ts.
Definition case_timeline_strict (d : doc) (py : res doc) (ts : list Q) : list bool :=
  map (fun t => on_ok py (fun d' => timeline_b d d' t) || negb (no_hiding_b d)) ts.
(* configured colour / background / centred alignment in the snapshots (Model/Isd.v) of the result *)
Definition case_computed (c : lcd_cfg) (py : res doc) (ts : list Q) : list bool :=
  map (fun t => on_ok py (fun d' => match isd d' t with
                                    | Ok s => computed_b (c_pta c) (c_color c) (c_bg c) s
                                    | Err _ => true
                                    end)) ts.

(* preserved alignment (clause 6 of S, second part) on the implementation's result: for every source region x, the region of the result
   that stands for it (its id is the alias of x's id under the model's alias list) gives every prefix of every chain the same alignment *)
Fixpoint prefixes {A} (l : list A) : list (list A) := [] :: match l with [] => [] | x :: l' => map (cons x) (prefixes l') end.
Definition align_chain_b (d d' : doc) (x x' : attrs) (ch ch' : list attrs) : bool :=
  forallb (fun p => oenum_eqb (computed_align d x (fst p)) (computed_align d' x' (snd p))) (zip (prefixes ch) (prefixes ch')).
Definition case_align (c : lcd_cfg) (d : doc) (py : res doc) : bool :=
  negb (c_pta c) ||
  match py, lcd_aliases c d with
  | Ok d', Ok al =>
      match d_body d, d_body d' with
      | Some b, Some b' =>
          forallb (fun x => match find_region d' (alias_of al (rid (eattrs x))) with
                            | Some x' => (Z.of_nat (length (chains b)) =? Z.of_nat (length (chains b'))) &&
                                         forallb (fun p => align_chain_b d d' (eattrs x) x' (fst p) (snd p)) (zip (chains b) (chains b'))
                            | None => false
                            end) (d_regions d)
      | None, None => true
      | _, _ => false
      end
  | _, _ => true
  end.
