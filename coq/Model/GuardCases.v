(* C18 — evaluation helpers for the correspondence case files coq/Gen/Cases_C18_*.v (written by harness/guards18.py).
   Every [*_case] compares a guard model of Model/ReaderGuards.v with what the real reader did on the same input
   (outcome class, cue-parser invocations), or evaluates S (Spec/RobustSpec.v) on an observed run. *)
From TT Require Import Base.Prelude Model.Outcome Model.ReaderGuards Spec.RobustSpec.

Definition subs (l : list Z) : list sub_result := map sub_of_code l.
Definition bools_code (l : list bool) : list Z := map (fun b : bool => if b then 1 else 0) l.

(* (content, oracle codes, expected outcome code, attachment flags of the completed parser calls) *)
Definition srt_case (c : text * list Z * Z * list Z) : bool :=
  let '(content, oracle, code, calls) := c in
  (outcome_code (srt_run (subs oracle) content) =? code) && text_eqb (bools_code (srt_calls (subs oracle) content)) calls.
Definition vtt_case (c : text * list Z * Z * list Z) : bool :=
  let '(content, oracle, code, calls) := c in
  (outcome_code (vtt_run (subs oracle) content) =? code) && text_eqb (bools_code (vtt_calls (subs oracle) content)) calls.

(* (event code, number of the tag name within the cue) *)
Definition srt_event_of_code (ct : Z * Z) : srt_event :=
  let '(c, t) := ct in
  if c =? 0 then EvStart t None else if c =? 1 then EvStart t (Some ColorAbsent) else if c =? 2 then EvStart t (Some ColorNoValue)
  else if c =? 3 then EvStart t (Some ColorBad) else if c =? 4 then EvStart t (Some ColorGood) else if c =? 5 then EvEnd t else EvData.
Definition vtt_event_of_code (ct : Z * Z) : vtt_event :=
  let '(c, t) := ct in
  if c =? 0 then TStartRuby t else if c =? 1 then TStartRt t else if c =? 2 then TStartSpan t else if c =? 3 then TTimestamp
  else if c =? 4 then TEnd t else TData (Z.to_nat (c - 10)).
(* (attached, event codes, expected outcome code) *)
Definition srt_cursor_case (c : Z * list (Z * Z) * Z) : bool :=
  let '(a, es, code) := c in outcome_code (srt_cursor_run (a =? 1) (map srt_event_of_code es)) =? code.
Definition vtt_cursor_case (c : Z * list (Z * Z) * Z) : bool :=
  let '(a, es, code) := c in outcome_code (vtt_cursor_run (a =? 1) (map vtt_event_of_code es)) =? code.
(* the theorems, evaluated on what the code did: _TextParser never ends with an internal error (C18_srt_cursor_total);
   _TextCueParser does only when the cue has a <ruby> tag (C18_vtt_cursor_partial) *)
Definition srt_cursor_total_case (c : Z * list (Z * Z) * Z) : bool :=
  let '(a, es, code) := c in code <? 20.
Definition vtt_cursor_trigger_case (c : Z * list (Z * Z) * Z) : bool :=
  let '(a, es, code) := c in
  let ev := map vtt_event_of_code es in
  implb (20 <=? code) (vtt_has_ruby ev).

(* SCC: whole reader; one line; one word *)
Definition scc_case (c : text * list Z * Z) : bool :=
  let '(content, oracle, code) := c in outcome_code (scc_run (subs oracle) content) =? code.
Definition scc_line_code (l : text) : Z :=
  match scc_line_from_str l with LineNone => -1 | LineErr o => outcome_code o | LineOk n => 100 + Z.of_nat n end.
Definition scc_line_case (c : text * Z) : bool := let '(l, code) := c in scc_line_code l =? code.
Definition scc_word_case (c : text * Z) : bool := let '(w, code) := c in outcome_code (scc_word_from_str w) =? code.

(* STL: run-length encoded bytes *)
Definition rle_expand (l : list (Z * Z)) : list Z := flat_map (fun p => repeat (snd p) (Z.to_nat (fst p))) l.
Definition stl_start_of (l : list Z) : stl_start :=
  match l with
  | [1] => StartTCP
  | [2; df; h; m; s; f] => StartTimecode (df =? 1) h m s f
  | _ => StartNone
  end.
Definition stl_rows_of (l : list Z) : stl_rows :=
  match l with [1] => RowsMNR | [2; n] => RowsInt n | _ => RowsNone end.
Definition stl_case (c : list Z * list Z * list (Z * Z) * list Z * Z) : bool :=
  let '(st, rw, rle, oracle, code) := c in
  outcome_code (stl_run {| cfg_start := stl_start_of st; cfg_rows := stl_rows_of rw |} (subs oracle) (rle_expand rle)) =? code.
(* the theorem, evaluated on what the code did: an internal outcome is one that tf.to_model raised (C18_stl_internal_origin) *)
Definition stl_total_case (c : list Z * list Z * list (Z * Z) * list Z * Z) : bool :=
  let '(st, rw, rle, oracle, code) := c in
  implb (20 <=? code) (existsb (fun o => o =? code) oracle).

(* int(bytes([a, b])) for a whole row b = 0..255: -100000 encodes ValueError *)
Definition bytes_int_row (a : Z) (row : list Z) : bool :=
  text_eqb (map (fun b => match bytes_int [a; b] with Some n => n | None => -100000 end) (map Z.of_nat (seq 0 256))) row.
Definition bytes_int_case (c : list Z * Z) : bool :=
  let '(s, v) := c in (match bytes_int s with Some n => n | None => -100000 end) =? v.
Definition int16_case (c : text * Z) : bool := let '(w, v) := c in (if int16_ok w then 1 else 0) =? v.

(* line classifiers alone: (line, blank, counter, timecode, int() of an hour field raises) and (line, blank, note, style, arrow, cue) *)
Definition b2z (b : bool) : Z := if b then 1 else 0.
Definition srt_view_case (c : text * list Z) : bool :=
  let '(l, fl) := c in let v := srt_classify l in text_eqb [b2z (sv_blank v); b2z (sv_counter v); b2z (sv_tc v); b2z (sv_tc_long v)] fl.
Definition vtt_view_case (c : text * list Z) : bool :=
  let '(l, fl) := c in let v := vtt_classify l in
  text_eqb [b2z (vv_blank v); b2z (vv_note v); b2z (vv_style v); b2z (vv_arrow v); b2z (vv_cue v)] fl.

(* S on an observed run: (reader code, downstream codes, verdict of the harness) *)
Definition spec_case (c : Z * list Z * Z) : bool :=
  let '(r, down, ok) := c in Bool.eqb (robust (obs_of_codes r down)) (ok =? 1).
Definition spec_strict_case (c : Z * list Z * Z) : bool :=
  let '(r, down, _) := c in robust (obs_of_codes r down).
