(* Evaluation helpers for the generated C05 case files: the writer model's attribute strings against the attributes of
   the ElementTree the code builds, and the reader model's parsed values against StyleProperties.*.extract. *)
From TT Require Import Base.Prelude Base.ImscXml Model.ImscTime Model.TimeCode Model.ImscWrite Gen.ImscTables.
From Coq Require Import QArith.
Local Open Scope Z_scope.

Definition wres_eqb (a b : wres) : bool :=
  match a, b with
  | WAttr s, WAttr t => text_eqb s t
  | WSkip, WSkip => true
  | WErr x, WErr y => x =? y
  | _, _ => false
  end.

Definition len_eqb (a b : len) : bool := Qeq_bool (l_val a) (l_val b) && (l_unit a =? l_unit b).
Definition olen_eqb (a b : option len) : bool := match a, b with None, None => true | Some x, Some y => len_eqb x y | _, _ => false end.
Definition ocolor_eqb (a b : option color) : bool := match a, b with None, None => true | Some x, Some y => color_eqb x y | _, _ => false end.
Definition obool_eqb (a b : option bool) : bool := match a, b with None, None => true | Some x, Some y => Bool.eqb x y | _, _ => false end.
Fixpoint list_eqb' {A} (f : A -> A -> bool) (a b : list A) : bool :=
  match a, b with [], [] => true | x :: a', y :: b' => f x y && list_eqb' f a' b' | _, _ => false end.

Definition sval_eqb (a b : sval) : bool :=
  match a, b with
  | SColor x, SColor y => color_eqb x y
  | SEnum x, SEnum y => x =? y
  | SLen x, SLen y => len_eqb x y
  | SNormal, SNormal => true
  | SNone, SNone => true
  | SExtent w h, SExtent w' h' => len_eqb w w' && len_eqb h h'
  | SOrigin x y, SOrigin x' y' => len_eqb x x' && len_eqb y y'
  | SPadding a1 a2 a3 a4, SPadding b1 b2 b3 b4 => len_eqb a1 b1 && len_eqb a2 b2 && len_eqb a3 b3 && len_eqb a4 b4
  | SPosition he ho ve vo, SPosition he' ho' ve' vo' => (he =? he') && len_eqb ho ho' && (ve =? ve') && len_eqb vo vo'
  | SBool x, SBool y => Bool.eqb x y
  | SInt x, SInt y => x =? y
  | SFrac x, SFrac y => Qeq_bool x y
  | SInt x, SFrac y => Qeq_bool (inject_Z x) y
  | SFrac x, SInt y => Qeq_bool x (inject_Z y)
  | STextDec u l o, STextDec u' l' o' => obool_eqb u u' && obool_eqb l l' && obool_eqb o o'
  | SEmph s c p, SEmph s' c' p' => (s =? s') && ocolor_eqb c c' && (p =? p')
  | SOutline c t, SOutline c' t' => ocolor_eqb c c' && len_eqb t t'
  | SShadows l, SShadows l' =>
      list_eqb' (fun x y => let '(a, b, c, d) := x in let '(a', b', c', d') := y in
                            len_eqb a a' && len_eqb b b' && olen_eqb c c' && ocolor_eqb d d') l l'
  | SReserve p l, SReserve p' l' => (p =? p') && olen_eqb l l'
  | SFonts l, SFonts l' => list_eqb' (fun x y => Bool.eqb (fst x) (fst y) && text_eqb (snd x) (snd y)) l l'
  | _, _ => false
  end.
Definition osval_eqb (a b : option sval) : bool :=
  match a, b with None, None => true | Some x, Some y => sval_eqb x y | _, _ => false end.

Definition case_print (p : Z) (v : sval) (expected : wres) : bool := wres_eqb (print_style p v) expected.
Definition case_extract (p : Z) (s : text) (expected : option sval) : bool := osval_eqb (read_style p s) expected.
Definition otext_eqb' (a b : option text) : bool := match a, b with None, None => true | Some x, Some y => text_eqb x y | _, _ => false end.
Definition case_time_print (syn : tsyntax) (fps : option Q) (t : Q) (expected : option text) : bool :=
  otext_eqb' (to_time_format syn fps t) expected.
Definition case_has_px (p : Z) (v : sval) (expected : bool) : bool := Bool.eqb (has_px p v) expected.
Definition case_frame_rate (fps : Q) (fr : text) (mult : option text) : bool :=
  let '(a, b) := print_frame_rate fps in text_eqb a fr && otext_eqb' b mult.
Definition case_g (x : Q) (expected : text) : bool := text_eqb (format_g x) expected.
Definition case_num (x : Q) (expected : text) : bool := text_eqb (print_num x) expected.     (* imsc/utils.py to_ttml_number *)
(* float() on the transcribed fragment *)
Definition case_float (s : text) (expected : option Q) : bool :=
  match parse_float s, expected with None, None => true | Some a, Some b => Qeq_bool a b | _, _ => false end.
Definition L := mkLen.

(* ---- S on the code's round trip ------------------------------------------------------------------------------- *)
From TT Require Import Spec.ImscRoundTripSpec.
Definition case_rt_times (syn : syntax) (fps : Q) (pairs : list (Q * Q)) : bool :=
  forallb (fun p => time_ok syn fps (fst p) (snd p)) pairs.
Definition case_rt_order (groups : list (list (Q * Q))) : bool := forallb order_ok groups.
Definition case_rt_values (pairs : list (list atom * list atom)) : bool := forallb (fun p => atoms_ok (fst p) (snd p)) pairs.
