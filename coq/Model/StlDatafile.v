(* M for C09, the data file: transcription of ttconv/stl/reader.py `to_model` and ttconv/stl/datafile.py
   (`DataFile.__init__`, `process_tti_block`, `_get_region_from_model`) over the raw bytes of the file.
   `struct.unpack` layouts are byte-list destructuring; Python's int(bytes) is `py_int`; Fractions are Q;
   the float arithmetic of the region geometry is carried out in Q (the correspondence run compares it with
   the implementation's doubles up to 1e-9; region identity only depends on exact equality of the small
   integers the geometry is computed from).  Exceptions are explicit outcomes.  The SMPTE arithmetic is
   Model/TimeCode.v (verified under C12).  Also here: the values passed to the progress callback (progress_model)
   and STLReaderConfiguration.parse of ttconv/stl/config.py + ttconv/config.py (decode_start_tc, decode_max_row_count,
   decode_bool, parse_config; after the repairs fullmatch / int-not-bool / decode_bool / str-only start).
   The model follows the code after the repairs of the second phase (comment blocks skipped, text field cut at the
   first 0x8F, a paragraph is opened when there is none, VP 0 = row 1, progress division guarded) and the repair of
   the row count (a maximum row count below 1 - GSI MNR 00, max_row_count 0 or negative - is replaced by the default,
   so the division of `region_for` never fails: Proofs/C09/File.v reader_no_zero_div). *)
From Coq Require Import QArith.
From TT Require Import Base.Prelude Gen.StlTables Model.TimeCode Model.Iso6937 Model.StlTf.
Open Scope Z_scope.

(* ---- configuration (STLReaderConfiguration) --------------------------------------------------------- *)
Inductive start_tc := StNone | StTCP | StStr (t : text).
Inductive max_rows_cfg := MrNone | MrMNR | MrInt (n : Z).
Definition font := (bool * list Z)%type.            (* (is a GenericFontFamilyType member, name) *)
Record config := mkConfig { cf_start : start_tc ; cf_rows : max_rows_cfg ; cf_disable_fill_line_gap : bool ;
                            cf_disable_line_padding : bool ; cf_font_stack : option (list font) }.

(* ---- outcome ---------------------------------------------------------------------------------------- *)
Inductive error := EStruct | EAttribute | EValue | EZeroDiv.

(* ---- the document that is returned, as far as the STL reader sets it --------------------------------- *)
Record region := mkRegion { r_x : Q ; r_y : Q ; r_w : Q ; r_h : Q ; r_after : bool }.   (* %; displayAlign after/before *)
Inductive pitem := PLeaf (l : leaf) | PSub (b e : Q) (ls : list leaf).                    (* PSub: nested timed span *)
Record para := mkPara { p_region : Z ;            (* index into the region list *)
                        p_align : Z ;             (* textAlign: 0 start, 1 center, 2 end *)
                        p_font_size : Z ; p_line_height : Z ;
                        p_time : option (Q * Q) ; p_items : list pitem }.
Record sdoc := mkDoc { d_lang : list Z ; d_cols : Z ; d_rows : Z ;
                       d_active : Q * Q * Q * Q ;          (* active area: left offset, top offset, width, height *)
                       d_fill_line_gap : bool ; d_line_padding : option (Z * Z) ; d_fonts : list font ;
                       d_regions : list region ; d_divs : list (list para) }.
Inductive outcome := Ok (d : sdoc) | Err (e : error).

(* ---- helpers ---------------------------------------------------------------------------------------- *)
Definition slice (off len : nat) (bs : list Z) : list Z := firstn len (skipn off bs).

Fixpoint map_get_bytes {A} (m : list (list Z * A)) (k : list Z) : option A :=
  match m with [] => None | (k', v) :: m' => if bytes_eqb k' k then Some v else map_get_bytes m' k end.

(* int(b"...") : ASCII white space stripped, optional sign, decimal digits with single underscores between digits *)
Definition py_space (b : Z) : bool := (b =? 32) || ((9 <=? b) && (b <=? 13)).
Fixpoint lstrip_sp (bs : list Z) : list Z :=
  match bs with [] => [] | b :: r => if py_space b then lstrip_sp r else bs end.
Fixpoint digits_go (bs : list Z) (acc : Z) (prev_digit : bool) : option Z :=
  match bs with
  | [] => if prev_digit then Some acc else None
  | b :: r => if is_digit b then digits_go r (acc * 10 + (b - 48)) true
              else if (b =? 95) && prev_digit then digits_go r acc false
              else None
  end.
Definition py_int (bs : list Z) : option Z :=
  let s := rev (lstrip_sp (rev (lstrip_sp bs))) in
  match s with
  | 43 :: r => digits_go r 0 false
  | 45 :: r => match digits_go r 0 false with Some n => Some (- n) | None => None end
  | _ => digits_go s 0 false
  end.

Definition qz (n : Z) : Q := inject_Z n.
(* Fraction(to_frames, frame_rate) *)
Definition offset_q (r : rate) (l : label) : Q :=
  let '(n, d) := to_temporal_offset r l in Qmake n (Z.to_pos d).
Definition q_neg (x : Q) : bool := negb (Qle_bool 0 x).          (* x < 0 *)
Definition q_lt (x y : Q) : bool := negb (Qle_bool y x).         (* x < y *)

(* ---- GSI block -------------------------------------------------------------------------------------- *)
Record gsi := mkGsi { g_dfc : list Z ; g_dsc : Z ; g_cct : list Z ; g_lc : list Z ;
                      g_tnb : list Z ; g_mnr : list Z ; g_tcp : list Z }.
(* '3s8sc2s2s32s32s32s32s32s32s16s6s6s2s5s5s3s2s2s1s8s8s1s1s3s32s32s32s75x576s' *)
Definition unpack_gsi (b : list Z) : gsi :=
  mkGsi (slice 3 8 b) (nth 11 b 0) (slice 12 2 b) (slice 14 2 b) (slice 238 5 b) (slice 253 2 b) (slice 256 8 b).

Record datafile := mkDatafile { f_fps : rate ; f_cct : list Z ; f_teletext : bool ; f_tti_count : Z ;
                                f_lang : list Z ; f_start : Q ; f_max_rows : Z }.

Definition max_size : Z := 9223372036854775807.

(* DataFile.__init__ (the document-level part is in `finish`) *)
Definition init (g : gsi) (cfg : config) : datafile + error :=
  let fps := match map_get_bytes dfc_fraction_map (g_dfc g) with Some (n, d) => mkRate n d | None => mkRate 25 1 end in
  let tti_count := match py_int (g_tnb g) with Some n => n | None => max_size end in
  let lang := match map_get_bytes lc_bcp47_map (g_lc g) with Some l => l | None => [] end in
  let teletext := (g_dsc g =? 49) || (g_dsc g =? 50) in
  let start : Q + error :=
    match cf_start cfg with
    | StNone => inl 0%Q
    | StTCP =>
        match py_int (slice 0 2 (g_tcp g)), py_int (slice 2 2 (g_tcp g)), py_int (slice 4 2 (g_tcp g)), py_int (slice 6 2 (g_tcp g)) with
        | Some h, Some m, Some s, Some f => inl (offset_q fps (h, m, s, f))
        | _, _, _, _ => inl 0%Q                 (* except ValueError: LOGGER.error(...); self.start_offset = 0 *)
        end
    | StStr t =>
        match parse_tc t fps with
        | Some (l, r) => inl (offset_q r l)
        | None => inr EValue
        end
    end in
  match start with
  | inr e => inr e
  | inl start =>
      let rows :=
        match cf_rows cfg with
        | MrNone => default_teletext_rows
        | MrMNR => if teletext then default_teletext_rows
                   else match py_int (g_mnr g) with
                        | Some n => n
                        | None => default_teletext_rows       (* except ValueError: self.max_row_count = DEFAULT_TELETEXT_ROWS *)
                        end
        | MrInt n => if teletext then default_teletext_rows else n
        end in
      (* if self.max_row_count < 1: LOGGER.error(...); self.max_row_count = DEFAULT_TELETEXT_ROWS *)
      let rows := if rows <? 1 then default_teletext_rows else rows in
      inl (mkDatafile fps (g_cct g) teletext tti_count lang start rows)
  end.

(* ---- TTI block -------------------------------------------------------------------------------------- *)
Record tti := mkTti { t_sgn : Z ; t_sn : Z ; t_ebn : Z ; t_cs : Z ; t_tci : label ; t_tco : label ;
                      t_vp : Z ; t_jc : Z ; t_cf : Z ; t_tf : list Z }.
(* '<BHBBBBBBBBBBBBB112s' *)
Definition unpack_tti (b : list Z) : tti :=
  let n i := nth i b 0 in
  mkTti (n 0%nat) (n 1%nat + 256 * n 2%nat) (n 3%nat) (n 4%nat)
        (n 5%nat, n 6%nat, n 7%nat, n 8%nat) (n 9%nat, n 10%nat, n 11%nat, n 12%nat)
        (n 13%nat) (n 14%nat) (n 15%nat) (slice 16 112 b).

Record state := mkState { st_in_ext : bool ; st_tf : list Z ; st_last_sn : option Z ;
                          st_divs : list (Z * list para) ;      (* sgn_to_div_map in body order; closed paragraphs *)
                          st_cur : option (Z * para) ;          (* cur_p_element (last child of the div of its SGN) *)
                          st_regions : list region }.
Definition state0 : state := mkState false [] None [] None [].

(* `tti.SN != self.last_sn` (last_sn is None before the first paragraph) *)
Definition sn_differs (sn : Z) (last : option Z) : bool :=
  match last with
  | None => true
  | Some l => negb (sn =? l)
  end.

Fixpoint div_add (divs : list (Z * list para)) (sgn : Z) (p : para) : list (Z * list para) :=
  match divs with
  | [] => [(sgn, [p])]                 (* not reached: the div exists *)
  | (s, ps) :: r => if s =? sgn then (s, ps ++ [p]) :: r else (s, ps) :: div_add r sgn p
  end.
Definition commit (s : state) : list (Z * list para) :=
  match st_cur s with None => st_divs s | Some (sgn, p) => div_add (st_divs s) sgn p end.
Definition has_div (divs : list (Z * list para)) (sgn : Z) : bool := existsb (fun d => fst d =? sgn) divs.

Definition region_eqb (a b : region) : bool :=
  Qeq_bool (r_x a) (r_x b) && Qeq_bool (r_y a) (r_y b) && Qeq_bool (r_h a) (r_h b) && Qeq_bool (r_w a) (r_w b) &&
  Bool.eqb (r_after a) (r_after b).
Fixpoint find_region (rs : list region) (r : region) (i : Z) : option Z :=
  match rs with [] => None | x :: rs' => if region_eqb x r then Some i else find_region rs' r (i + 1) end.
(* _get_region_from_model: index of the matching region, or append *)
Definition get_region (rs : list region) (r : region) : Z * list region :=
  match find_region rs r 0 with Some i => (i, rs) | None => (Z.of_nat (length rs), rs ++ [r]) end.

Definition safe_area_height : Z := 100 - default_vertical_safe_margin_pct * 2.
Definition safe_area_width : Z := 100 - default_horizontal_safe_margin_pct * 2.

(* the region of a new subtitle; None = ZeroDivisionError (not reached from `init`, which leaves max_rows >= 1) *)
Definition region_for (max_rows tti_vp : Z) (tf : list Z) (dh : bool) : option region :=
  let vp := Z.max tti_vp 1 in                       (* vp = max(tti.VP, 1) *)
  if vp <? max_rows / 2 then
    let r_y := (qz default_vertical_safe_margin_pct + (qz (vp - 1) / qz max_rows) * qz safe_area_height)%Q in
    Some (mkRegion (qz default_horizontal_safe_margin_pct) r_y (qz safe_area_width)
                   (qz (100 - default_vertical_safe_margin_pct) - r_y)%Q false)
  else if max_rows =? 0 then None
  else
    let lc := line_count tf dh in
    let lh := if dh then 2 else 1 in
    Some (mkRegion (qz default_horizontal_safe_margin_pct) (qz default_vertical_safe_margin_pct) (qz safe_area_width)
                   ((qz (vp + lc * lh - 1) / qz max_rows) * qz safe_area_height)%Q true).

(* process_tti_block from "apply program offset" on: the terminal block `t` of a subtitle whose accumulated text
   field is `tf` (self.tti_tf) *)
Definition no_paragraph (s : state) : bool := match st_cur s with None => true | Some _ => false end.
Definition complete_subtitle (f : datafile) (s : state) (t : tti) (tf : list Z) : state + error :=
  let dh := has_double_height_char tf in
  let begin_time := (offset_q (f_fps f) (t_tci t) - f_start f)%Q in
  let s0 := mkState false tf (st_last_sn s) (st_divs s) (st_cur s) (st_regions s) in
  if q_neg begin_time then inl s0 else
  let end_time := (offset_q (f_fps f) (t_tco t) - f_start f)%Q in
  if q_lt end_time begin_time then inl s0 else
  (* a new subtitle: the number changes outside a cumulative set, or there is no paragraph to continue *)
  let s1 : state + error :=
    if (sn_differs (t_sn t) (st_last_sn s) && ((t_cs t =? 0) || (t_cs t =? 1))) || no_paragraph s then
      let divs := commit s in
      let divs := if has_div divs (t_sgn t) then divs else divs ++ [(t_sgn t, [])] in
      let align := if t_jc t =? 1 then 0 else if t_jc t =? 3 then 2 else 1 in
      let font_size := if f_teletext f && negb dh then default_single_height_font_size_pct
                       else default_double_height_font_size_pct in
      match region_for (f_max_rows f) (t_vp t) tf dh with
      | None => inr EZeroDiv
      | Some r =>
          let '(ri, rs) := get_region (st_regions s) r in
          inl (mkState false tf (Some (t_sn t)) divs
                       (Some (t_sgn t, mkPara ri align font_size default_line_height_pct None [])) rs)
      end
    else inl s0 in
  match s1 with
  | inr e => inr e
  | inl s1 =>
      match st_cur s1 with
      | None => inr EAttribute                      (* self.cur_p_element is None: not reached (Proofs/C09/File.v) *)
      | Some (sgn, p) =>
          let leaves := tf_model (decoder_of_cct (f_cct f)) (f_teletext f) tf in
          let p' :=
            if (t_cs t =? 1) || (t_cs t =? 2) || (t_cs t =? 3) then
              let ls := if (t_cs t =? 1) || (t_cs t =? 2) then leaves ++ [LBr] else leaves in
              mkPara (p_region p) (p_align p) (p_font_size p) (p_line_height p) (p_time p) (p_items p ++ [PSub begin_time end_time ls])
            else
              mkPara (p_region p) (p_align p) (p_font_size p) (p_line_height p) (Some (begin_time, end_time))
                     (p_items p ++ map PLeaf leaves) in
          inl (mkState (st_in_ext s1) (st_tf s1) (st_last_sn s1) (st_divs s1) (Some (sgn, p')) (st_regions s1))
      end
  end.

(* process_tti_block: user-data/reserved blocks and comment blocks are skipped; the text field up to the first
   unused-space byte is appended to the fields of the preceding extension blocks *)
Definition process_tti (f : datafile) (s : state) (t : tti) : state + error :=
  if (239 <? t_ebn t) && (t_ebn t <? 255) then inl s else
  if t_cf t =? 1 then inl s else
  let tf := (if st_in_ext s then st_tf s else []) ++ before_8f (t_tf t) in
  if negb (t_ebn t =? 255) then inl (mkState true tf (st_last_sn s) (st_divs s) (st_cur s) (st_regions s)) else
  complete_subtitle f s t tf.

(* reader.to_model: the loop over 128-byte reads; progress_callback(i / tti_count) is only called when
   tti_count > 0 and has no effect on the document *)
Fixpoint read_blocks (fuel : nat) (f : datafile) (s : state) (bs : list Z) : state + error :=
  match fuel with
  | O => inl s
  | S k =>
      match bs with
      | [] => inl s
      | _ =>
          let buf := firstn 128 bs in
          if negb (Nat.eqb (length buf) 128) then inr EStruct else
          match process_tti f s (unpack_tti buf) with
          | inr e => inr e
          | inl s' => read_blocks k f s' (skipn 128 bs)
          end
      end
  end.

(* the values passed to progress_callback: i / tti_count after the i-th block (counted from 0) that was processed
   without an exception, when tti_count > 0 *)
Fixpoint progress_go (fuel : nat) (f : datafile) (s : state) (bs : list Z) (i : Z) : list Q :=
  match fuel with
  | O => []
  | S k =>
      match bs with
      | [] => []
      | _ =>
          let buf := firstn 128 bs in
          if negb (Nat.eqb (length buf) 128) then [] else
          match process_tti f s (unpack_tti buf) with
          | inr _ => []
          | inl s' => (if 0 <? f_tti_count f then [Qmake i (Z.to_pos (f_tti_count f))] else []) ++
                      progress_go k f s' (skipn 128 bs) (i + 1)
          end
      end
  end.
Definition progress_model (file : list Z) (cfg : config) : list Q :=
  let g := firstn 1024 file in
  if negb (Nat.eqb (length g) 1024) then [] else
  match init (unpack_gsi g) cfg with
  | inr _ => []
  | inl f => progress_go (S (length file)) f state0 (skipn 1024 file) 0
  end.

(* ---- stl/config.py + ttconv/config.py: STLReaderConfiguration.parse, field by field ---------------------------------- *)
(* a JSON value as json.loads hands it to ModuleConfiguration.parse; VOther: a float, a list, an object *)
Inductive cfg_value := VNull | VStr (t : text) | VInt (n : Z) | VBool (b : bool) | VOther.
(* config_dict.get(field.name, cls.get_field_default(field)): None = the key is absent *)
Definition dict_get (v : option cfg_value) (default : cfg_value) : cfg_value :=
  match v with Some x => x | None => default end.
(* value.upper() == "TCP" / "MNR": no character other than the ASCII letters upper-cases to T, C, P, M, N, R
   (checked against CPython's tables by harness/gen_c09.py) *)
Definition upper_is (a b c : Z) (t : text) : bool :=
  match t with
  | [x; y; z] => ((x =? a) || (x =? a + 32)) && ((y =? b) || (y =? b + 32)) && ((z =? c) || (z =? c + 32))
  | _ => false
  end.
(* re.fullmatch of NN?NN?NN?NN (since the repair "program_start_tc accepted trailing text"; formerly re.match): the
   pattern consumes exactly eleven characters and nothing may follow - not even a new-line, which `$` would let pass *)
Definition is_some {A} (o : option A) : bool := match o with Some _ => true | None => false end.
Definition fullmatch_tc (sep_ok : Z -> bool) (t : text) : option label :=
  if Nat.eqb (length t) 11 then match_tc sep_ok t else None.
(* _decode_start_tc: None; a string that is "TCP" in any case; a string that IS NN?NN?NN?NN (? any character but a
   new-line: the DF pattern's separator group has an unescaped dot; the NDF pattern, all colons, is a special case of
   it), else ValueError.  A value that is not a string is a ValueError too (since the repair "program_start_tc and
   font_stack raised AttributeError / TypeError on a value that is not a string": the type is tested before
   value.upper()) *)
Definition decode_start_tc (v : cfg_value) : start_tc + error :=
  match v with
  | VNull => inl StNone
  | VStr t => if upper_is 84 67 80 t then inl StTCP
              else if is_some (fullmatch_tc (fun c => negb (c =? newline)) t)        (* _SMPTE_TIME_CODE_DF_PATTERN *)
                      || is_some (fullmatch_tc (fun c => c =? colon) t)              (* or _SMPTE_TIME_CODE_NDF_PATTERN *)
                   then inl (StStr t) else inr EValue
  | VInt _ | VBool _ | VOther => inr EValue
  end.
(* _decode_max_row_count: None, "MNR" in any case, an int that is not a bool (since the repair "max_row_count accepted
   true and false as integers"), else ValueError *)
Definition decode_max_row_count (v : cfg_value) : max_rows_cfg + error :=
  match v with
  | VNull => inl MrNone
  | VStr t => if upper_is 77 78 82 t then inl MrMNR else inr EValue
  | VInt n => inl (MrInt n)
  | VBool _ | VOther => inr EValue
  end.
(* ttconv.config.decode_bool (disable_fill_line_gap, disable_line_padding since the repair "fields documented as
   true | false accepted any JSON value by truthiness"): a JSON boolean; everything else - an explicit null included -
   is a ValueError *)
Definition decode_bool (v : cfg_value) : bool + error :=
  match v with VBool b => inl b | _ => inr EValue end.
(* ModuleConfiguration.parse for STLReaderConfiguration: validate() never raises (every field is Optional or has a
   default); the fields are decoded in declaration order - disable_fill_line_gap (default False), program_start_tc
   (None), disable_line_padding (False), font_stack (None; absent here: parse_font_families is C19's), max_row_count
   (None) - and the first decoder that raises ends the parse *)
Definition parse_config (fill start pad rows : option cfg_value) : config + error :=
  match decode_bool (dict_get fill (VBool false)) with
  | inr e => inr e
  | inl nofill =>
      match decode_start_tc (dict_get start VNull) with
      | inr e => inr e
      | inl st =>
          match decode_bool (dict_get pad (VBool false)) with
          | inr e => inr e
          | inl nopad =>
              match decode_max_row_count (dict_get rows VNull) with
              | inr e => inr e
              | inl r => inl (mkConfig st r nofill nopad None)
              end
          end
      end
  end.

Definition finish (f : datafile) (cfg : config) (s : state) : sdoc :=
  mkDoc (f_lang f)
        (round_he (100 * default_teletext_cols) (100 - 2 * default_horizontal_safe_margin_pct))
        (round_he (100 * default_teletext_rows) (100 - 2 * default_vertical_safe_margin_pct))
        (qz default_horizontal_safe_margin_pct / 100, qz default_vertical_safe_margin_pct / 100,
         1 - 2 * qz default_horizontal_safe_margin_pct / 100, 1 - 2 * qz default_vertical_safe_margin_pct / 100)%Q
        (negb (cf_disable_fill_line_gap cfg))
        (if cf_disable_line_padding cfg then None else Some line_padding_length_c)
        (match cf_font_stack cfg with Some fs => fs | None => default_font_stack end)
        (st_regions s) (map snd (commit s)).

Definition reader_model (file : list Z) (cfg : config) : outcome :=
  let g := firstn 1024 file in
  if negb (Nat.eqb (length g) 1024) then Err EStruct else
  match init (unpack_gsi g) cfg with
  | inr e => Err e
  | inl f =>
      match read_blocks (S (length file)) f state0 (skipn 1024 file) with
      | inr e => Err e
      | inl s => Ok (finish f cfg s)
      end
  end.
