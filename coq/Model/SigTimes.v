(* M for C02/C14: transcription of ISD.significant_times (compute_sig_times, the per-region clones of
   _clone_doc_with_one_region, the content interval, _region_always_has_background), of ISD.from_model with
   the significant-times cache, and of ISD.generate_isd_sequence (its sequential branch).  No proofs here. *)
From TT Require Import Model.Doc Gen.StyleTables Model.Isd.

Definition opt_list {A} (o : option A) : list A := match o with Some x => [x] | None => [] end.

(* compute_sig_times.  [fixed = false] is the code: animation steps are offset by the PARENT's interval;
   [fixed = true] is the corrected transcription (the element's own interval, as _process_element uses). *)
Fixpoint sig_elem (fixed : bool) (pb : option Q) (pe : option Q) (e : elem) : list Q :=
  match e with
  | Elem a cs =>
      let iv := make_absolute (e_begin a) (e_end a) pb pe in
      let anim_times :=
        flat_map (fun s => let aiv := if fixed then make_absolute (a_begin s) (a_end s) (Some (fst iv)) (snd iv)
                                      else make_absolute (a_begin s) (a_end s) pb pe in
                           fst aiv :: opt_list (snd aiv)) (e_anims a) in
      (fst iv :: opt_list (snd iv)) ++ anim_times ++
      (fix go (l : list elem) : list Q :=
         match l with [] => [] | c :: l' => sig_elem fixed (Some (fst iv)) (snd iv) c ++ go l' end) cs
  end.

(* sorted(set(...)) *)
Fixpoint qinsert (x : Q) (l : list Q) : list Q :=
  match l with
  | [] => [x]
  | y :: l' => match Qcompare x y with Lt => x :: y :: l' | Eq => y :: l' | Gt => y :: qinsert x l' end
  end.
Definition qsort (l : list Q) : list Q := fold_right qinsert [] l.

(* _clone_doc_with_one_region._copy_content_element: the body restricted to what can appear in region sel *)
Fixpoint restrict (sel : text) (inh : option text) (e : elem) : res (option elem) :=
  match e with
  | Elem a cs =>
      let assoc := match e_region a with Some r => Some r | None => inh end in
      let has_children := match cs with [] => false | _ => true end in
      if negb (oid_eqb assoc (Some sel)) && (negb has_children || match assoc with Some _ => true | None => false end)
      then Ok None
      else
        bind ((fix go (l : list elem) : res (list elem) :=
                 match l with
                 | [] => Ok []
                 | c :: l' => bind (restrict sel assoc c) (fun r =>
                              bind (go l') (fun rs => Ok (match r with Some x => x :: rs | None => rs end)))
                 end) cs) (fun cs' =>
        if is_nonempty_l cs' && negb (push_children_ok (e_kind a) cs') then Err errRubyChildren
        else Ok (Some (Elem a cs')))
  end.

Definition clone_one_region (d : doc) (r : elem) : res doc :=
  match e_id (eattrs r) with
  | None => Err 9
  | Some rid =>
      bind (match d_body d with None => Ok None | Some b => restrict rid None b end) (fun b' =>
      Ok (mkDoc [r] b' (d_initials d) (d_rows d) (d_cols d) (d_pxh d) (d_pxw d) (d_active d) (d_dar d) (d_lang d)))
  end.

(* the documents the cache holds: one clone per region when there are at least two regions *)
Fixpoint clones (d : doc) (rs : list elem) : res (list doc) :=
  match rs with
  | [] => Ok []
  | r :: rs' => bind (clone_one_region d r) (fun c => bind (clones d rs') (fun cs => Ok (c :: cs)))
  end.
Definition cached_docs (d : doc) : res (list doc) :=
  match d_regions d with
  | _ :: _ :: _ => clones d (d_regions d)
  | _ => Ok [d]
  end.

(* _region_always_has_background (specified styles; True as soon as the region is animated) *)
Definition region_always_has_background (a : attrs) : bool :=
  if is_nonempty_l (e_anims a) then true
  else if match sget (e_styles a) p_Opacity with Some (VNum q) => Qeq_bool q 0 | _ => false end then false
  else if match sget (e_styles a) p_Display with Some (VEnum x) => x =? e_DisplayType_none | _ => false end then false
  else if match sget (e_styles a) p_Visibility with Some (VEnum x) => x =? e_VisibilityType_hidden | _ => false end then false
  else if match sget (e_styles a) p_ShowBackground with Some (VEnum x) => x =? e_ShowBackgroundType_whenActive | _ => false end then false
  else if match sget (e_styles a) p_BackgroundColor with Some (VColor c) => c mod 256 =? 0 | _ => false end then false
  else true.

(* the content interval [c0, c1]: c0 = None until something widens it, c1 = None means unbounded *)
Definition widen (ci : option Q * option Q) (iv : Q * option Q) : option Q * option Q :=
  (match fst ci with None => Some (fst iv) | Some c0 => Some (Qmin (fst iv) c0) end,
   match snd iv, snd ci with Some e, Some c1 => Some (Qmax e c1) | _, _ => None end).
Fixpoint content_elem (pb pe : option Q) (e : elem) (ci : option Q * option Q) : option Q * option Q :=
  match e with
  | Elem a cs =>
      let iv := make_absolute (e_begin a) (e_end a) pb pe in
      let ci := match e_kind a with
                | KBr | KSpan => widen ci iv
                | KRegion => if region_always_has_background a then widen ci iv else ci
                | _ => ci
                end in
      (fix go (l : list elem) (ci : option Q * option Q) : option Q * option Q :=
         match l with [] => ci | c :: l' => go l' (content_elem (Some (fst iv)) (snd iv) c ci) end) cs ci
  end.
Definition content_interval (d : doc) : option (Q * option Q) :=
  let ci := fold_left (fun ci r => content_elem None None r ci) (d_regions d) (None, Some 0%Q) in
  let ci := match d_body d with Some b => content_elem None None b ci | None => ci end in
  (* a document without regions whose initial values set a background colour is never skipped (the default
     region may show that colour at any time) *)
  let ci := match d_regions d with
            | [] => if shas (d_initials d) p_BackgroundColor then (None, Some 0%Q) else ci
            | _ => ci
            end in
  match fst ci with None => None | Some c0 => Some (c0, snd ci) end.

Definition doc_times (fixed : bool) (d : doc) : list Q :=
  flat_map (sig_elem fixed None None) (d_regions d) ++
  match d_body d with Some b => sig_elem fixed None None b | None => [] end.

(* ISD.significant_times: the sorted list of distinct times *)
Definition sig_gen (fixed : bool) (d : doc) : res (list Q) :=
  bind (cached_docs d) (fun ds => Ok (qsort (flat_map (doc_times fixed) ds))).
Definition sig (d : doc) : res (list Q) := sig_gen false d.
Definition sig_fixed (d : doc) : res (list Q) := sig_gen true d.

(* ISD.from_model(doc, t, sig_times): each cached document is skipped when t is outside its content interval *)
Definition skip_cached (t : Q) (ci : option (Q * option Q)) : bool :=
  match ci with
  | None => false
  | Some (c0, c1) => Qltb t c0 || match c1 with Some e => Qleb e t | None => false end
  end.
Fixpoint isd_cached_docs (t : Q) (ds : list doc) : res (list elem) :=
  match ds with
  | [] => Ok []
  | c :: ds' =>
      if skip_cached t (content_interval c) then isd_cached_docs t ds'
      else bind (isd c t) (fun rs => bind (isd_cached_docs t ds') (fun rest => Ok (rs ++ rest)))
  end.
Definition isd_cached (d : doc) (t : Q) : res (list elem) :=
  bind (cached_docs d) (fun ds => isd_cached_docs t ds).

(* generate_isd_sequence (sequential branch): the snapshots at the significant times, with the cache *)
Fixpoint isd_sequence_at (d : doc) (ts : list Q) : res (list (Q * list elem)) :=
  match ts with
  | [] => Ok []
  | t :: ts' => bind (isd_cached d t) (fun i => bind (isd_sequence_at d ts') (fun rest => Ok ((t, i) :: rest)))
  end.
Definition isd_sequence (d : doc) : res (list (Q * list elem)) := bind (sig d) (isd_sequence_at d).

(* trigger of the recorded C02 finding: some time of the corrected list is missing from the code's list *)
Definition qmem (x : Q) (l : list Q) : bool := existsb (Qeq_bool x) l.
Definition sig_misses (d : doc) : bool :=
  match sig d, sig_fixed d with
  | Ok l, Ok l' => negb (forallb (fun x => qmem x l) l')
  | _, _ => false
  end.
