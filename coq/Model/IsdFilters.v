(* M for C06/C07, part 1: the four ISD filters the SRT and WebVTT writers run on every snapshot, as functions on
   the snapshot (the list of region elements of Model/Isd.v):
     ttconv/filters/isd/merge_regions.py              RegionsMergingISDFilter.process
     ttconv/filters/isd/merge_paragraphs.py           ParagraphsMergingISDFilter._get_paragraphs / process
     ttconv/filters/isd/supported_style_properties.py + filters/supported_style_properties.py  process_element
     ttconv/filters/isd/default_style_properties.py   DefaultStylePropertyValuesISDFilter._process_element
   The Python filters mutate the snapshot in place; each function returns the snapshot the mutation leaves.
   Iteration over children while removing them goes through `list(...)` copies in the code as it is now
   (merge_regions.py: `for child in list(body)`), so every child is moved.  No proofs here. *)
From TT Require Import Model.Doc Gen.StyleTables Model.Isd.

(* an element created by a filter: Body(isd), Div(isd), P(isd), Br(isd), ISD.Region(id, isd) — no styles, no id
   (except the region), default white-space handling, empty language *)
Definition plain_attrs (k : kind) (id : option text) : attrs := mkAttrs k id None None None [] [] false [] [].
Definition with_styles (a : attrs) (st : smap) : attrs :=
  mkAttrs (e_kind a) (e_id a) (e_begin a) (e_end a) (e_region a) st (e_anims a) (e_preserve a) (e_lang a) (e_text a).

(* "_".join(ids) *)
Fixpoint join_text (sep : text) (l : list text) : text :=
  match l with
  | [] => []
  | [x] => x
  | x :: l' => x ++ sep ++ join_text sep l'
  end.

(* ---- RegionsMergingISDFilter.process ----------------------------------------------------------------- *)
Definition region_id_text (r : elem) : text := match e_id (eattrs r) with Some i => i | None => [] end.
Definition merge_regions (rs : list elem) : list elem :=
  let not_empty_regions := fold_left (fun n r => n + Z.of_nat (length (echildren r))) rs 0 in
  if (Z.of_nat (length rs) <=? 1) || (not_empty_regions <=? 1) then rs
  else
    (* for region: for body in region: for child in list(body): child.remove(); target_body.push_child(child) *)
    let moved := flat_map (fun r => flat_map echildren (echildren r)) rs in
    [Elem (plain_attrs KRegion (Some (join_text [95] (map region_id_text rs)))) [Elem (plain_attrs KBody None) moved]].

(* ---- ParagraphsMergingISDFilter ------------------------------------------------------------------------ *)
(* _get_paragraphs(element): the P children, and recursively those of the Div children, in order *)
Fixpoint get_paragraphs (e : elem) : list elem :=
  match e with
  | Elem _ cs =>
      (fix go (l : list elem) : list elem :=
         match l with
         | [] => []
         | c :: l' => (match e_kind (eattrs c) with KDiv => get_paragraphs c | KP => [c] | _ => [] end) ++ go l'
         end) cs
  end.
Definition br_elem : elem := Elem (plain_attrs KBr None) [].
(* the children of the target paragraph: the children of every paragraph, a Br after each but the last *)
Fixpoint join_paragraphs (ps : list elem) : list elem :=
  match ps with
  | [] => []
  | [p] => echildren p
  | p :: ps' => echildren p ++ br_elem :: join_paragraphs ps'
  end.
Definition merge_paragraphs_body (b : elem) : elem :=
  let paragraphs := flat_map get_paragraphs (echildren b) in
  if Z.of_nat (length paragraphs) <=? 1 then b
  else Elem (eattrs b) [Elem (plain_attrs KDiv None) [Elem (plain_attrs KP None) (join_paragraphs paragraphs)]].
Definition merge_paragraphs (rs : list elem) : list elem :=
  map (fun r => Elem (eattrs r) (map merge_paragraphs_body (echildren r))) rs.

(* ---- SupportedStylePropertiesFilter.process_element ------------------------------------------------------ *)
(* `value in supported_values` / `value == default_value`: equality of the style values the writers' configuration
   dictionaries hold (enumeration members and colours; the table translator rejects anything else) *)
Definition value_eqb (a b : value) : bool :=
  match a, b with
  | VEnum x, VEnum y => x =? y
  | VSpecial x, VSpecial y => x =? y
  | VColor x, VColor y => x =? y
  | VTextDec u l o, VTextDec u' l' o' => (u =? u') && (l =? l') && (o =? o')
  | _, _ => false
  end.
Definition supported_cfg := list (Z * list value).
Definition is_supported (cfg : supported_cfg) (kv : Z * value) : bool :=
  match assoc_z cfg (fst kv) with
  | None => false
  | Some [] => true
  | Some vs => existsb (value_eqb (snd kv)) vs
  end.
Fixpoint filter_supported (cfg : supported_cfg) (e : elem) : elem :=
  match e with
  | Elem a cs =>
      Elem (with_styles a (filter (is_supported cfg) (e_styles a)))
           ((fix go (l : list elem) : list elem :=
               match l with [] => [] | c :: l' => filter_supported cfg c :: go l' end) cs)
  end.

(* ---- DefaultStylePropertyValuesISDFilter._process_element ------------------------------------------------- *)
(* `parent_value is not value` compares OBJECT IDENTITY.  Enumeration members are singletons, so for FontWeight and
   FontStyle identity is equality.  For tts:color (the only other inherited property with a default) two equal
   ColorType objects are the same object when the value reached the child by inheritance (ISD copies the reference)
   or when the document shares colour objects (NamedColors.*.value, as the SCC/STL readers and the generators do).
   The model reads identity as equality of values; a document that specifies the same colour on parent and child
   through two distinct objects keeps a redundant (equal) colour on the child, which changes no style run. *)
Definition value_is (a b : value) : bool := value_eqb a b.
Definition default_removed (dfl : smap) (par : option smap) (kv : Z * value) : bool :=
  let '(p, v) := kv in
  let skip := match par with
              | Some pst => is_inherited p && match sget pst p with Some pv => negb (value_is pv v) | None => false end
              | None => false
              end in
  negb skip && match sget dfl p with Some dv => value_eqb v dv | None => false end.
(* par = the parent's styles after the parent itself was processed (None for a region) *)
Fixpoint filter_defaults (dfl : smap) (par : option smap) (e : elem) : elem :=
  match e with
  | Elem a cs =>
      let st := filter (fun kv => negb (default_removed dfl par kv)) (e_styles a) in
      Elem (with_styles a st)
           ((fix go (l : list elem) : list elem :=
               match l with [] => [] | c :: l' => filter_defaults dfl (Some st) c :: go l' end) cs)
  end.

(* ---- a filter list ------------------------------------------------------------------------------------------ *)
Inductive isd_filter :=
| FMergeRegions
| FMergeParagraphs
| FSupported (cfg : supported_cfg)
| FDefaults (dfl : smap).
Definition apply_filter (f : isd_filter) (rs : list elem) : list elem :=
  match f with
  | FMergeRegions => merge_regions rs
  | FMergeParagraphs => merge_paragraphs rs
  | FSupported cfg => map (filter_supported cfg) rs
  | FDefaults dfl => map (filter_defaults dfl None) rs
  end.
Definition apply_filters (fs : list isd_filter) (rs : list elem) : list elem :=
  fold_left (fun acc f => apply_filter f acc) fs rs.
