(* M for C04 (styling): transcription of the style handling of ttconv/imsc/elements.py — StyleElement.from_xml (attribute
   collection, nested styles of regions), StylingElement.from_xml with merge_chained_styles (flattening of chained referential
   styling: references popped from the end, set-if-absent), InitialElement.from_xml, process_referential_styling (references in
   reverse order, set-if-absent) and process_specified_styling (overwrite) — as functions on Python-dict-like association lists.
   Reading a value ([to_model] = StyleProperty.to_model: None when the attribute is not a style attribute or its value raises
   ValueError / KeyError) and the model's validity test ([valid] = StyleProperty.validate) are parameters; Model/ImscCases.v
   instantiates them with the parsers of Model/ImscWrite.v.
   ContentElement.set_style raises ValueError on an invalid value: that exception is caught (and logged) around specified
   styling, initial values, <set>, referential and nested styling: the value is skipped. *)
From TT Require Import Base.Prelude Base.ImscXml.
From Coq Require Import QArith.
Local Open Scope Z_scope.

Fixpoint dict_has (d : sdict) (p : Z) : bool :=
  match d with [] => false | (k, _) :: d' => (k =? p) || dict_has d' p end.
Fixpoint dict_get (d : sdict) (p : Z) : option sv :=
  match d with [] => None | (k, v) :: d' => if k =? p then Some v else dict_get d' p end.
(* d[p] = v : an existing key keeps its position *)
Fixpoint dict_set (d : sdict) (p : Z) (v : sv) : sdict :=
  match d with
  | [] => [(p, v)]
  | (k, w) :: d' => if k =? p then (k, v) :: d' else (k, w) :: dict_set d' p v
  end.

(* str.split(" ") *)
Fixpoint split_sp (s : text) (cur : text) : list text :=
  match s with
  | [] => [cur]
  | c :: s' => if c =? 32 then cur :: split_sp s' [] else split_sp s' (cur ++ [c])
  end.
(* StyleAttribute.extract *)
Definition style_refs (attrs : list (qname * text)) : list text :=
  match get_attr attrs A_style with Some v => split_sp v [] | None => [] end.

Record sty := mkSty { st_id : text ; st_styles : sdict ; st_refs : list text }.

Section Styling.
  Variable to_model : qname -> text -> option (Z * sv).
  Variable valid : Z -> sv -> bool.

  (* the styles dict of a <style> element: every style attribute that parses to a value the model accepts (a value that is rejected
     raises ValueError, which is logged) *)
  Fixpoint collect (attrs : list (qname * text)) (d : sdict) : sdict :=
    match attrs with
    | [] => d
    | (q, v) :: a' => collect a' (match to_model q v with
                                  | Some (p, x) => if valid p x then dict_set d p x else d
                                  | None => d
                                  end)
    end.

  (* for each (p, x) of src: if not has_style(p): set_style(p, x) — a ValueError of set_style is logged and the value skipped *)
  Fixpoint merge_absent (src : sdict) (d : sdict) : sdict :=
    match src with
    | [] => d
    | (p, x) :: s' => if dict_has d p then merge_absent s' d
                      else if valid p x then merge_absent s' (d ++ [(p, x)]) else merge_absent s' d
    end.

  (* process_specified_styling / initial values: parse and set, errors (also of validation) logged and skipped *)
  Fixpoint apply_specified (attrs : list (qname * text)) (d : sdict) : sdict :=
    match attrs with
    | [] => d
    | (q, v) :: a' =>
        apply_specified a' (match to_model q v with
                            | Some (p, x) => if valid p x then dict_set d p x else d
                            | None => d
                            end)
    end.

  (* the first attribute of a <set> that gives a valid animation step *)
  Fixpoint first_animated (attrs : list (qname * text)) : option (Z * sv) :=
    match attrs with
    | [] => None
    | (q, v) :: a' => match to_model q v with
                      | Some (p, x) => if valid p x then Some (p, x) else first_animated a'
                      | None => first_animated a'
                      end
    end.

  (* ---- the styling table ------------------------------------------------------------------------------------------- *)
  Fixpoint tbl_get (t : list sty) (i : text) : option sty :=
    match t with [] => None | s :: t' => if text_eqb (st_id s) i then Some s else tbl_get t' i end.
  Fixpoint tbl_put (t : list sty) (n : sty) : list sty :=
    match t with [] => [] | s :: t' => if text_eqb (st_id s) (st_id n) then n :: t' else s :: tbl_put t' n end.

  Fixpoint setdefault_all (src : sdict) (d : sdict) : sdict :=
    match src with [] => d | (p, x) :: s' => setdefault_all s' (if dict_has d p then d else d ++ [(p, x)]) end.

  (* merge_chained_styles(style i): while refs: ref = refs.pop(); unknown -> continue; merge(ref); setdefault its styles.
     Every iteration consumes one reference of the table, which bounds the recursion. *)
  Fixpoint merge_chained (fuel : nat) (t : list sty) (i : text) : list sty :=
    match fuel with
    | O => t
    | S k =>
        match tbl_get t i with
        | None => t
        | Some s =>
            match rev (st_refs s) with
            | [] => t
            | r :: rest =>
                let t1 := tbl_put t (mkSty i (st_styles s) (rev rest)) in
                match tbl_get t1 r with
                | None => merge_chained k t1 i
                | Some _ =>
                    let t2 := merge_chained k t1 r in
                    match tbl_get t2 r, tbl_get t2 i with
                    | Some rs, Some s2 => merge_chained k (tbl_put t2 (mkSty i (setdefault_all (st_styles rs) (st_styles s2)) (st_refs s2))) i
                    | _, _ => t2
                    end
                end
            end
        end
    end.

  Definition total_refs (t : list sty) : nat := fold_left (fun a s => (a + length (st_refs s))%nat) t O.

  (* StylingElement.from_xml: initial and style children in order; then every registered style is flattened *)
  Fixpoint read_styling (l : list xml) (t : list sty) (ini : sdict) : list sty * sdict :=
    match l with
    | [] => (t, ini)
    | c :: l' =>
        if qname_eqb (x_tag c) T_initial then read_styling l' t (apply_specified (x_attrs c) ini)
        else if qname_eqb (x_tag c) T_style then
          match get_attr (x_attrs c) A_id with
          | None => read_styling l' t ini                                   (* "A style element must have an id" *)
          | Some i => match tbl_get t i with
                      | Some _ => read_styling l' t ini                     (* "Duplicate style id" *)
                      | None => read_styling l' (t ++ [mkSty i (collect (x_attrs c) []) (style_refs (x_attrs c))]) ini
                      end
          end
        else read_styling l' t ini
    end.

  Definition flatten (t : list sty) : list sty :=
    fold_left (fun acc s => merge_chained (S (2 * total_refs acc + length acc)) acc (st_id s)) t t.

  (* process_referential_styling: references in reverse order, set-if-absent *)
  Fixpoint referential (t : list sty) (refs_rev : list text) (d : sdict) : sdict :=
    match refs_rev with
    | [] => d
    | r :: rest => match tbl_get t r with
                   | None => referential t rest d                            (* "non existant style id" *)
                   | Some s => referential t rest (merge_absent (st_styles s) d)
                   end
    end.
End Styling.
