(* helpers evaluated by the generated C15 case files (coq/Gen/Cases_C15_*.v).  A case is one history:
   the initial universe, and for every call the outcome class observed on the real code, the value it
   returned (read-only methods) and the elements / documents whose dump changed (the harness dumps the
   whole object graph through getters after every call and prints only the entries that differ from the
   previous dump).
     model_ok   : at every step M's heap = the code's heap, M's outcome class = the code's and M's
                  returned value = the code's
     spec_ok    : S (wf_b, atomicity of rejected single-element calls) accepts the code's own state at
                  every step
     rep_ok     : the representation invariant (Model/HeapRep.v rep_b) holds of the code's own state
     pca_ok     : a rejected Ruby/Rtc push_children leaves the code's state unchanged *)
From Coq Require Import List Arith Bool.
From TT Require Import Base.HeapTypes Model.Heap Model.HeapRep Spec.ModelWF.
Import ListNotations.

Definition stepobs := (call * nat * rval * list (nat * node) * list (nat * docrec))%type.
Record hist := mkHist { hi_elems : list (kind * option nat * option nat) ; hi_ndocs : nat ; hi_steps : list stepobs }.

Definition outcome_code (o : outcome) : nat :=
  match o with
  | OOk => 0 | ORaised ERuntime => 1 | ORaised EValue => 2 | ORaised EType => 3 | ORaised EAttr => 4
  | ORaised EIndex => 5 | ORaised EFuel => 9
  end.
Definition exn_eq_dec (a b : exn) : {a = b} + {a <> b}. Proof. decide equality. Defined.
Definition rval_eq_dec (a b : rval) : {a = b} + {a <> b}.
Proof.
  decide equality; try apply Bool.bool_dec; try apply Nat.eq_dec; try apply onat_eq_dec; try apply exn_eq_dec;
    try (apply list_eq_dec, Nat.eq_dec). decide equality. apply sval_eq_dec.
Defined.
Definition rval_eqb (a b : rval) : bool := if rval_eq_dec a b then true else false.

Definition put {A} (l : list A) (i : nat) (x : A) : list A := upd l i (fun _ => x).
Definition apply_delta (h : heap) (dn : list (nat * node)) (dd : list (nat * docrec)) : heap :=
  mkHeap (fold_left (fun l e => put l (fst e) (snd e)) dn (h_nodes h))
         (fold_left (fun l e => put l (fst e) (snd e)) dd (h_docs h)).

(* verdict of one history: the first step at which each judgement fails *)
Record verdict := mkV {
  v_model : option nat ;
  v_spec : option nat ;
  v_rep : option nat ;
  v_pca : option nat ;
  v_nsteps : nat }.

Definition first_of (a : option nat) (i : nat) (ok : bool) : option nat :=
  match a with Some _ => a | None => if ok then None else Some i end.
Definition ordered_push (h : heap) (c : call) : bool :=
  match c with
  | CPushChildren s _ => ordered_kind (kind_of h s)
  | _ => false
  end.

Fixpoint eval_steps (i : nat) (hc : heap) (steps : list stepobs) (v : verdict) : verdict :=
  match steps with
  | [] => v
  | (c, oc, rv, dn, dd) :: t =>
    let '(hm', om) := step hc c in                  (* M runs from the code's state: no cascades *)
    let hc' := apply_delta hc dn dd in
    let m_ok := heap_eqb hm' hc' && Nat.eqb (outcome_code om) oc &&
                (negb (Nat.eqb oc 0) || negb (call_ok hc c) || rval_eqb (result hc c) rv) in
    let atomic_ok := negb (single_element c) || Nat.eqb oc 0 || heap_eqb hc hc' in
    let s_ok := wf_b hc' && atomic_ok in
    let pca := negb (ordered_push hc c) || Nat.eqb oc 0 || heap_eqb hc hc' in
    eval_steps (S i) hc' t
      (mkV (first_of (v_model v) i m_ok) (first_of (v_spec v) i s_ok) (first_of (v_rep v) i (rep_b hc'))
           (first_of (v_pca v) i pca) (S (v_nsteps v)))
  end.

Definition eval_hist (x : hist) : verdict :=
  let h0 := init (hi_elems x) (hi_ndocs x) in
  let v0 := mkV None (if wf_b h0 then None else Some 0) (if rep_b h0 then None else Some 0) None 0 in
  eval_steps 0 h0 (hi_steps x) v0.

Definition none_b (o : option nat) : bool := match o with None => true | Some _ => false end.
Fixpoint bad_from (i : nat) (l : list bool) : list nat :=
  match l with [] => [] | true :: t => bad_from (S i) t | false :: t => i :: bad_from (S i) t end.
Definition check_all (l : list bool) : nat * list nat := (length l, bad_from 0 l).

Definition model_ok (vs : list verdict) := check_all (map (fun v => none_b (v_model v)) vs).
Definition spec_ok (vs : list verdict) := check_all (map (fun v => none_b (v_spec v)) vs).
Definition rep_ok (vs : list verdict) := check_all (map (fun v => none_b (v_rep v)) vs).
Definition pca_ok (vs : list verdict) := check_all (map (fun v => none_b (v_pca v)) vs).
Definition total_steps (vs : list verdict) : nat := fold_left (fun a v => a + v_nsteps v) vs 0.

(* details of one history for a replay file: per step (model agrees, S clauses
   [links; acyclic; doc; content; regions; values], atomic, representation invariant, M's outcome, M's value) *)
Fixpoint explain_steps (hc : heap) (steps : list stepobs) : list (bool * list bool * bool * bool * nat * rval) :=
  match steps with
  | [] => []
  | (c, oc, rv, dn, dd) :: t =>
    let '(hm', om) := step hc c in
    let hc' := apply_delta hc dn dd in
    (heap_eqb hm' hc' && Nat.eqb (outcome_code om) oc, wf_report hc',
     negb (single_element c) || Nat.eqb oc 0 || heap_eqb hc hc', rep_b hc', outcome_code om, result hc c)
      :: explain_steps hc' t
  end.
Definition explain (x : hist) := explain_steps (init (hi_elems x) (hi_ndocs x)) (hi_steps x).
(* the nodes on which M and the code differ after step k (model's node, code's node) *)
Fixpoint diff_nodes (i : nat) (a b : list node) : list (nat * node * node) :=
  match a, b with
  | x :: a', y :: b' => (if node_eq_dec x y then [] else [(i, x, y)]) ++ diff_nodes (S i) a' b'
  | _, _ => []
  end.
Fixpoint state_before (hc : heap) (steps : list stepobs) (k : nat) : heap * option stepobs :=
  match steps, k with
  | [], _ => (hc, None)
  | s :: _, O => (hc, Some s)
  | (c, oc, rv, dn, dd) :: t, S k' => state_before (apply_delta hc dn dd) t k'
  end.
Definition diff_at (x : hist) (k : nat) :=
  match state_before (init (hi_elems x) (hi_ndocs x)) (hi_steps x) k with
  | (hc, Some (c, oc, rv, dn, dd)) =>
    let hm' := fst (step hc c) in let hc' := apply_delta hc dn dd in
    (diff_nodes 0 (h_nodes hm') (h_nodes hc'), h_docs hm', h_docs hc')
  | (hc, None) => ([], [], [])
  end.

(* short names used by the literal printer *)
Notation N_ := mkNode (only parsing).
Notation D_ := mkDoc (only parsing).
Notation H_ := mkHist (only parsing).
