(* helpers evaluated by the generated C08 case files: literals, the comparison of M's document with the
   implementation's (oracle 1), and the evaluation of the reference screen S (Spec/Cea608Screen.v) against the
   implementation's document (oracle 2: strict oracle, the grid of weaker oracles, trigger flags). *)
From Coq Require Import QArith String Ascii.
From TT Require Import Base.Prelude Base.SccTypes Base.SccDoc Model.SccWord Model.TimeCode Model.SccReader.
Open Scope Z_scope.

Fixpoint text_of_string (s : string) : text :=
  match s with EmptyString => [] | String a s' => Z.of_N (N_of_ascii a) :: text_of_string s' end.
Definition qz (n d : Z) : Q := Qmake n (Z.to_pos d).

Definition opt_eqb {A} (e : A -> A -> bool) (a b : option A) : bool :=
  match a, b with Some x, Some y => e x y | None, None => true | _, _ => false end.
Fixpoint list_eqb {A} (e : A -> A -> bool) (a b : list A) : bool :=
  match a, b with
  | [], [] => true
  | x :: a', y :: b' => e x y && list_eqb e a' b'
  | _, _ => false
  end.
Definition tstyle_eqb (a b : tstyle) : bool :=
  (ts_color a =? ts_color b) && Bool.eqb (ts_italic a) (ts_italic b) && Bool.eqb (ts_under a) (ts_under b) &&
  (ts_bg a =? ts_bg b).
Definition childq_eqb (a b : childq) : bool :=
  match a, b with
  | QBr, QBr => true
  | QSpan b1 s1 t1, QSpan b2 s2 t2 => opt_eqb Qeq_bool b1 b2 && tstyle_eqb s1 s2 && text_eqb t1 t2
  | _, _ => false
  end.
Definition pair_eqb (a b : Z * Z) : bool := (fst a =? fst b) && (snd a =? snd b).
Definition pq_eqb (a b : pq) : bool :=
  opt_eqb Z.eqb (q_id a) (q_id b) && opt_eqb Qeq_bool (q_begin a) (q_begin b) && opt_eqb Qeq_bool (q_end a) (q_end b) &&
  pair_eqb (q_region a) (q_region b) && opt_eqb Z.eqb (q_align a) (q_align b) &&
  list_eqb childq_eqb (q_children a) (q_children b).
Definition region_eqb (a b : region) : bool :=
  (r_kind a =? r_kind b) && (r_num a =? r_num b) && (r_ox a =? r_ox b) && (r_oy a =? r_oy b) &&
  (r_ew a =? r_ew b) && (r_eh a =? r_eh b) && Bool.eqb (r_after a) (r_after b).
Definition doc_eqb (a b : doc) : bool :=
  match a, b with
  | DocErr, DocErr => true
  | Doc r1 p1, Doc r2 p2 => list_eqb region_eqb r1 r2 && list_eqb pq_eqb p1 p2
  | _, _ => false
  end.

(* one case: configuration, the lines of the file (str.splitlines() of the content) and the implementation's
   canonicalised document *)
Record case := mkCase { k_talign : Z ; k_lines : list string ; k_doc : doc }.
Definition case_model (k : case) : bool := doc_eqb (to_model (k_talign k) (map text_of_string (k_lines k))) (k_doc k).
Definition cases_model (ks : list case) : list bool := map case_model ks.

(* ---- the functions of scc/line.py and scc/config.py that to_model does not call: SccLine.get_style (words of a line, style
   value) and TextAlignment.from_value (string, configuration index or -1 for ValueError) ---- *)
Definition style_case (k : list Z * Z) : bool := line_style (fst k) =? snd k.
Definition align_case (k : string * Z) : bool :=
  match text_align_of (text_of_string (fst k)) with Some i => i =? snd k | None => snd k =? -1 end.

(* ---- oracle 2: the reference screen S (Spec/Cea608Screen.v) against the implementation's document ---- *)
From TT Require Import Spec.Cea608Screen.
(* a judged case: the stream as parsed by the harness (one rate per stream), the raw lines, the configuration and
   the implementation's document *)
Record scase := mkSCase { s_df : bool ; s_lines : list sline ; s_case : case }.
(* trigger of the finding "paragraph attached to a region that starts above it": some pushed paragraph lies in a
   top-aligned region whose origin row is not the paragraph's own (flag 256) *)
Definition tABOVE := 256.
Definition region_above (c : ctx) : bool :=
  existsb (fun o => existsb (fun r => (r_kind r =? fst (o_region o)) && (r_num r =? snd (o_region o)) && negb (r_after r) &&
                                      negb (r_oy r =? pct_y (snd (o_origin o)))) (c_regions c)) (c_out c).
Definition none_code := -1000000000.
Definition optz (o : option Z) : Z := match o with Some f => f | None => none_code end.
(* what the check needs of one case: the first frame rejected (none_code: accepted everywhere) by
     - the property as stated (the standard, S_word, everything compared),
     - the nine oracles with the recorded deviations admitted (granularity 0..2 x view 0..2),
   then the trigger flags of the stream (Spec/Cea608Screen.v triggers) *)
Definition case_spec (k : scase) : list Z :=
  let d := k_doc (s_case k) in
  let ls := s_lines k in
  let seen := seen_rows (s_df k) d (frame_range ls) in
  optz (oracle dev0 0 0 ls seen) ::
  flat_map (fun g => map (fun vw => optz (oracle dev_all g vw ls seen)) [0; 1; 2]) [0; 1; 2] ++
  [Z.lor (triggers ls) (if region_above (run_lines (k_talign (s_case k)) (map text_of_string (k_lines (s_case k)))) then tABOVE else 0)].
(* the harness' parse of the file agrees with M's from_str (time code label, rate, words) *)
Definition parsed_lines (ls : list string) : list (tcv * list Z) :=
  flat_map (fun l => match from_str (text_of_string l) with LOk t ws => [(t, ws)] | _ => [] end) ls.
Definition sline_eqb (a : tcv * list Z) (b : sline) : bool :=
  let '((h, m, s, f), r) := fst a in
  (h =? sl_h b) && (m =? sl_m b) && (s =? sl_s b) && (f =? sl_f b) &&
  (if sl_df b then (rn r =? 30000) && (rd r =? 1001) else (rn r =? 30) && (rd r =? 1)) &&
  list_eqb Z.eqb (snd a) (sl_words b) &&
  (* S's frame count of the label (SMPTE counting) is the code's to_frames *)
  (tc_frames (fst a) =? frame_of b).
Fixpoint list_eqb2 {A B} (e : A -> B -> bool) (a : list A) (b : list B) : bool :=
  match a, b with [], [] => true | x :: a', y :: b' => e x y && list_eqb2 e a' b' | _, _ => false end.
Definition case_parse (k : scase) : bool := list_eqb2 sline_eqb (parsed_lines (k_lines (s_case k))) (s_lines k).

(* ---- small streams written by hand (Findings/C08.v, Properties/C08.v examples) ---- *)
(* a line: time code, tab, words *)
Definition ln (tc ws : string) : string := (tc ++ String "009"%char ws)%string.
(* the stream as S reads it, through M's own parser (labels, rate, words) *)
Definition slines_of (ls : list string) : list sline :=
  map (fun x : tcv * list Z => let '((h, m, s, f), r) := fst x in mkSL (is_df r) h m s f (snd x)) (parsed_lines ls).
(* the first frame at which oracle (deviations, granularity, view) rejects M's own document; None = accepted *)
Definition model_vs_S (v : dev) (gran view : Z) (ls : list string) : option Z :=
  let sl := slines_of ls in
  oracle v gran view sl (seen_rows false (to_model 0 (map text_of_string ls)) (frame_range sl)).
