(* Evaluation helpers for the C02/C14 case files. *)
From TT Require Import Model.Doc Gen.StyleTables Model.Isd Model.SigTimes Model.IsdCases.

Definition sig_close (m : res (list Q)) (py : option (list Q)) : bool :=
  match m, py with
  | Ok a, Some b => list_close Qeq_bool a b
  | Err _, None => true
  | _, _ => false
  end.
Definition cases_cached (d : doc) (qs : list (Q * option (list elem))) : list bool :=
  map (fun q => outcome_close (isd_cached d (fst q)) (snd q)) qs.
