(* Evaluation helpers for the C02/C14 case files. *)
From TT Require Import Model.Doc Gen.StyleTables Model.Isd Model.SigTimes Model.IsdCases.

Definition sig_close (m : res (list Q)) (py : option (list Q)) : bool :=
  match m, py with
  | Ok a, Some b => list_close Qeq_bool a b
  | Err _, None => true
  | _, _ => false
  end.
Definition cases_cached (d : doc) (qs : list (Q * option (list elem))) : list bool :=
  map (fun q => outcome_close (isd_cached d (fst q)) (snd q)) qs.

(* S of C14 on the implementation's snapshots: cached and uncached render identically *)
From TT Require Import Spec.RenderSpec.
Definition render_same (a b : option (list elem)) : bool :=
  match a, b with
  | Some x, Some y => isd_close (render x) (render y)
  | _, _ => true     (* a snapshot that raises is judged by C18 (and C01's recorded finding), not here *)
  end.
Definition cases_render (qs : list (option (list elem) * option (list elem))) : list bool :=
  map (fun q => render_same (fst q) (snd q)) qs.

(* the cached path must not raise where the uncached path returns a snapshot (the converse is not claimed: the clones
   drop more before Ruby.push_children looks) *)
Definition raise_same (a b : option (list elem)) : bool := match a, b with None, Some _ => false | _, _ => true end.
Definition cases_raise (qs : list (option (list elem) * option (list elem))) : list bool :=
  map (fun q => raise_same (fst q) (snd q)) qs.
(* per document: is it inside the hypotheses of the C14 theorems (well formed; the recorded trigger does not fire) *)
From TT Require Import Model.CloneTrigger Spec.DocWf Model.IsdCache.
Definition c14_flags (d : doc) : list bool := [doc_wf d; negb (clone_empties_doc d)].
(* the explicit-cache transcription on a history of query times: one SignificantTimes object, all answers *)
Definition history_close (d : doc) (qs : list (Q * option (list elem))) : list bool :=
  match cached_docs d with
  | Ok ds => map (fun x => outcome_close (fst x) (snd (snd x))) (combine (fst (run_history (map fst qs) (built_state ds))) qs)
  | Err _ => map (fun _ => false) qs
  end.
