(* M for C04 / C05 (document parameters on <tt>): transcription of ttconv/imsc/attributes.py CellResolutionAttribute.extract,
   ExtentAttribute.extract, ActiveAreaAttribute.extract, AspectRatioAttribute.extract, DisplayAspectRatioAttribute.extract and of their
   use in TTElement.from_xml.  A value that is malformed (or that the model rejects: a zero term, a pixel extent that is not a pair of
   positive integers in px, an active area outside the root container) is logged and ignored: the default / absence is what is read.
   Numbers are Q (the code divides the percentages of ittp:activeArea in binary floating point: compared with a tolerance). *)
From TT Require Import Base.Prelude Base.ImscXml Model.ImscTime Model.ImscWrite Model.ImscWriteTree.
From Coq Require Import String QArith.
Local Open Scope Z_scope.

Definition A_aspectRatio : qname := Eval vm_compute in (NS_ITTP, tx "aspectRatio"%string).

(* ttp:cellResolution: (columns, rows); default 32 x 15 *)
Definition extract_cell_resolution (attrs : list (qname * text)) : Z * Z :=
  match get_attr attrs A_cellResolution with
  | Some raw => match int_pair raw with
                | Some (c, r) => if (0 <? c) && (0 <? r) then (c, r) else (32, 15)
                | None => (32, 15)
                end
  | None => (32, 15)
  end.

Definition q_is_integer (v : Q) : bool := Zpos (Qden (Qred v)) =? 1.
Definition q_to_int (v : Q) : Z := Qnum (Qred v).

(* tts:extent on tt: (width, height) in pixels *)
Definition extract_px (attrs : list (qname * text)) : option (Z * Z) :=
  match get_attr attrs A_extent_tt with
  | None => None
  | Some raw =>
      match split_on 32 raw [] with
      | [a; b] =>
          match parse_len a, parse_len b with
          | Some w, Some h =>
              if (l_unit w =? U_px) && (l_unit h =? U_px) then
                if q_is_integer (l_val w) && q_is_integer (l_val h) then
                  let wi := q_to_int (l_val w) in let hi := q_to_int (l_val h) in
                  if (0 <? wi) && (0 <? hi) then Some (wi, hi) else None
                else None
              else None
          | _, _ => None
          end
      | _ => None
      end
  end.

Definition in_unit (v : Q) : bool := Qle_bool 0 v && Qle_bool v 1.
(* ittp:activeArea: (left, top, width, height) as fractions of the root container *)
Definition extract_active_area (attrs : list (qname * text)) : option (Q * Q * Q * Q) :=
  match get_attr attrs A_activeArea with
  | None => None
  | Some raw =>
      match split_on 32 raw [] with
      | [a; b; c; d] =>
          match parse_len a, parse_len b, parse_len c, parse_len d with
          | Some l, Some t, Some w, Some h =>
              if (l_unit l =? U_pct) && (l_unit t =? U_pct) && (l_unit w =? U_pct) && (l_unit h =? U_pct) then
                let f (x : len) := (l_val x / inject_Z 100)%Q in
                if in_unit (f l) && in_unit (f t) && in_unit (f w) && in_unit (f h) then Some (f l, f t, f w, f h) else None
              else None
          | _, _, _, _ => None
          end
      | _ => None
      end
  end.

Definition ratio_of (raw : option text) : option Q :=
  match raw with
  | Some s => match int_pair s with
              | Some (n, d) => if (n =? 0) || (d =? 0) then None else Some (inject_Z n / inject_Z d)%Q
              | None => None
              end
  | None => None
  end.
(* ttp:displayAspectRatio wins over ittp:aspectRatio *)
Definition extract_dar (attrs : list (qname * text)) : option Q :=
  match ratio_of (get_attr attrs A_displayAspectRatio) with
  | Some r => Some r
  | None => ratio_of (get_attr attrs A_aspectRatio)
  end.

(* ---- case helpers ------------------------------------------------------------------------------------------------------------------ *)
Definition zpair_eqb (a b : Z * Z) : bool := (fst a =? fst b) && (snd a =? snd b).
Definition oq_eqb' (a b : option Q) : bool := match a, b with None, None => true | Some x, Some y => Qeq_bool x y | _, _ => false end.
(* |a - b| <= 1e-12 *)
Definition q_close (a b : Q) : bool := Qle_bool ((a - b) * (a - b)) (1 # 1000000000000000000000000).
Definition case_tt_params (attrs : list (qname * text)) (cell : Z * Z) (px : option (Z * Z)) (aa : option (Q * Q * Q * Q)) (dar : option Q) : bool :=
  zpair_eqb (extract_cell_resolution attrs) cell &&
  match extract_px attrs, px with None, None => true | Some a, Some b => zpair_eqb a b | _, _ => false end &&
  match extract_active_area attrs, aa with
  | None, None => true
  | Some (a1, a2, a3, a4), Some (b1, b2, b3, b4) => q_close a1 b1 && q_close a2 b2 && q_close a3 b3 && q_close a4 b4
  | _, _ => false
  end &&
  oq_eqb' (extract_dar attrs) dar.
