(* helpers evaluated by the generated C17 case files: the implementation's decoded view of a range of
   words (as lists of 11 integers) against M (decode) and against S (spec_ok) *)
From TT Require Import Base.Prelude Base.SccTypes Model.SccWord Spec.Cea608Words.

Definition dec_of_list (l : list Z) : dec :=
  match l with
  | [a; b; c; d; e; f; g; h; i; j; k] => mkDec a b c d e f (g =? 1) (h =? 1) (i =? 1) j k
  | _ => mkDec (-9) 0 0 0 0 0 false false false 0 0
  end.
Fixpoint cases_model (w : Z) (py : list (list Z)) : list bool :=
  match py with [] => [] | l :: py' => dec_eqb (decode w) (dec_of_list l) :: cases_model (w + 1) py' end.
Fixpoint cases_spec (w : Z) (py : list (list Z)) : list bool :=
  match py with [] => [] | l :: py' => (trigger_caret w || spec_ok w (dec_of_list l)) :: cases_spec (w + 1) py' end.
(* S with no finding excused: used to confirm that a recorded finding still fires *)
Fixpoint cases_spec_strict (w : Z) (py : list (list Z)) : list bool :=
  match py with [] => [] | l :: py' => spec_ok w (dec_of_list l) :: cases_spec_strict (w + 1) py' end.
