(* Evaluation helpers: S of C01 (Spec/IsdSpec.v) applied to the implementation's snapshots. *)
From TT Require Import Model.Doc Gen.StyleTables Model.Isd Model.IsdCases Spec.IsdSpec.

Fixpoint find_region (regs : list elem) (id : option text) : option elem :=
  match regs with
  | [] => None
  | r :: regs' => if oid_eqb (e_id (eattrs r)) id then Some r else find_region regs' id
  end.
Definition doc_regions (d : doc) : list elem := match d_regions d with [] => [default_region] | l => l end.
Definition region_sel (d : doc) (r : elem) : option text := match d_regions d with [] => None | _ => e_id (eattrs r) end.

(* every region shows exactly the leaves the specification prescribes, and the snapshot has no other region *)
Definition spec_leaves_ok (d : doc) (t : Q) (py : list elem) : bool :=
  forallb (fun r => list_close leaf_eqb (leaves_spec d t (eattrs r) (region_sel d r))
                                 (match find_region py (e_id (eattrs r)) with Some x => shown_leaves x | None => [] end))
          (doc_regions d) &&
  forallb (fun x => existsb (fun r => oid_eqb (e_id (eattrs r)) (e_id (eattrs x))) (doc_regions d)) py.

Definition cases_leaves (d : doc) (qs : list (Q * option (list elem))) : list bool :=
  map (fun q => match snd q with Some py => spec_leaves_ok d (fst q) py | None => true end) qs.
(* the model's outcome is the Ruby/Rtc.push_children failure (recorded finding) *)
Definition cases_ruby_err (d : doc) (qs : list (Q * option (list elem))) : list bool :=
  map (fun q => match isd d (fst q) with Err c => negb (c =? errRubyChildren) | Ok _ => true end) qs.
