(* M for C17: transcription of ttconv/scc/word.py (SccWord), SccCode.get_channel/contains_value and
   SccPreambleAddressCode, over the enum tables regenerated from the source (Gen/SccTables.v). *)
From TT Require Import Base.Prelude Base.SccTypes Gen.SccTables.

(* from_value -> from_bytes: parity bits removed *)
Definition byte1 (w : Z) : Z := Z.land (w / 256) parity_mask.
Definition byte2 (w : Z) : Z := Z.land (w mod 256) parity_mask.
Definition value (w : Z) : Z := byte1 w * 256 + byte2 w.

(* is_code: 0x10 <= byte_1 <= 0x1F *)
Definition is_code (b1 : Z) : bool := (16 <=? b1) && (b1 <=? 31).

(* SccXxx.find: first enum member (definition order) one of whose values is v *)
Fixpoint find_control (l : list (Z * (Z * Z * Z * Z))) (v : Z) : option (Z * (Z * Z * Z * Z)) :=
  match l with
  | [] => None
  | (id, (a, b, c, d)) :: l' =>
      if (v =? a) || (v =? b) || (v =? c) || (v =? d) then Some (id, (a, b, c, d)) else find_control l' v
  end.
Fixpoint find2 {A} (l : list (Z * Z * A)) (v : Z) : option (Z * Z * A) :=
  match l with
  | [] => None
  | (a, b, x) :: l' => if (v =? a) || (v =? b) then Some (a, b, x) else find2 l' v
  end.
(* SccCode.get_channel: only the first two values are known to the base class *)
Definition channel_of (a b v : Z) : Z := if v =? a then 1 else if v =? b then 2 else 0.

Fixpoint assoc2 (l : list (Z * Z * Z)) (a b : Z) : option Z :=
  match l with
  | [] => None
  | (x, y, r) :: l' => if (a =? x) && (b =? y) then Some r else assoc2 l' a b
  end.
Fixpoint assoc {A} (l : list (Z * A)) (k : Z) : option A :=
  match l with
  | [] => None
  | (x, r) :: l' => if k =? x then Some r else assoc l' k
  end.

(* SccPreambleAddressCode._get_row / _get_description_bits / __init__ *)
Definition pac_row (b1 b2 : Z) : option Z :=
  if (16 <=? b1) && (b1 <? 32) then assoc2 row_mapping ((Z.land b1 15) mod 8) (Z.land b2 96) else None.
Definition find_pac (b1 b2 : Z) : option dec :=
  match pac_row b1 b2 with
  | None => None
  | Some row =>
      if (64 <=? b2) && (b2 <? 128) then
        match assoc pac_desc (Z.land b2 31) with
        | Some (col, ind, it, un) =>
            Some (mkDec cPac (if Z.land b1 8 =? 0 then 1 else 2) (-1) row ind col it un false (-1) (-1))
        | None => None
        end
      else None
  end.

(* to_text: ''.join(MAPPING.get(byte, chr(byte)) for byte in [b1, b2] if byte != 0) *)
Definition char_of (b : Z) : Z := if b =? 0 then -1 else match assoc std_chars b with Some c => c | None => b end.
Definition to_text (w : Z) : list Z := filter (fun c => negb (c =? -1)) [char_of (byte1 w); char_of (byte2 w)].

(* _find_code with its lookup order Control, Attribute, MidRow, PAC, Special, Extended; get_channel *)
Definition decode (w : Z) : dec :=
  let b1 := byte1 w in let b2 := byte2 w in let v := value w in
  if is_code b1 then
    match find_control control_codes v with
    | Some (id, (a, b, _, _)) => mkDec cControl (channel_of a b v) id (-1) (-1) (-1) false false false (-1) (-1)
    | None =>
    match find2 attribute_codes v with
    | Some (a, b, (col, bg, un)) => mkDec cAttr (channel_of a b v) a (-1) (-1) col false un bg (-1) (-1)
    | None =>
    match find2 mid_row_codes v with
    | Some (a, b, (col, it, un)) => mkDec cMidRow (channel_of a b v) a (-1) (-1) col it un false (-1) (-1)
    | None =>
    match find_pac b1 b2 with
    | Some d => d
    | None =>
    match find2 special_chars v with
    | Some (a, b, u) => mkDec cSpecial (channel_of a b v) a (-1) (-1) (-1) false false false u (-1)
    | None =>
    match find2 extended_chars v with
    | Some (a, b, u) => mkDec cExtended (channel_of a b v) a (-1) (-1) (-1) false false false u (-1)
    | None => mkDec cUnknown 0 (-1) (-1) (-1) (-1) false false false (-1) (-1)
    end end end end end end
  else if v =? 0 then mkDec cPad 0 (-1) (-1) (-1) (-1) false false false (-1) (-1)
  else if b1 <? 32 then mkDec cUnknown 0 (-1) (-1) (-1) (-1) false false false (-1) (-1)
  else mkDec cChars 0 (-1) (-1) (-1) (-1) false false false (char_of b1) (char_of b2).

(* how many of the seven code tables match a value (for the overlap-freeness theorem) *)
Definition b2z (b : bool) : Z := if b then 1 else 0.
Definition match_count (w : Z) : Z :=
  let b1 := byte1 w in let b2 := byte2 w in let v := value w in
  b2z (match find_control control_codes v with Some _ => true | None => false end) +
  b2z (match find2 attribute_codes v with Some _ => true | None => false end) +
  b2z (match find2 mid_row_codes v with Some _ => true | None => false end) +
  b2z (match find_pac b1 b2 with Some _ => true | None => false end) +
  b2z (match find2 special_chars v with Some _ => true | None => false end) +
  b2z (match find2 extended_chars v with Some _ => true | None => false end).
(* number of entries of one table matching a value (each code is listed once) *)
Definition entries_matching (w : Z) : Z :=
  let v := value w in
  Z.of_nat (length (filter (fun '(_, (a, b, c, d)) => (v =? a) || (v =? b) || (v =? c) || (v =? d)) control_codes)) +
  Z.of_nat (length (filter (fun '(a, b, _) => (v =? a) || (v =? b)) attribute_codes)) +
  Z.of_nat (length (filter (fun '(a, b, _) => (v =? a) || (v =? b)) mid_row_codes)) +
  Z.of_nat (length (filter (fun '(a, b, _) => (v =? a) || (v =? b)) special_chars)) +
  Z.of_nat (length (filter (fun '(a, b, _) => (v =? a) || (v =? b)) extended_chars)).

(* finite universal quantification used by the C17 theorems *)
Fixpoint all_from (k : nat) (i : Z) (p : Z -> bool) : bool :=
  match k with O => true | S k' => p i && all_from k' (i + 1) p end.
