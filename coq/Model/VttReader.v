(* M for C11, part 2: ttconv/vtt/reader.py transcribed: vtt_timestamp_to_secs, parse_vtt_pct, parse_vtt_int,
   _get_or_make_region, _TextCueParser, to_model.

   Conventions
   * a file is a text (code points); `readlines()` of an io.StringIO splits after every LF and keeps it.
   * times are Q values k/1000 (unreduced; compare with Qeq_bool); the code builds
     int*3600 + int*60 + int + Fraction(ms, 1000), which is exact.
   * the region geometry is computed by the code in binary floating point from small integers; here it is
     computed in Q with the constants 100/23, 100/40 taken exactly.  The correspondence check compares the
     two within 1e-9 (percent).  Region *identity* (dataclass equality of floats in the code) is modelled by
     Qeq_bool.
   * `round(float(s))` in parse_vtt_pct is modelled as exact round-half-even of the decimal; the two agree
     whenever the literal has at most 15 significant digits (both k+1/2 and the literal are then exactly
     distinguishable doubles), and for every literal above 101 whatever its length: a literal beyond the float
     range reads as infinity, which the code rejects like any value above 100 (math.isfinite, 0892ca3); `\d` is
     taken as ASCII 0-9 (the code also accepts other Unicode decimal digits).  The generator stays inside these
     restrictions.
   * the document tree built by _TextCueParser is modelled by a zipper: `p_stack` holds one frame per entry of
     self.open_tags (2ddde69), innermost first, with the element that start tag opened; the `parent` pointer is the
     element of the first frame (the paragraph when there is none).  An end tag pops a frame only when it names it
     (or names the ruby whose <rt> is the innermost frame); nothing can move the parent above the paragraph any more.
     Elements are attached to their parent when their frame is closed (at the latest at the end of the cue text);
     an Rt is attached to the Rtc of the open Ruby in the order of the <rt> start tags (slots, see `frame`).
   * a timestamp tag adds no element: it sets `self.begin` (p_begin), which every text span created afterwards
     carries as its begin relative to the cue (f39339e).
   * the cue box is limited to the root container: parse_vtt_pct rejects values above 100, line numbers beyond the
     grid are moved onto it, the size is limited by the position (WebVTT 7.2 maximum size) and by the default origin.
   * Python exceptions that escape to_model are an explicit outcome (only TypeError / RuntimeError are left).
   No proofs in this file. *)
From Coq Require Import QArith Qminmax.
From TT Require Import Base.Prelude Gen.VttTables Model.VttTokenizer.
Local Open Scope Z_scope.

(* the exception classes the check can name.  The model itself only ever produces ExType / ExRuntime (push_child refusing
   a child): Proofs/C11/Outcome.v proves that the other branches below (marked `never`) are dead for every input *)
Inductive exn := ExAttribute | ExUnboundLocal | ExType | ExRuntime | ExValue | ExModelInternal.

(* ---------------------------------------------------------------- str helpers *)
Fixpoint starts_with (p s : text) : bool :=
  match p, s with
  | [], _ => true
  | a :: p', b :: s' => (a =? b) && starts_with p' s'
  | _, [] => false
  end.
Fixpoint contains (p s : text) : bool :=
  starts_with p s || match s with [] => false | _ :: s' => contains p s' end.

(* str.split(sep) for a one-character separator: always at least one part *)
Fixpoint split_on_aux (sep : Z) (cur : text) (s : text) : list text :=
  match s with
  | [] => [cur]
  | c :: s' => if c =? sep then cur :: split_on_aux sep [] s' else split_on_aux sep (cur ++ [c]) s'
  end.
Definition split_on (sep : Z) (s : text) : list text := split_on_aux sep [] s.

(* str.split(): runs of Unicode white space separate, no empty parts *)
Fixpoint split_ws_aux (cur : text) (s : text) : list text :=
  match s with
  | [] => if is_nil cur then [] else [cur]
  | c :: s' =>
    if is_space c then (if is_nil cur then split_ws_aux [] s' else cur :: split_ws_aux [] s')
    else split_ws_aux (cur ++ [c]) s'
  end.
Definition split_ws (s : text) : list text := split_ws_aux [] s.

(* readlines(): split after each LF, keeping it; no empty last line *)
Fixpoint readlines_aux (cur : text) (s : text) : list text :=
  match s with
  | [] => if is_nil cur then [] else [cur]
  | c :: s' => if c =? 10 then (cur ++ [c]) :: readlines_aux [] s' else readlines_aux (cur ++ [c]) s'
  end.
Definition readlines (s : text) : list text := readlines_aux [] s.

(* _EMPTY_RE.fullmatch(line): \s+ *)
Definition is_blank (l : text) : bool := negb (is_nil l) && forallb is_space l.

(* str.strip('\r\n') *)
Definition is_crlf (c : Z) : bool := (c =? 13) || (c =? 10).
Definition strip_crlf (s : text) : text := rev (drop_while is_crlf (rev (drop_while is_crlf s))).

(* .replace(r"\n\r", "\n"): the raw string is the four characters  \ n \ r  *)
Fixpoint replace_raw (s : text) : text :=
  match s with
  | 92 :: 110 :: 92 :: 114 :: s' => 10 :: replace_raw s'
  | c :: s' => c :: replace_raw s'
  | [] => []
  end.

(* str.lower(): ASCII letters, and every non-ASCII code point with a lower case of its own (generated table, complete).
   str.lower() has one context-sensitive rule, the final sigma: tag names holding U+03A3 are outside the model. *)
Fixpoint assoc_zt (k : Z) (l : list (Z * text)) : option text :=
  match l with [] => None | (a, v) :: l' => if k =? a then Some v else assoc_zt k l' end.
Definition lower_cp (c : Z) : text :=
  if (65 <=? c) && (c <=? 90) then [c + 32]
  else if c <? 128 then [c]
  else match assoc_zt c lower_map with Some v => v | None => [c] end.
Definition lower (s : text) : text := flat_map lower_cp s.

Definition all_digits (s : text) : bool := forallb is_digit s.

(* ---------------------------------------------------------------- vtt_timestamp_to_secs
   (?:(?P<hh>[0-9]{2,}):)?(?P<mm>[0-9]{2}):(?P<ss>[0-9]{2})\.(?P<ms>[0-9]{3})  fullmatch *)
Definition two_digits (s : text) : bool := (length s =? 2)%nat && all_digits s.
Definition sec_ms (s : text) : option (Z * Z) :=
  match split_on 46 s with
  | [ss; ms] => if two_digits ss && (length ms =? 3)%nat && all_digits ms then Some (dec_value ss, dec_value ms) else None
  | _ => None
  end.
Definition timestamp_ms (s : text) : option Z :=
  match split_on 58 s with
  | [mm; rest] =>
    if two_digits mm then
      match sec_ms rest with Some (ss, ms) => Some ((dec_value mm * 60 + ss) * 1000 + ms) | None => None end
    else None
  | [hh; mm; rest] =>
    if (2 <=? length hh)%nat && all_digits hh && two_digits mm then
      match sec_ms rest with Some (ss, ms) => Some ((dec_value hh * 3600 + dec_value mm * 60 + ss) * 1000 + ms) | None => None end
    else None
  | _ => None
  end.
Definition vtt_timestamp_to_secs (s : text) : option Q :=
  match timestamp_ms s with Some ms => Some (Qmake ms 1000) | None => None end.

(* ---------------------------------------------------------------- parse_vtt_pct, parse_vtt_int *)
(* _VTT_PCT_RE: one or more digits, an optional dot, any digits, a percent sign; then round(float(group 1));
   a rounded value above 100 is not a percentage (None) *)
Definition parse_vtt_pct (value : text) : option Z :=
  let d1 := take_while is_digit value in
  let r1 := drop_while is_digit value in
  if is_nil d1 then None else
  let r2 := match r1 with 46 :: r => r | _ => r1 end in
  let d2 := take_while is_digit r2 in
  let r3 := drop_while is_digit r2 in
  if text_eqb r3 [37] then
    let pct := round_he (dec_value (d1 ++ d2)) (10 ^ Z.of_nat (length d2)) in
    if pct <=? 100 then Some pct else None
  else None.

(* _VTT_INT_RE: optional minus and 1 to 20 digits; then int() *)
Definition parse_vtt_int (value : text) : option Z :=
  let '(neg, ds) := match value with 45 :: r => (true, r) | _ => (false, value) end in
  if negb (is_nil ds) && (length ds <=? 20)%nat && all_digits ds
  then Some (if neg then - dec_value ds else dec_value ds) else None.

(* ---------------------------------------------------------------- _get_or_make_region *)
Inductive wmode := LRTB | RLTB | TBLR | TBRL.
Inductive talign := TAStart | TACenter | TAEnd.
Inductive dalign := DABefore | DACenter | DAAfter.
Record region := mkRegion { r_wm : wmode; r_ox : Q; r_oy : Q; r_ew : Q; r_eh : Q; r_da : dalign; r_ta : talign }.

Definition wmode_eqb (a b : wmode) : bool :=
  match a, b with LRTB, LRTB | RLTB, RLTB | TBLR, TBLR | TBRL, TBRL => true | _, _ => false end.
Definition talign_eqb (a b : talign) : bool :=
  match a, b with TAStart, TAStart | TACenter, TACenter | TAEnd, TAEnd => true | _, _ => false end.
Definition dalign_eqb (a b : dalign) : bool :=
  match a, b with DABefore, DABefore | DACenter, DACenter | DAAfter, DAAfter => true | _, _ => false end.
Definition horizontal (w : wmode) : bool := match w with LRTB | RLTB => true | _ => false end.

Definition qz (n : Z) : Q := inject_Z n.
Definition s_vertical : text := [118;101;114;116;105;99;97;108].
Definition s_size : text := [115;105;122;101].
Definition s_align : text := [97;108;105;103;110].
Definition s_line : text := [108;105;110;101].
Definition s_position : text := [112;111;115;105;116;105;111;110].
Definition s_lr : text := [108;114].
Definition s_rl : text := [114;108].
Definition s_left : text := [108;101;102;116].
Definition s_right : text := [114;105;103;104;116].
Definition s_start : text := [115;116;97;114;116].
Definition s_center : text := [99;101;110;116;101;114].
Definition s_end : text := [101;110;100].
Definition s_line_left : text := [108;105;110;101;45;108;101;102;116].
Definition s_line_right : text := [108;105;110;101;45;114;105;103;104;116].

(* dict(filter(lambda x: len(x) == 2, [x.split(":") for x in cue_settings_list])).get(key) : last one wins *)
Fixpoint settings_get (key : text) (l : list text) (acc : option text) : option text :=
  match l with
  | [] => acc
  | x :: l' =>
    match split_on 58 x with
    | [k; v] => if text_eqb k key then settings_get key l' (Some v) else settings_get key l' acc
    | _ => settings_get key l' acc
    end
  end.
Definition setting (key : text) (l : list text) : option text := settings_get key l None.

Definition nth_text (n : nat) (l : list text) : text := nth n l [].

(* the geometry, one definition per block of the Python function; `rows`/`cols` are _DEFAULT_ROWS/_DEFAULT_COLS *)
Definition rows_q : Q := qz default_rows.
Definition cols_q : Q := qz default_cols.
Definition default_eh : Q := (100 - 200 / rows_q)%Q.
Definition default_ew : Q := (100 - 200 / cols_q)%Q.
Definition default_ox : Q := (100 / cols_q)%Q.
Definition default_oy : Q := (100 / rows_q)%Q.

(* writing direction *)
Definition stage_vertical (cue_settings : list text) : wmode :=
  match setting s_vertical cue_settings with
  | Some v => if text_eqb v s_lr then TBLR else if text_eqb v s_rl then TBRL else LRTB
  | None => LRTB
  end.
(* size: (extent_height, extent_width) *)
Definition stage_size (cue_settings : list text) (writing_mode : wmode) : Q * Q :=
  match setting s_size cue_settings with
  | Some v =>
    match parse_vtt_pct v with
    | Some pct => if negb (horizontal writing_mode) then (qz pct, default_ew) else (default_eh, qz pct)
    | None => (default_eh, default_ew)
    end
  | None => (default_eh, default_ew)
  end.
(* text align *)
Definition stage_align (cue_settings : list text) (writing_mode : wmode) : talign :=
  match setting s_align cue_settings with
  | Some v =>
    if text_eqb v s_left then (if wmode_eqb writing_mode RLTB then TAEnd else TAStart)
    else if text_eqb v s_right then (if wmode_eqb writing_mode RLTB then TAStart else TAEnd)
    else if text_eqb v s_start then TAStart
    else if text_eqb v s_center then TACenter
    else if text_eqb v s_end then TAEnd
    else TACenter
  | None => TACenter
  end.
(* line: percentage, else line number (0 is the first line, negative numbers count from the last line); a line
   number beyond the grid is moved onto the root container: min(max(line_offset, 0), 100) *)
Definition clamp100 (x : Q) : Q := Qmin (Qmax x 0) 100.
Definition line_offset_of (writing_mode : wmode) (v0 : text) : option Q :=
  match parse_vtt_pct v0 with
  | Some p => Some (qz p)
  | None =>
    match parse_vtt_int v0 with
    | Some line_num =>
      let n := if horizontal writing_mode then rows_q else cols_q in
      Some (clamp100 (if 0 <=? line_num then (100 * qz line_num / n)%Q else (100 + 100 * qz line_num / n)%Q))
    | None => None
    end
  end.
(* (extent_height, extent_width, origin_x, origin_y, display_align) *)
Definition stage_line (cue_settings : list text) (writing_mode : wmode) (extent_height extent_width : Q)
  : Q * Q * Q * Q * dalign :=
  let unchanged := (extent_height, extent_width, default_ox, default_oy, DAAfter) in
  match setting s_line cue_settings with
  | Some v =>
    let value := split_on 44 v in
    let line_align := if (1 <? length value)%nat then nth_text 1 value else s_start in
    match line_offset_of writing_mode (nth_text 0 value) with
    | Some lo =>
      if text_eqb line_align s_center then
        if horizontal writing_mode then
          let eh := (Qmin lo (100 - lo) * 2)%Q in
          (eh, extent_width, default_ox, (lo - eh / 2)%Q, DACenter)
        else
          let ew := (Qmin lo (100 - lo) * 2)%Q in
          (extent_height, ew, (lo - ew / 2)%Q, default_oy, DACenter)
      else if text_eqb line_align s_start then
        if horizontal writing_mode then ((100 - lo)%Q, extent_width, default_ox, lo, DABefore)
        else (extent_height, (100 - lo)%Q, lo, default_oy, DABefore)
      else if text_eqb line_align s_end then
        if horizontal writing_mode then (lo, extent_width, default_ox, 0%Q, DAAfter)
        else (extent_height, lo, 0%Q, default_oy, DAAfter)
      else unchanged
    | None => unchanged
    end
  | None => unchanged
  end.
(* position: the size is first limited by the room the position leaves (WebVTT 7.2 "maximum size");
   (extent_height, extent_width, origin_x, origin_y) *)
Definition stage_position (cue_settings : list text) (writing_mode : wmode) (text_align : talign)
           (extent_height extent_width origin_x origin_y : Q) : Q * Q * Q * Q :=
  let unchanged := (extent_height, extent_width, origin_x, origin_y) in
  match setting s_position cue_settings with
  | Some v =>
    let value := split_on 44 v in
    let v1 := nth_text 1 value in
    let line_align :=
      if (1 <? length value)%nat && (text_eqb v1 s_center || text_eqb v1 s_line_left || text_eqb v1 s_line_right)
      then v1
      else match text_align with
           | TAStart => if wmode_eqb writing_mode RLTB then s_line_right else s_line_left
           | TAEnd => if wmode_eqb writing_mode RLTB then s_line_left else s_line_right
           | TACenter => s_center
           end in
    match parse_vtt_pct (nth_text 0 value) with
    | Some p =>
      let position := qz p in
      let max_size :=
        if text_eqb line_align s_center then (2 * Qmin position (100 - position))%Q
        else if text_eqb line_align s_line_left then (100 - position)%Q
        else position in
      let extent_width := if horizontal writing_mode then Qmin extent_width max_size else extent_width in
      let extent_height := if horizontal writing_mode then extent_height else Qmin extent_height max_size in
      if text_eqb line_align s_center then
        if horizontal writing_mode then (extent_height, extent_width, (position - extent_width / 2)%Q, origin_y)
        else (extent_height, extent_width, origin_x, (position - extent_height / 2)%Q)
      else if text_eqb line_align s_line_left then
        if horizontal writing_mode then (extent_height, extent_width, position, origin_y)
        else (extent_height, extent_width, origin_x, position)
      else (* line-right: the only remaining value *)
        if horizontal writing_mode then (extent_height, extent_width, (position - extent_width)%Q, origin_y)
        else (extent_height, extent_width, origin_x, (position - extent_height)%Q)
    | None => unchanged
    end
  | None => unchanged
  end.

Definition compute_region (cue_settings : list text) : region :=
  let writing_mode := stage_vertical cue_settings in
  let '(extent_height, extent_width) := stage_size cue_settings writing_mode in
  let text_align := stage_align cue_settings writing_mode in
  let '(extent_height, extent_width, origin_x, origin_y, display_align) :=
    stage_line cue_settings writing_mode extent_height extent_width in
  let '(extent_height, extent_width, origin_x, origin_y) :=
    stage_position cue_settings writing_mode text_align extent_height extent_width origin_x origin_y in
  (* without a (valid) position the box starts at its default origin: the same limit applies *)
  let extent_width := Qmin extent_width (100 - origin_x) in
  let extent_height := Qmin extent_height (100 - origin_y) in
  mkRegion writing_mode origin_x origin_y extent_width extent_height display_align text_align.

Definition region_eqb (a b : region) : bool :=
  wmode_eqb (r_wm a) (r_wm b) && Qeq_bool (r_ew a) (r_ew b) && Qeq_bool (r_eh a) (r_eh b) &&
  Qeq_bool (r_ox a) (r_ox b) && Qeq_bool (r_oy a) (r_oy b) &&
  talign_eqb (r_ta a) (r_ta b) && dalign_eqb (r_da a) (r_da b).

(* first matching region of doc.iter_regions() (insertion order), else a new one named r<len> *)
Fixpoint find_region (r : region) (i : Z) (regions : list region) : option Z :=
  match regions with
  | [] => None
  | x :: l => if region_eqb x r then Some i else find_region r (i + 1) l
  end.
Definition get_or_make_region (regions : list region) (cue_settings : list text) : list region * Z :=
  let r := compute_region cue_settings in
  match find_region r 0 regions with
  | Some i => (regions, i)
  | None => (regions ++ [r], Z.of_nat (length regions))
  end.

(* ---------------------------------------------------------------- the content tree *)
Inductive nkind := KSpan | KRb | KRt.
Record attrs := mkAttrs {
  a_begin : option Q;          (* set_begin *)
  a_bg : option Z;             (* tts:backgroundColor, packed RGBA *)
  a_color : option Z;          (* tts:color *)
  a_bold : bool; a_italic : bool; a_under : bool;
  a_lang : option text         (* None: never set (the element keeps its default "") *)
}.
Definition no_attrs : attrs := mkAttrs None None None false false false None.

Inductive elem :=
| EText (t : text)
| EBr
| ENode (k : nkind) (a : attrs) (cs : list elem)
| ERuby (rbc rtc : list elem).          (* Ruby(Rbc(rb…), Rtc(rt…)) *)

(* One frame per entry of self.open_tags, innermost first: the lower-cased tag name and the element the start tag
   created (self.parent while the entry is the last one).  The second component of the Python entry - the parent to
   return to - is the element of the frame below (the paragraph below the last frame): every start tag appends its
   entry and makes the element it creates the parent, every end tag restores the parent saved in the entries it pops.
   The element of a frame is a child of the element of the frame below, with one exception: an Rt is pushed to
   self.ruby_rtc - the Rtc of the one open Ruby - wherever the parent is (inside an earlier, still open Rt for
   `<ruby>a<rt>b<rt>c`).  The Rtc of a Ruby frame therefore holds a slot (None) for every Rt that is still open; the
   innermost open Rt is the last slot. *)
Inductive frame :=
| FNode (tag : text) (k : nkind) (a : attrs) (done : list elem)
| FRuby (tag : text) (rbc : list elem) (rtc : list (option elem)).

Record pstate := mkP {
  p_root : list elem;          (* children of the paragraph so far *)
  p_stack : list frame;        (* self.open_tags with the open elements, innermost first; [] = the paragraph is the parent *)
  p_ruby : bool;               (* self.ruby_rbc / self.ruby_rtc are not None *)
  p_begin : option Q           (* self.begin: relative begin of the text that follows the last valid timestamp tag *)
}.

Definition frame_tag (f : frame) : text := match f with FNode t _ _ _ => t | FRuby t _ _ => t end.
Definition some_elems (l : list (option elem)) : list elem :=
  flat_map (fun o : option elem => match o with Some e => [e] | None => [] end) l.
Definition close_frame (f : frame) : elem :=
  match f with FNode _ k a cs => ENode k a cs | FRuby _ b t => ERuby b (some_elems t) end.

(* append a finished element to whatever is now the innermost open element *)
Definition attach (e : elem) (root : list elem) (stack : list frame) : list elem * list frame :=
  match stack with
  | [] => (root ++ [e], [])
  | FNode tg k a cs :: st => (root, FNode tg k a (cs ++ [e]) :: st)
  | FRuby _ _ _ :: _ => (root, stack)       (* never: Ruby.push_child raises (push_check); Rb / Rt go to Rbc / Rtc *)
  end.
(* an Rt element goes to the slot it was given in the Rtc of the open Ruby: the last empty one *)
Fixpoint has_none (l : list (option elem)) : bool :=
  match l with [] => false | None :: _ => true | Some _ :: l' => has_none l' end.
Fixpoint fill_last (e : elem) (l : list (option elem)) : list (option elem) :=
  match l with
  | [] => []
  | x :: l' => if has_none l' then x :: fill_last e l'
               else match x with None => Some e :: l' | Some _ => x :: l' end
  end.
Fixpoint fill_rt (e : elem) (st : list frame) : list frame :=
  match st with
  | [] => []
  | FRuby tg b t :: st' => FRuby tg b (fill_last e t) :: st'
  | f :: st' => f :: fill_rt e st'
  end.
Fixpoint add_rt_slot (st : list frame) : option (list frame) :=
  match st with
  | [] => None
  | FRuby tg b t :: st' => Some (FRuby tg b (t ++ [None]) :: st')
  | f :: st' => match add_rt_slot st' with Some r => Some (f :: r) | None => None end
  end.
Definition attach_closed (f : frame) (root : list elem) (st : list frame) : list elem * list frame :=
  match f with
  | FNode _ KRt a cs => (root, fill_rt (ENode KRt a cs) st)
  | _ => attach (close_frame f) root st
  end.
(* one round of the loop of _handle_endtag: leaving a Ruby forgets ruby_rbc / ruby_rtc, the parent becomes the one
   saved in the popped entry *)
Definition pop (s : pstate) : pstate :=
  match p_stack s with
  | [] => s
  | f :: st =>
    let '(r, st') := attach_closed f (p_root s) st in
    mkP r st' (match f with FRuby _ _ _ => false | FNode _ _ _ _ => p_ruby s end) (p_begin s)
  end.
Fixpoint close_all (fuel : nat) (s : pstate) : pstate :=
  match fuel with O => s | S f => match p_stack s with [] => s | _ => close_all f (pop s) end end.

(* add a child to the current parent: Python's push_child type checks *)
Inductive ckind := CSpan | CBr | CRuby.
Definition push_check (s : pstate) (c : ckind) : option exn :=
  match p_stack s with
  | [] => None                                    (* P: span, br, ruby *)
  | FNode _ KSpan _ _ :: _ => match c with CRuby => Some ExType | _ => None end
  | FNode _ _ _ _ :: _ => match c with CSpan => None | _ => Some ExType end     (* Rt / Rb: span only *)
  | FRuby _ _ _ :: _ => Some ExRuntime            (* Ruby.push_child always raises *)
  end.
Definition parent_is_p (s : pstate) : bool := is_nil (p_stack s).
Definition make_span_attrs (s : pstate) : attrs :=
  if parent_is_p s then mkAttrs None (Some default_bg_color) None false false false None else no_attrs.

Definition add_leaf (e : elem) (s : pstate) : pstate :=
  let '(r, st) := attach e (p_root s) (p_stack s) in mkP r st (p_ruby s) (p_begin s).
Definition open_node (tag : text) (k : nkind) (a : attrs) (s : pstate) : pstate :=
  mkP (p_root s) (FNode tag k a [] :: p_stack s) (p_ruby s) (p_begin s).

Definition s_ruby : text := [114;117;98;121].
Definition s_rt : text := [114;116].
Definition s_lang : text := [108;97;110;103].
Definition s_bg_ : text := [98;103;95].
Definition s_None : text := [78;111;110;101].
Fixpoint assoc_tz (k : text) (l : list (text * Z)) : option Z :=
  match l with [] => None | (a, v) :: l' => if text_eqb k a then Some v else assoc_tz k l' end.

Definition apply_class (a : attrs) (c : text) : attrs :=
  if starts_with s_bg_ c then
    match assoc_tz (drop_n 3 c) named_colors with
    | Some col => mkAttrs (a_begin a) (Some col) (a_color a) (a_bold a) (a_italic a) (a_under a) (a_lang a)
    | None => a
    end
  else
    match assoc_tz c named_colors with
    | Some col => mkAttrs (a_begin a) (a_bg a) (Some col) (a_bold a) (a_italic a) (a_under a) (a_lang a)
    | None => a
    end.

Definition style_tag (tag : text) (classes : option (list text)) (annot : option text) (a : attrs) : attrs :=
  if starts_with [98] tag then mkAttrs (a_begin a) (a_bg a) (a_color a) true (a_italic a) (a_under a) (a_lang a)
  else if starts_with [105] tag then mkAttrs (a_begin a) (a_bg a) (a_color a) (a_bold a) true (a_under a) (a_lang a)
  else if starts_with [117] tag then mkAttrs (a_begin a) (a_bg a) (a_color a) (a_bold a) (a_italic a) true (a_lang a)
  else if starts_with s_lang tag then
    mkAttrs (a_begin a) (a_bg a) (a_color a) (a_bold a) (a_italic a) (a_under a)
            (Some (match annot with Some l => l | None => s_None end))     (* str(None) *)
  else if starts_with [99] tag then
    match classes with Some cs => fold_left apply_class cs a | None => a end
  else a.       (* "v" and unknown tags: a plain span *)

(* _handle_starttag: the entry (tag, parent) is appended first; then a Ruby (with its Rbc and Rtc) under the parent, an
   Rt under self.ruby_rtc, or a span under the parent *)
Definition handle_start (tag0 : text) (classes : option (list text)) (annot : option text) (s : pstate) : pstate + exn :=
  let tag := lower tag0 in
  if starts_with s_ruby tag then
    if p_ruby s then inr ExRuntime
    else match push_check s CRuby with
         | Some e => inr e
         | None => inl (mkP (p_root s) (FRuby tag [] [] :: p_stack s) true (p_begin s))
         end
  else if starts_with s_rt tag && p_ruby s then             (* an rt outside ruby is handled like any unknown tag *)
    match add_rt_slot (p_stack s) with
    | Some st => inl (mkP (p_root s) (FNode tag KRt no_attrs [] :: st) (p_ruby s) (p_begin s))
    | None => inr ExModelInternal                           (* never: ruby_rtc is set while a Ruby frame is open *)
    end
  else
    match push_check s CSpan with
    | Some e => inr e
    | None => inl (open_node tag KSpan (style_tag tag classes annot (make_span_attrs s)) s)
    end.

(* _handle_endtag: the end tag closes the innermost open tag if it has that (lower-cased) name; the end tag of a
   ruby element also closes its open <rt> (the parent is an Rt that was opened with the Ruby as parent); any other end
   tag is ignored.  It never raises. *)
Definition handle_end (tag0 : text) (s : pstate) : pstate :=
  let tag := lower tag0 in
  match p_stack s with
  | [] => s
  | f :: st =>
    if text_eqb (frame_tag f) tag then pop s
    else match f, st with
         | FNode _ KRt _ _, FRuby tg _ _ :: _ => if text_eqb tg tag then pop (pop s) else s
         | _, _ => s
         end
  end.

(* one line of a string token: Span(Text(line)) carrying self.begin, wrapped in Rb when the parent is a Ruby *)
Definition with_begin (b : option Q) (a : attrs) : attrs :=
  mkAttrs b (a_bg a) (a_color a) (a_bold a) (a_italic a) (a_under a) (a_lang a).
Definition push_text_line (line : text) (s : pstate) : pstate + exn :=
  let span := ENode KSpan (with_begin (p_begin s) (make_span_attrs s)) [EText line] in
  match p_stack s with
  | FRuby tg b t :: st =>
    if p_ruby s then inl (mkP (p_root s) (FRuby tg (b ++ [ENode KRb no_attrs [span]]) t :: st) (p_ruby s) (p_begin s))
    else inr ExAttribute                                    (* never: ruby_rbc is set while a Ruby is the parent *)
  | _ => match push_check s CSpan with Some e => inr e | None => inl (add_leaf span s) end
  end.
Fixpoint push_text_lines (first : bool) (lines : list text) (s : pstate) : pstate + exn :=
  match lines with
  | [] => inl s
  | l :: ls =>
    let r := if first then inl s
             else match push_check s CBr with Some e => inr e | None => inl (add_leaf EBr s) end in
    match r with
    | inr e => inr e
    | inl s1 => match push_text_line l s1 with inr e => inr e | inl s2 => push_text_lines false ls s2 end
    end
  end.
Definition handle_string (value : text) (s : pstate) : pstate + exn :=
  push_text_lines true (split_on 10 value) s.

(* a timestamp tag only records the begin (relative to the cue) of the text that follows; an unparsable
   timestamp or one before the cue's begin is ignored with a warning *)
Definition handle_ts (pbegin : Q) (ts_text : text) (s : pstate) : pstate + exn :=
  match vtt_timestamp_to_secs ts_text with
  | Some ts =>
    if Qle_bool pbegin ts then inl (mkP (p_root s) (p_stack s) (p_ruby s) (Some (ts - pbegin)%Q))
    else inl s
  | None => inl s
  end.

Definition handle_token (pbegin : Q) (t : token) (s : pstate) : pstate + exn :=
  match t with
  | TStart tag cls an => handle_start tag cls an s
  | TEnd tag => inl (handle_end tag s)
  | TString v => handle_string v s
  | TTs ts => handle_ts pbegin ts s
  end.
Fixpoint handle_tokens (pbegin : Q) (ts : list token) (s : pstate) : pstate + exn :=
  match ts with
  | [] => inl s
  | t :: ts' => match handle_token pbegin t s with inr e => inr e | inl s' => handle_tokens pbegin ts' s' end
  end.

(* _parse_cue_text: the children of the paragraph, or the exception *)
Definition parse_cue_text (pbegin : Q) (cue_text : text) : list elem + exn :=
  match handle_tokens pbegin (tokenize cue_text) (mkP [] [] false None) with
  | inr e => inr e
  | inl s => inl (p_root (close_all (length (p_stack s)) s))
  end.

(* ---------------------------------------------------------------- to_model *)
Record para := mkPara { pa_begin : Q; pa_end : Q; pa_region : Z; pa_children : list elem }.
Inductive outcome := OkDoc (regions : list region) (paras : list para) | Raised (e : exn).
Inductive lstate := LStart | LLooking | LText | LTextMore | LNote | LStyle.

Record rstate := mkR {
  rs_state : lstate;
  rs_regions : list region;
  rs_paras : list para;               (* children of the div, in order *)
  rs_cur : option para;               (* current_p (children not yet parsed) *)
  rs_attached : bool;                 (* current_p has been pushed to the div (it is then the last of rs_paras) *)
  rs_text : option text               (* subtitle_text; None = the local variable is unbound *)
}.

Definition s_WEBVTT : text := [87;69;66;86;84;84].
Definition s_NOTE_ : text := [78;79;84;69;32].
Definition s_STYLE : text := [83;84;89;76;69].
Definition s_arrow : text := [45;45;62].

Definition set_state (st : lstate) (s : rstate) : rstate :=
  mkR st (rs_regions s) (rs_paras s) (rs_cur s) (rs_attached s) (rs_text s).

Fixpoint replace_last (l : list para) (p : para) : list para :=
  match l with [] => [] | [_] => [p] | x :: l' => x :: replace_last l' p end.

(* the body of `if state is _State.LOOKING:` for a non-None line *)
Definition looking (line : text) (s : rstate) : rstate :=
  if is_blank line then s
  else if starts_with s_NOTE_ line then set_state LNote s
  else if starts_with s_STYLE line then set_state LStyle s
  else if negb (contains s_arrow line) then s
  else
    let cue_params := split_ws line in
    if (length cue_params <? 3)%nat then s
    else match vtt_timestamp_to_secs (nth_text 0 cue_params) with
         | None => s
         | Some start_time =>
           match vtt_timestamp_to_secs (nth_text 2 cue_params) with
           | None => s
           | Some end_time =>
             let '(regions, ri) := get_or_make_region (rs_regions s) (skipn 3 cue_params) in
             (* current_p = model.P(doc); subtitle_text = "" *)
             mkR LText regions (rs_paras s) (Some (mkPara start_time end_time ri [])) false (Some [])
           end
         end.

Fixpoint run_lines (items : list (option text)) (s : rstate) : outcome :=
  match items with
  | [] => OkDoc (rs_regions s) (rs_paras s)
  | line :: rest =>
    match rs_state s with
    | LStart =>
      match line with
      | None => OkDoc (rs_regions s) (rs_paras s)          (* if line is None: break *)
      | Some _ => run_lines rest (set_state LLooking s)
      end
    | LNote | LStyle =>
      match line with
      | None => OkDoc (rs_regions s) (rs_paras s)          (* break *)
      | Some l => if is_blank l then run_lines rest (set_state LLooking s) else run_lines rest s
      end
    | LLooking =>
      match line with
      | None => OkDoc (rs_regions s) (rs_paras s)          (* break *)
      | Some l => run_lines rest (looking l s)
      end
    | LText | LTextMore =>
      if match line with None => true | Some l => is_blank l end then
        match rs_text s with
        | None => Raised ExUnboundLocal                    (* unreachable: the variable is bound when the cue is created *)
        | Some t =>
          match rs_cur s with
          | None => Raised ExModelInternal
          | Some p =>
            match parse_cue_text (pa_begin p) (replace_raw (strip_crlf t)) with
            | inr e => Raised e
            | inl cs =>
              let paras := if rs_attached s
                           then replace_last (rs_paras s) (mkPara (pa_begin p) (pa_end p) (pa_region p) cs)
                           else rs_paras s in
              run_lines rest (mkR LLooking (rs_regions s) paras (rs_cur s) (rs_attached s) (rs_text s))
            end
          end
        end
      else
        let l := match line with Some l => l | None => [] end in
        match rs_cur s with
        | None => Raised ExModelInternal
        | Some p =>
          match rs_state s with
          | LText =>
            run_lines rest (mkR LTextMore (rs_regions s) (rs_paras s ++ [p]) (rs_cur s) true (Some l))
          | _ =>
            run_lines rest (mkR LTextMore (rs_regions s) (rs_paras s) (rs_cur s) (rs_attached s)
                                (Some (match rs_text s with Some t => t ++ l | None => l end)))
          end
        end
    end
  end.

Definition to_model (file : text) : outcome :=
  run_lines (map Some (readlines file) ++ [None]) (mkR LStart [] [] None false None).
