(* M for C04 (temporal resolution): transcription of ttconv/imsc/elements.py
   ContentElement.ParsingContext.process — xml:lang / xml:space inheritance, the region attribute,
   timeContainer, begin / dur / end, implicit begin and end in par and seq containers, anonymous
   spans for mixed content, zero-duration pruning, <set> — and of the walk
   TTElement.from_xml -> HeadElement -> LayoutElement -> RegionElement / BodyElement, on the
   ElementTree structure of Base/ImscXml.v.  Statement order follows the code; Python exceptions
   that would leave process are explicit outcomes (PErr 1 = TypeError from None + Fraction when process is
   entered under a seq parent whose last child never ends - the children loop never does that, it stops
   at such a child; PErr 2 = ZeroDivisionError from a zero frame / tick rate - the parameter readers never
   return one).
   Styling (nested styles of regions, referential and specified styling, <set>) is applied at the
   points where the code applies it, with the functions of Model/ImscStyles.v; reading a style value
   and the model's validity test are functions of the environment.
   Children that are no content elements - tt:metadata and the ttm: vocabulary, elements of foreign namespaces, tt: elements the
   reader does not know (or knows elsewhere: tt:head, tt:style outside a region, ...) and the comment / processing-instruction
   nodes ElementTree can present (Base/ImscXml.v T_comment, T_pi) - are the trees that [classify] maps to None
   (ContentElement.from_xml returns None; a tt:region without xml:id is the other case: RegionElement.from_xml returns None):
   process gives PSkip and the children loop reads nothing of them but their tail, which is character content of the parent like
   any other text (the step "process tail text node" runs for every child, whatever from_xml returned).  The same holds in the
   document walk: tt, head, layout and styling pick the children they know and ignore the others together with every text and tail.
   The children of a <set> are not read at all (`break`: <set> has no content children).
   Not modelled: log records. *)
From TT Require Import Base.Prelude Base.ImscXml Model.ImscTime Model.ImscStyles.
From Coq Require Import QArith Qminmax.
Local Open Scope Z_scope.

(* class attributes of the TTML element classes *)
Definition k_has_timing (k : ekind) := match k with KBr | KSet | KText => false | _ => true end.
Definition k_has_region (k : ekind) := match k with KBr | KSet | KRegion | KText => false | _ => true end.
Definition k_has_styles (k : ekind) := match k with KSet | KText => false | _ => true end.
Definition k_is_mixed (k : ekind) := match k with KP | KSpan | KRb | KRt | KRp => true | _ => false end.
Definition k_has_children (k : ekind) := match k with KBr | KSet | KRegion | KText => false | _ => true end.
(* br, region and set have indefinite duration in parallel time containers *)
Definition k_indefinite_in_par (k : ekind) := match k with KBr | KSet | KRegion => true | _ => false end.

(* ContentElement.from_xml: the first class of content_classes whose is_instance accepts the element *)
Definition classify (tag : qname) (attrs : list (qname * text)) : option ekind :=
  if qname_eqb tag T_body then Some KBody else
  if qname_eqb tag T_div then Some KDiv else
  if qname_eqb tag T_p then Some KP else
  if qname_eqb tag T_span then
    match get_attr attrs A_ruby with
    | None => Some KSpan
    | Some v =>
        (* get_ruby_attr: a value that is not one of the six keywords is logged and read as absent *)
        if text_eqb v V_container then Some KRuby else
        if text_eqb v V_base then Some KRb else
        if text_eqb v V_text then Some KRt else
        if text_eqb v V_delimiter then Some KRp else
        if text_eqb v V_baseContainer then Some KRbc else
        if text_eqb v V_textContainer then Some KRtc else Some KSpan
    end
  else
  if qname_eqb tag T_br then Some KBr else
  if qname_eqb tag T_set then Some KSet else
  if qname_eqb tag T_region then Some KRegion else None.

Record env := mkEnv {
  e_tr : Q ;                                        (* temporal_context.tick_rate *)
  e_fr : Q ;                                        (* temporal_context.frame_rate *)
  e_regions : list text ;                           (* ids registered in the document so far *)
  e_to_model : qname -> text -> option (Z * sv) ;   (* StyleProperty.to_model; None: not a style attribute, or ValueError / KeyError *)
  e_valid : Z -> sv -> bool ;                       (* StyleProperty.validate *)
  e_styles : list sty                               (* the flattened <styling> table *)
}.

(* what a child reads from its parent's parsing context *)
Record pctx := mkPctx {
  pc_par : bool ;                (* parent time container is par *)
  pc_seq_end : option Q ;        (* parent's seq_end at this point of its children loop: the end of the previous child relative to
                                    the parent's begin, None if it never ends *)
  pc_preserve : bool ;           (* parent's xml:space *)
  pc_lang : text ;               (* parent's xml:lang *)
  pc_has_elem : bool             (* parent context carries a model element (it is not a <set>) *)
}.

Record cres := mkCres {
  r_kind : ekind ;
  r_des_begin : Q ;
  r_des_end : option Q ;
  r_node : option mnode ;        (* the model element; None for <set> *)
  r_anim : option anim ;         (* the step a <set> adds to its parent *)
  r_pushfail : bool              (* push_children raised (and was logged) here or in a descendant *)
}.

Inductive pres := PErr (code : Z) | PSkip | POk (r : cres).

Fixpoint mem_text (t : text) (l : list text) : bool :=
  match l with [] => false | u :: l' => text_eqb t u || mem_text t l' end.

(* Begin/Dur/EndAttribute.extract: ValueError is logged and gives None; ZeroDivisionError propagates *)
Definition read_time (ev : env) (raw : option text) : option (option Q) :=
  match raw with
  | None => Some None
  | Some s => match parse_time_x (Some (e_tr ev)) (Some (e_fr ev)) s with
              | TVal q => Some (Some q) | TBad => Some None | TZeroDiv => None end
  end.

(* XMLSpaceAttribute.extract + inheritance *)
Definition read_space (attrs : list (qname * text)) (parent : bool) : bool :=
  match get_attr attrs A_space with
  | Some v => if text_eqb v V_default then false else if text_eqb v V_preserve then true else parent
  | None => parent
  end.
Definition read_lang (attrs : list (qname * text)) (parent : text) : text :=
  match get_attr attrs A_lang with Some l => l | None => parent end.

(* make_anonymous_span *)
Definition anon_span (k : ekind) (preserve : bool) (lang : text) (t : text) : mnode :=
  if ekind_eqb k KSpan then MText t
  else MElem KSpan None None None preserve lang None [] [] [MText t].

(* model.py push_child type guards *)
Definition child_ok (k c : ekind) : bool :=
  match k with
  | KBody => ekind_eqb c KDiv
  | KDiv => ekind_eqb c KP || ekind_eqb c KDiv
  | KP => ekind_eqb c KSpan || ekind_eqb c KBr || ekind_eqb c KRuby
  | KSpan => ekind_eqb c KSpan || ekind_eqb c KBr || ekind_eqb c KText
  | KRb | KRt | KRp => ekind_eqb c KSpan
  | KRbc => ekind_eqb c KRb
  | _ => false
  end.

Fixpoint take_ok (k : ekind) (l : list mnode) : list mnode * bool :=
  match l with
  | [] => ([], true)
  | n :: l' => if child_ok k (m_kind n) then let '(p, ok) := take_ok k l' in (n :: p, ok) else ([], false)
  end.

Definition kinds_are (l : list mnode) (ks : list ekind) : bool :=
  (Z.of_nat (length l) =? Z.of_nat (length ks)) &&
  forallb (fun p => ekind_eqb (m_kind (fst p)) (snd p)) (combine l ks).

(* push_children: the children actually attached, and whether it completed without raising *)
Definition push_children (k : ekind) (l : list mnode) : list mnode * bool :=
  match k with
  | KRuby =>
      if kinds_are l [KRb; KRt] || kinds_are l [KRb; KRp; KRt; KRp] || kinds_are l [KRbc; KRtc]
         || kinds_are l [KRbc; KRtc; KRtc] then (l, true) else ([], false)
  | KRtc =>
      let ks := List.map m_kind l in
      let inner := match ks with
                   | a :: rest => if (2 <? Z.of_nat (length ks)) && ekind_eqb a KRp && ekind_eqb (last ks KText) KRp
                                  then removelast rest else ks
                   | [] => ks
                   end in
      if forallb (fun c => ekind_eqb c KRt) inner then (l, true) else ([], false)
  | _ => take_ok k l
  end.

Definition opt_or_zero (o : option Q) : Q := match o with Some q => q | None => 0%Q end.

Definition is_style_elem (c : xml) : bool := qname_eqb (x_tag c) T_style.

(* state of the children loop *)
Inductive lres := LDone (iend : option Q) (kids : list mnode) (anims : list anim) (pf : bool) (nst : sdict) | LErr (code : Z).

(* the children loop of process, for a parent of class k whose children are read by [proc] *)
Section Children.
  Variable proc : pctx -> xml -> pres.
  Variable to_model : qname -> text -> option (Z * sv).
  Variable valid : Z -> sv -> bool.
  Variables (k : ekind) (par : bool) (dbegin : Q) (preserve : bool) (lang : text).

  (* [iend]: implicit_end; [send]: seq_end; [nst]: the styles of the model element so far (only nested styling can have set any) *)
  Fixpoint children_loop (l : list xml) (iend send : option Q) (kids : list mnode) (anims : list anim) (pf : bool) (nst : sdict)
                         {struct l} : lres :=
    match l with
    | [] => LDone iend kids anims pf nst
    | c :: l' =>
        (* nested styling of a region: merged set-if-absent, no part in temporal processing (`continue`) *)
        if ekind_eqb k KRegion && is_style_elem c then
          children_loop l' iend send kids anims pf (merge_absent valid (collect to_model valid (x_attrs c) []) nst)
        else
        (* the previous child of a sequential container never ends: the remaining children never begin; each is skipped (`continue`),
           so that the nested styles of a region that follow are still read; their tails are no content (a sequential container
           has no anonymous spans) *)
        if negb par && match send with None => true | Some _ => false end then children_loop l' iend send kids anims pf nst
        else
        (* <set> has no content children, and neither xml:space nor xml:lang for them to inherit (`break`) *)
        if ekind_eqb k KSet then LDone iend kids anims pf nst
        else
        match proc (mkPctx par send preserve lang (negb (ekind_eqb k KSet))) c with
        | PErr e => LErr e
        | PSkip =>
            match x_tail c with
            | Some t => if k_is_mixed k && par then children_loop l' None send (kids ++ [anon_span k preserve lang t]) anims pf nst
                        else children_loop l' iend send kids anims pf nst
            | None => children_loop l' iend send kids anims pf nst
            end
        | POk r =>
            let iend' :=
              if par then
                match iend, r_des_end r with
                | Some a, Some ce => Some (Qmax a (ce + dbegin)%Q)
                | _, _ => None
                end
              else
                (* br, region and set elements keep their indefinite duration in parallel time containers *)
                match iend with
                | Some _ => match r_des_end r with Some ce => Some (ce + dbegin)%Q | None => None end
                | None => None
                end in
            let send' := if par then send else r_des_end r in
            (* skip child if it has no temporal extent *)
            let keep :=
              negb (ekind_eqb (r_kind r) KSet) &&
              match r_des_end r with None => true | Some ce => negb (Qeq_bool (r_des_begin r) ce) end in
            let kids' := match r_node r with
                         | Some n => if keep then kids ++ [n] else kids
                         | None => kids
                         end in
            let anims' := match r_anim r with Some a => anims ++ [a] | None => anims end in
            match x_tail c with
            | Some t => if k_is_mixed k && par
                        then children_loop l' None send' (kids' ++ [anon_span k preserve lang t]) anims' (pf || r_pushfail r) nst
                        else children_loop l' iend' send' kids' anims' (pf || r_pushfail r) nst
            | None => children_loop l' iend' send' kids' anims' (pf || r_pushfail r) nst
            end
        end
    end.
End Children.

(* temporal end processing *)
Definition desired_end (ibegin dbegin : Q) (eend edur : option Q) (iend : option Q) : option Q :=
  match eend, edur with
  | Some e_, Some d_ => Some (Qmin (dbegin + d_) (ibegin + e_))%Q
  | None, Some d_ => Some (dbegin + d_)%Q
  | Some e_, None => Some (ibegin + e_)%Q
  | None, None => iend
  end.

Definition read_region (ev : env) (k : ekind) (attrs : list (qname * text)) : option text :=
  if k_has_region k then
    match get_attr attrs A_region with
    | Some r => if mem_text r (e_regions ev) then Some r else None
    | None => None
    end
  else None.

Definition read_par (attrs : list (qname * text)) : bool :=
  match get_attr attrs A_timeContainer with
  | Some v => negb (text_eqb v V_seq)
  | None => true
  end.

(* implicit begin: 0 in a par parent, else parent.seq_end (None + Fraction raises TypeError when it is None) *)
Definition implicit_begin (pc : pctx) : option Q :=
  if pc_par pc then Some 0%Q else pc_seq_end pc.

Fixpoint process (ev : env) (pc : pctx) (x : xml) {struct x} : pres :=
  match x with
  | X tag attrs txt tail cs =>
    match classify tag attrs with
    | None => PSkip
    | Some k =>
      (* RegionElement.from_xml: all regions must have an id *)
      if ekind_eqb k KRegion && (match get_attr attrs A_id with None => true | Some _ => false end) then PSkip else
      let lang := if ekind_eqb k KSet then pc_lang pc else read_lang attrs (pc_lang pc) in
      let preserve := if ekind_eqb k KSet then pc_preserve pc else read_space attrs (pc_preserve pc) in
      let region := read_region ev k attrs in
      let par := read_par attrs in
      match read_time ev (get_attr attrs A_begin) with
      | None => PErr 2
      | Some ebegin =>
      match read_time ev (get_attr attrs A_dur) with
      | None => PErr 2
      | Some edur =>
      match read_time ev (get_attr attrs A_end) with
      | None => PErr 2
      | Some eend =>
      match implicit_begin pc with
      | None => PErr 1
      | Some ibegin =>
        let dbegin := (ibegin + opt_or_zero ebegin)%Q in
        let iend0 := if k_indefinite_in_par k && pc_par pc then None else Some dbegin in
        let mixed := k_is_mixed k && par in
        (* process text nodes *)
        let kids0 := match txt with Some t => if mixed then [anon_span k preserve lang t] else [] | None => [] end in
        let iend1 := match txt with Some t => if mixed then None else iend0 | None => iend0 end in
        match children_loop (process ev) (e_to_model ev) (e_valid ev) k par dbegin preserve lang cs iend1 (Some 0%Q) kids0 [] false [] with
        | LErr e => PErr e
        | LDone iend kids anims pf nst =>
            (* referential styling last among the inherited sources: it has the lowest priority (set-if-absent) *)
            let st1 := if k_has_styles k then referential (e_valid ev) (e_styles ev) (rev (style_refs attrs)) nst else nst in
            let '(pushed, ok) := if k_has_children k then push_children k kids else ([], true) in
            let rid := if ekind_eqb k KRegion then get_attr attrs A_id else None in
            if negb ok then
              (* push_children raised: logged, and process returns before the end/begin and the specified styles are set *)
              POk (mkCres k dbegin None
                     (if ekind_eqb k KSet then None else Some (MElem k rid None None preserve lang region st1 anims pushed))
                     None true)
            else
            let dend := desired_end ibegin dbegin eend edur iend in
            let mb := if k_has_timing k then (if Qeq_bool dbegin 0%Q then None else Some dbegin) else None in
            let me := if k_has_timing k then dend else None in
            if ekind_eqb k KSet then
              POk (mkCres k dbegin dend None
                     (if pc_has_elem pc then
                        match first_animated (e_to_model ev) (e_valid ev) attrs with
                        | Some (p, v) => Some (p, v, dbegin, dend)
                        | None => None
                        end
                      else None) pf)
            else
              (* specified styling overwrites *)
              let st2 := if k_has_styles k then apply_specified (e_to_model ev) (e_valid ev) attrs st1 else st1 in
              POk (mkCres k dbegin dend (Some (MElem k rid mb me preserve lang region st2 anims pushed)) None pf)
        end
      end end end end
    end
  end.

(* ---- the document walk ------------------------------------------------------------------ *)
Record rdoc := mkRdoc { d_lang : text ; d_regions : list mnode ; d_body : option mnode ; d_initials : sdict }.
Inductive dres := DErr (code : Z) | DOk (d : rdoc).

Definition region_id (n : mnode) : text := match n with MElem _ (Some i) _ _ _ _ _ _ _ _ => i | _ => [] end.

(* LayoutElement.from_xml: every region child with an id is registered *)
Fixpoint read_layout (ev : env) (preserve : bool) (lang : text) (l : list xml) (acc : list mnode) : list mnode + Z :=
  match l with
  | [] => inl acc
  | c :: l' =>
      if qname_eqb (x_tag c) T_region then
        match process ev (mkPctx true (Some 0%Q) preserve lang true) c with
        | PErr e => inr e
        | POk r => match r_node r with
                   | Some n => read_layout ev preserve lang l' (acc ++ [n])
                   | None => read_layout ev preserve lang l' acc
                   end
        | PSkip => read_layout ev preserve lang l' acc
        end
      else read_layout ev preserve lang l' acc
  end.

(* HeadElement.from_xml: children in document order; the first layout and the first styling only.  Regions read before
   the styling element see an empty style table. *)
Record hstate := mkH { h_layout : bool ; h_styling : bool ; h_regions : list mnode ; h_styles : list sty ; h_initials : sdict }.
Fixpoint read_head (tr : Q) (fr : Q) (tm : qname -> text -> option (Z * sv)) (vl : Z -> sv -> bool)
                   (preserve : bool) (lang : text) (l : list xml) (h : hstate) : hstate + Z :=
  match l with
  | [] => inl h
  | c :: l' =>
      if qname_eqb (x_tag c) T_layout then
        if h_layout h then read_head tr fr tm vl preserve lang l' h
        else
          match read_layout (mkEnv tr fr [] tm vl (h_styles h)) (read_space (x_attrs c) preserve) (read_lang (x_attrs c) lang) (x_children c) [] with
          | inr e => inr e
          | inl rs => read_head tr fr tm vl preserve lang l' (mkH true (h_styling h) (h_regions h ++ rs) (h_styles h) (h_initials h))
          end
      else if qname_eqb (x_tag c) T_styling then
        if h_styling h then read_head tr fr tm vl preserve lang l' h
        else
          let '(t, ini) := read_styling tm vl (x_children c) (h_styles h) (h_initials h) in
          read_head tr fr tm vl preserve lang l' (mkH (h_layout h) true (h_regions h) (flatten t) ini)
      else read_head tr fr tm vl preserve lang l' h
  end.

(* TTElement.from_xml: children in document order; first body and first head only *)
Fixpoint read_tt_children (tr : Q) (fr : Q) (tm : qname -> text -> option (Z * sv)) (vl : Z -> sv -> bool)
                          (preserve : bool) (lang : text) (l : list xml)
                          (has_body has_head : bool) (h : hstate) (body : option mnode) : dres :=
  match l with
  | [] => DOk (mkRdoc lang (h_regions h) body (h_initials h))
  | c :: l' =>
      if qname_eqb (x_tag c) T_body then
        if has_body then read_tt_children tr fr tm vl preserve lang l' has_body has_head h body
        else
          match process (mkEnv tr fr (List.map region_id (h_regions h)) tm vl (h_styles h)) (mkPctx true (Some 0%Q) preserve lang true) c with
          | PErr e => DErr e
          | POk r => read_tt_children tr fr tm vl preserve lang l' true has_head h (r_node r)
          | PSkip => read_tt_children tr fr tm vl preserve lang l' true has_head h None
          end
      else if qname_eqb (x_tag c) T_head then
        if has_head then read_tt_children tr fr tm vl preserve lang l' has_body has_head h body
        else
          match read_head tr fr tm vl (read_space (x_attrs c) preserve) (read_lang (x_attrs c) lang) (x_children c) h with
          | inr e => DErr e
          | inl h' => read_tt_children tr fr tm vl preserve lang l' has_body true h' body
          end
      else read_tt_children tr fr tm vl preserve lang l' has_body has_head h body
  end.

(* reader.to_model on a <tt> root *)
Definition read_tt (tm : qname -> text -> option (Z * sv)) (vl : Z -> sv -> bool) (x : xml) : dres :=
  let attrs := x_attrs x in
  let preserve := read_space attrs false in
  let lang := match get_attr attrs A_lang with Some l => l | None => [] end in
  read_tt_children (extract_tick_rate attrs) (extract_frame_rate attrs) tm vl preserve lang (x_children x) false false (mkH false false [] [] []) None.
