(* Helpers evaluated by the generated C10 case files (coq/Gen/Cases_C10_k.v).
   A grammar case is (abstract file f, translated?, the text that was fed to ttconv.srt.reader.to_model,
   the canonicalised result of the implementation).  `translated` says whether the text went through a
   text-mode file object with universal newlines (as `tt convert` opens it) or through io.StringIO. *)
From TT Require Import Base.Prelude Base.SrtTypes Gen.SrtTables Model.SrtReader Spec.SrtCueSpec.
From Coq Require Import QArith.
Local Open Scope Z_scope.

(* short constructors for the literals *)
Definition D (t : text) : elem := ESpan st0 [EText t].
Definition Sp (b i u : bool) (c : option rgba) (kids : list elem) : elem := ESpan (mkSt b i u c) kids.
Definition Pq (n1 : Z) (d1 : positive) (n2 : Z) (d2 : positive) (kids : list elem) : pcue := mkP (Qmake n1 d1) (Qmake n2 d2) kids.

Definition impl_out := outcome (list pcue).
Definition gcase := (file_src * bool * text * impl_out)%type.
Definition tcase := (bool * text * impl_out)%type.

Definition run_m (translated : bool) (txt : text) : impl_out :=
  if translated then to_model_file txt else to_model txt.

(* M = code (no claim where M says Unmodelled) *)
Definition model_ok (c : tcase) : bool :=
  let '(tr, txt, out) := c in
  match run_m tr txt with
  | Unmodelled => true
  | got => outcome_eqb (list_eqb pcue_eqb) got out
  end.
Definition modelled (c : tcase) : bool :=
  let '(tr, txt, _) := c in match run_m tr txt with Unmodelled => false | _ => true end.
Definition tc_of (g : gcase) : tcase := let '(_, tr, txt, out) := g in (tr, txt, out).

(* the text fed to the implementation is what S prints for f, and f is in the grammar *)
Definition print_ok (g : gcase) : bool := let '(f, _, txt, _) := g in text_eqb (print_file f) txt && wf_file f.

(* S accepts the implementation's result: strict, and with the recorded findings excused *)
Definition spec_strict (g : gcase) : bool :=
  let '(f, _, _, out) := g in
  outcome_eqb (list_eqb cue_eqb) (outcome_map (map observe) out) (Ok (cues f)).
Definition trig_brace (g : gcase) : bool := let '(f, _, _, _) := g in trigger_brace_short f.
Definition trig_stray (g : gcase) : bool := let '(f, _, _, _) := g in trigger_stray_end f.
Definition trig_backslash (g : gcase) : bool := let '(f, _, _, _) := g in trigger_backslash f.
Definition trig_crlf (g : gcase) : bool := let '(f, tr, _, _) := g in trigger_crlf_untranslated f tr.
Definition excused (g : gcase) : bool := trig_brace g || trig_stray g || trig_backslash g || trig_crlf g.
Definition spec_ok (g : gcase) : bool := excused g || spec_strict g.

(* M = S on the same abstract file, evaluated (a test of the theorems' statement on samples, and the
   violation search's way of telling "M and the code moved together" from "only the code moved") *)
Definition model_spec (g : gcase) : bool :=
  let '(f, tr, _, _) := g in
  excused g ||
  match run_m tr (print_file f) with
  | Unmodelled => true
  | got => outcome_eqb (list_eqb cue_eqb) (outcome_map (map observe) got) (Ok (cues f))
  end.
