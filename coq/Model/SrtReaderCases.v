(* Helpers evaluated by the generated C10 case files (coq/Gen/Cases_C10_k.v).
   A grammar case is (abstract file f, translated?, the text that was fed to ttconv.srt.reader.to_model,
   the canonicalised result of the implementation).  `translated` says whether the text went through a
   text-mode file object with universal newlines (as `tt convert` opens it) or through io.StringIO. *)
From TT Require Import Base.Prelude Base.SrtTypes Gen.SrtTables Model.SrtReader Spec.SrtCueSpec Spec.SrtWriterOut.
From Coq Require Import QArith.
Local Open Scope Z_scope.

(* short constructors for the literals *)
Definition D (t : text) : elem := ESpan st0 [EText t].
Definition Sp (b i u : bool) (c : option rgba) (kids : list elem) : elem := ESpan (mkSt b i u c) kids.
Definition Pq (n1 : Z) (d1 : positive) (n2 : Z) (d2 : positive) (kids : list elem) : pcue := mkP (Qmake n1 d1) (Qmake n2 d2) kids.

Definition impl_out := outcome (list pcue).
Definition gcase := (file_src * bool * text * impl_out)%type.
Definition tcase := (bool * text * impl_out)%type.

Definition run_m (translated : bool) (txt : text) : impl_out :=
  if translated then to_model_file txt else to_model txt.

(* M = code (no claim where M says Unmodelled) *)
Definition model_ok (c : tcase) : bool :=
  let '(tr, txt, out) := c in
  match run_m tr txt with
  | Unmodelled => true
  | got => outcome_eqb (list_eqb pcue_eqb) got out
  end.
Definition modelled (c : tcase) : bool :=
  let '(tr, txt, _) := c in match run_m tr txt with Unmodelled => false | _ => true end.
Definition tc_of (g : gcase) : tcase := let '(_, tr, txt, out) := g in (tr, txt, out).

(* the text fed to the implementation is what S prints for f, and f is in the grammar *)
Definition print_ok (g : gcase) : bool := let '(f, _, txt, _) := g in text_eqb (print_file f) txt && wf_file f.

(* S accepts the implementation's result *)
Definition spec_ok (g : gcase) : bool :=
  let '(f, _, _, out) := g in
  outcome_eqb (list_eqb cue_eqb) (outcome_map (map observe) out) (Ok (cues f)).

(* M = S on the same abstract file, evaluated (a test of the theorems' statement on samples, and the
   violation search's way of telling "M and the code moved together" from "only the code moved") *)
Definition model_spec (g : gcase) : bool :=
  let '(f, tr, _, _) := g in
  match run_m tr (print_file f) with
  | Unmodelled => true
  | got => outcome_eqb (list_eqb cue_eqb) (outcome_map (map observe) got) (Ok (cues f))
  end.

(* ---- outputs of ttconv's SRT writer, parsed back by the harness into the abstract description of
   Spec/SrtWriterOut.v: (cues, translated?, the writer's output, what the reader made of it) *)
Definition wcase := (list wcue * bool * text * impl_out)%type.
Definition W (counter : text) (b e : Z) (p : list wnode) : wcue := mkW counter b e p.
(* the output is exactly what the description prints for these cues, and they meet its side conditions *)
Definition wprint_ok (w : wcase) : bool := let '(cs, _, txt, _) := w in text_eqb (wprint cs) txt && wwf cs.
(* S on the code: the reader returned the cues that were written (no finding is recorded: no trigger) *)
Definition wspec_ok (w : wcase) : bool :=
  let '(cs, _, _, out) := w in
  outcome_eqb (list_eqb cue_eqb) (outcome_map (map observe) out) (Ok (map wmeaning cs)).
(* M = S on the writer's output (the statement of C10_writer_roundtrip, evaluated) *)
Definition wmodel_spec (w : wcase) : bool :=
  let '(cs, tr, txt, _) := w in
  match run_m tr txt with
  | Unmodelled => true
  | got => outcome_eqb (list_eqb cue_eqb) (outcome_map (map observe) got) (Ok (map wmeaning cs))
  end.
