(* Executable trigger of the recorded C14 finding ruby-base-emptied-by-region.
   _clone_doc_with_one_region keeps an element whose children were ALL removed because they belong to other regions,
   as a childless element.  ISD._process_element run on the clone then prunes that element by its region test
   ("no children and not associated with the selected region"), whereas run on the document itself the element has
   children, passes the test, loses its children one by one and — when it is of a kind that is kept although childless
   (Rb, Rbc; Br/Text/Region never have children in a well-formed document) — stays in the snapshot.  The cached
   snapshot then lacks an empty <rb> that the uncached one has, or the surrounding Ruby.push_children raises in the
   cached path only.  The trigger says: restricted to region sel, some such element loses all its children. *)
From TT Require Import Model.Doc Gen.StyleTables Model.Isd Model.SigTimes.

(* the pruning test of _copy_content_element / _process_element on one element *)
Definition clone_prunes (sel : text) (inh : option text) (e : elem) : bool :=
  let assoc := match e_region (eattrs e) with Some r => Some r | None => inh end in
  negb (oid_eqb assoc (Some sel)) &&
  (negb (match echildren e with [] => false | _ => true end) || match assoc with Some _ => true | None => false end).

(* kinds that ISD._process_element returns even when no child survived *)
Definition kept_childless (k : kind) : bool := keep_always k || kind_eqb k KRegion.

Fixpoint clone_empties (sel : text) (inh : option text) (e : elem) : bool :=
  match e with
  | Elem a cs =>
      let assoc := match e_region a with Some r => Some r | None => inh end in
      let has_children := match cs with [] => false | _ => true end in
      if negb (oid_eqb assoc (Some sel)) && (negb has_children || match assoc with Some _ => true | None => false end)
      then false
      else
        existsb (clone_empties sel assoc) cs ||
        (kept_childless (e_kind a) && has_children && negb (oid_eqb assoc (Some sel)) && forallb (clone_prunes sel assoc) cs)
  end.

(* the document: only documents with at least two regions are cloned *)
Definition clone_empties_doc (d : doc) : bool :=
  match d_regions d, d_body d with
  | _ :: _ :: _, Some b =>
      existsb (fun r => match e_id (eattrs r) with Some rid => clone_empties rid None b | None => false end) (d_regions d)
  | _, _ => false
  end.
