(* Evaluation helpers for the generated C04 case files (coq/Gen/Cases_C04_*.v): comparison of the reader
   model's output with the canonical dump of the document built by ttconv.imsc.reader.to_model.
   Times are compared as rationals (Qeq_bool), everything else literally. *)
From TT Require Import Base.Prelude Base.ImscXml Model.ImscTime Model.ImscStyles Model.ImscTiming Model.ImscWrite Model.ImscWriteCases Gen.ImscTables.
From Coq Require Import QArith.
Local Open Scope Z_scope.

Definition oq_eqb (a b : option Q) : bool :=
  match a, b with None, None => true | Some x, Some y => Qeq_bool x y | _, _ => false end.
Definition otext_eqb (a b : option text) : bool :=
  match a, b with None, None => true | Some x, Some y => text_eqb x y | _, _ => false end.

Fixpoint list_eqb {A} (f : A -> A -> bool) (a b : list A) : bool :=
  match a, b with
  | [], [] => true
  | x :: a', y :: b' => f x y && list_eqb f a' b'
  | _, _ => false
  end.

Definition sv_eqb (a b : sv) : bool :=
  match a, b with SV x, SV y => sval_eqb x y | SO x, SO y => x =? y | _, _ => false end.
Definition sdict_eqb (a b : sdict) : bool := list_eqb (fun x y => (fst x =? fst y) && sv_eqb (snd x) (snd y)) a b.

(* animation steps: property, value and interval *)
Definition anim_eqb (a b : anim) : bool :=
  let '(pa, va, ba, ea) := a in let '(pb, vb, bb, eb) := b in
  (pa =? pb) && sv_eqb va vb && Qeq_bool ba bb && oq_eqb ea eb.

Fixpoint mnode_eqb (a b : mnode) {struct a} : bool :=
  match a, b with
  | MText s, MText t => text_eqb s t
  | MElem k1 r1 b1 e1 p1 l1 g1 s1 a1 c1, MElem k2 r2 b2 e2 p2 l2 g2 s2 a2 c2 =>
      ekind_eqb k1 k2 && otext_eqb r1 r2 && oq_eqb b1 b2 && oq_eqb e1 e2 && Bool.eqb p1 p2 && text_eqb l1 l2 &&
      otext_eqb g1 g2 && sdict_eqb s1 s2 && list_eqb anim_eqb a1 a2 &&
      (fix go (x y : list mnode) : bool :=
         match x, y with
         | [], [] => true
         | n :: x', m :: y' => mnode_eqb n m && go x' y'
         | _, _ => false
         end) c1 c2
  | _, _ => false
  end.

Definition omnode_eqb (a b : option mnode) : bool :=
  match a, b with None, None => true | Some x, Some y => mnode_eqb x y | _, _ => false end.

Definition dres_eqb (a b : dres) : bool :=
  match a, b with
  | DErr x, DErr y => x =? y
  | DOk d1, DOk d2 => text_eqb (d_lang d1) (d_lang d2) && list_eqb mnode_eqb (d_regions d1) (d_regions d2)
                      && omnode_eqb (d_body d1) (d_body d2) && sdict_eqb (d_initials d1) (d_initials d2)
  | _, _ => false
  end.

(* reading a style value: the parsers of Model/ImscWrite.v; tts:fontFamily, whose value syntax is not modelled, is looked up in the
   table the harness made by running the code's extract on every such attribute of the document (equal values get equal numbers) *)
Fixpoint style_prop_of (l : list ((Z * list Z) * Z)) (q : qname) : option Z :=
  match l with
  | [] => None
  | (k, p) :: l' => if qname_eqb k q then Some p else style_prop_of l' q
  end.
Definition opaque_prop (p : Z) : bool := (p =? P_FontFamily).
Fixpoint opaque_lookup (t : list (qname * text * option Z)) (q : qname) (raw : text) : option Z :=
  match t with
  | [] => None
  | (k, r, v) :: t' => if qname_eqb k q && text_eqb r raw then v else opaque_lookup t' q raw
  end.
Definition to_model_inst (optab : list (qname * text * option Z)) (q : qname) (raw : text) : option (Z * sv) :=
  match style_prop_of imsc_style_attrs q with
  | None => None
  | Some p =>
      if opaque_prop p then match opaque_lookup optab q raw with Some i => Some (p, SO i) | None => None end
      else match extract_style p raw with Some v => Some (p, SV v) | None => None end
  end.
Definition valid_inst (p : Z) (v : sv) : bool := match v with SV x => validate_style p x | SO _ => true end.

(* short names for the literals of the case files *)
Definition E := MElem.  Definition T := MText.  Definition S_ := @Some.
Definition case_model (x : xml) (optab : list (qname * text * option Z)) (expected : dres) : bool :=
  dres_eqb (read_tt (to_model_inst optab) valid_inst x) expected.

(* ---- S on the code's observations ----------------------------------------------------------------------
   [tab] maps every time-attribute string the generator printed to the abstract expression it was printed from;
   the table is checked against the grammar's printer, and strings outside it have no value (ignored). *)
From TT Require Import Spec.TtmlTimingSpec.
Definition table_ok (tab : list (text * texpr)) : bool :=
  forallb (fun p => wf_texpr (snd p) && text_eqb (print_time (snd p)) (fst p)) tab.
Definition tv_table (fr tr : Q) (tab : list (text * texpr)) (s : text) : option Q :=
  match assoc_text tab s with Some e => time_value fr tr e | None => None end.
Definition spec_tv (x : xml) (tab : list (text * texpr)) : text -> option Q :=
  tv_table (spec_frame_rate (x_attrs x)) (spec_tick_rate (x_attrs x)) tab.
Definition case_spec (x : xml) (tab : list (text * texpr)) (obs : list (Q * list text)) : bool :=
  table_ok tab && forallb (fun p => list_eqb text_eqb (presented (spec_tv x tab) x (fst p)) (snd p)) obs.
(* the specification's answer, for replay files *)
Definition spec_answers (x : xml) (tab : list (text * texpr)) (ts : list Q) : list (list text) :=
  List.map (presented (spec_tv x tab) x) ts.
Definition O := TOffset.  Definition Ck := TClock.  Definition Cf := TClockFrames.

(* ---- time expressions and parameters -------------------------------------------------------------------- *)
Definition tres_eqb (a b : tres) : bool :=
  match a, b with TVal x, TVal y => Qeq_bool x y | TBad, TBad => true | TZeroDiv, TZeroDiv => true | _, _ => false end.
Definition case_time (tr : option Q) (fr : option Q) (s : text) (expected : tres) : bool :=
  tres_eqb (parse_time_x tr fr s) expected.
(* S on the code's answer for a string printed from the grammar: the value of the expression, or rejection when the
   frames term is out of range *)
Definition case_time_spec (tr : Q) (fr : Q) (e : texpr) (got : tres) : bool :=
  wf_texpr e &&
  match time_value fr tr e, got with
  | Some v, TVal w => Qeq_bool v w
  | None, TBad => true
  | _, _ => false
  end.
Definition case_params (attrs : list (qname * text)) (fr : Q) (tr : Q) : bool :=
  Qeq_bool (extract_frame_rate attrs) fr && Qeq_bool (extract_tick_rate attrs) tr.
Definition case_params_spec (attrs : list (qname * text)) (fr : Q) (tr : Q) : bool :=
  Qeq_bool (spec_frame_rate attrs) fr && Qeq_bool (spec_tick_rate attrs) tr.

(* ---- S (styling) on the code's output --------------------------------------------------------------------------------------------
   [wftab]: the generator's table of (attribute, string, well-formed?) ; [valtab]: the number of the value that the code's own
   extract gives to each (attribute, string) in isolation (equal values, equal numbers).  The code's specified styles of every
   region and body element (document order) are given as sorted (property, value number) lists. *)
From TT Require Import Spec.TtmlStyleSpec.
Fixpoint tab_lookup {A} (t : list (qname * text * A)) (q : qname) (raw : text) : option A :=
  match t with [] => None | (k, r, v) :: t' => if qname_eqb k q && text_eqb r raw then Some v else tab_lookup t' q raw end.
Definition wf_of (wftab : list (qname * text * bool)) (q : qname) (raw : text) : bool :=
  match tab_lookup wftab q raw with Some b => b | None => false end.
Definition val_of (valtab : list (qname * text * Z)) (q : qname) (raw : text) : Z :=
  match tab_lookup valtab q raw with Some i => i | None => -1 end.
Fixpoint insert_kv (e : Z * Z) (l : list (Z * Z)) : list (Z * Z) :=
  match l with [] => [e] | x :: l' => if fst e <=? fst x then e :: l else x :: insert_kv e l' end.
Definition smap_ids (valtab : list (qname * text * Z)) (m : smap) : list (Z * Z) :=
  fold_right insert_kv [] (List.map (fun e => (fst e, val_of valtab (fst (snd e)) (snd (snd e)))) m).
Definition kv_eqb (a b : list (Z * Z)) : bool := list_eqb (fun x y => (fst x =? fst y) && (snd x =? snd y)) a b.
Definition case_styles (x : xml) (wftab : list (qname * text * bool)) (valtab : list (qname * text * Z))
                       (expected : list (list (Z * Z))) (initial : list (Z * Z)) : bool :=
  let po := style_prop_of imsc_style_attrs in
  list_eqb kv_eqb (List.map (smap_ids valtab) (doc_specified po (wf_of wftab) x)) expected &&
  kv_eqb (smap_ids valtab (doc_initial po (wf_of wftab) x)) initial.
Definition spec_styles (x : xml) (wftab : list (qname * text * bool)) (valtab : list (qname * text * Z)) : list (list (Z * Z)) :=
  List.map (smap_ids valtab) (doc_specified (style_prop_of imsc_style_attrs) (wf_of wftab) x).

(* ---- colour values: M = code on strings; S (Spec/TtmlColorSpec.v) on the code's answer for the yield of a derivation tree ------------------ *)
From TT Require Spec.TtmlColorSpec.
Definition case_color (s : text) (expected : option color) : bool := ocolor_eqb (parse_color s) expected.
(* [s] is the string the code was given: it must be the yield of the tree; a tree of the grammar must be read as the colour it denotes *)
Definition case_color_tree (t : TtmlColorSpec.color_ast) (s : text) (got : option color) : bool :=
  text_eqb (TtmlColorSpec.yield t) s && TtmlColorSpec.judge_tree t got.
Definition color_tree_wf (t : TtmlColorSpec.color_ast) : bool := TtmlColorSpec.wf_color t.
Definition CN := TtmlColorSpec.ANamed.  Definition CH6 := TtmlColorSpec.AHex6.  Definition CH8 := TtmlColorSpec.AHex8.
Definition CRgb := TtmlColorSpec.ARgb.  Definition CRgba := TtmlColorSpec.ARgba.  Definition Cp := TtmlColorSpec.mkComp.
