(* helpers evaluated by the generated C09 case files (harness/c09.py): decoding of the run-length encoded file
   bytes, comparison of the implementation's canonicalised output with M (reader_model), and evaluation of S
   (Spec/Ebu3264Spec.v) on the implementation's output *)
From Coq Require Import QArith.
From TT Require Import Base.Prelude Model.TimeCode Model.Iso6937 Model.StlTf Model.StlDatafile Model.StlTriggers Spec.Ebu3264Spec.
Open Scope Z_scope.

(* file bytes: a list of bytes in which a negative entry -n repeats the previous byte n more times *)
Fixpoint unrle_go (prev : Z) (l : list Z) : list Z :=
  match l with
  | [] => []
  | x :: r => if x <? 0 then repeat prev (Z.to_nat (- x)) ++ unrle_go prev r else x :: unrle_go x r
  end.
Definition unrle (l : list Z) : list Z := unrle_go 0 l.

(* ---- comparison of outcomes ------------------------------------------------------------------------- *)
Definition tol : Q := Qmake 1 1000000000.
Definition q_close (a b : Q) : bool := Qle_bool (a - b) tol && Qle_bool (b - a) tol.

Definition style_eqb (a b : style) : bool :=
  (s_fg a =? s_fg b) && (s_bg a =? s_bg b) && Bool.eqb (s_italic a) (s_italic b) && Bool.eqb (s_underline a) (s_underline b).
Definition leaf_eqb (a b : leaf) : bool :=
  match a, b with
  | LRun s t, LRun s' t' => style_eqb s s' && text_eqb t t'
  | LBr, LBr => true
  | _, _ => false
  end.
Fixpoint list_eqb {A} (f : A -> A -> bool) (a b : list A) : bool :=
  match a, b with
  | [], [] => true
  | x :: a', y :: b' => f x y && list_eqb f a' b'
  | _, _ => false
  end.
Definition pitem_eqb (a b : pitem) : bool :=
  match a, b with
  | PLeaf l, PLeaf l' => leaf_eqb l l'
  | PSub b1 e1 ls, PSub b2 e2 ls' => Qeq_bool b1 b2 && Qeq_bool e1 e2 && list_eqb leaf_eqb ls ls'
  | _, _ => false
  end.
Definition time_eqb (a b : option (Q * Q)) : bool :=
  match a, b with
  | None, None => true
  | Some (b1, e1), Some (b2, e2) => Qeq_bool b1 b2 && Qeq_bool e1 e2
  | _, _ => false
  end.
Definition para_eqb (a b : para) : bool :=
  (p_region a =? p_region b) && (p_align a =? p_align b) && (p_font_size a =? p_font_size b) &&
  (p_line_height a =? p_line_height b) && time_eqb (p_time a) (p_time b) && list_eqb pitem_eqb (p_items a) (p_items b).
(* the implementation's geometry is in binary floating point: compared up to 1e-9 *)
Definition region_close (a b : region) : bool :=
  q_close (r_x a) (r_x b) && q_close (r_y a) (r_y b) && q_close (r_w a) (r_w b) && q_close (r_h a) (r_h b) &&
  Bool.eqb (r_after a) (r_after b).
Definition font_eqb (a b : font) : bool := Bool.eqb (fst a) (fst b) && text_eqb (snd a) (snd b).
Definition pad_eqb (a b : option (Z * Z)) : bool :=
  match a, b with
  | None, None => true
  | Some (n, d), Some (n', d') => n * d' =? n' * d
  | _, _ => false
  end.
Definition active_close (a b : Q * Q * Q * Q) : bool :=
  let '(l, t, w, h) := a in let '(l', t', w', h') := b in q_close l l' && q_close t t' && q_close w w' && q_close h h'.
Definition doc_eqb (a b : sdoc) : bool :=
  text_eqb (d_lang a) (d_lang b) && (d_cols a =? d_cols b) && (d_rows a =? d_rows b) && active_close (d_active a) (d_active b) &&
  Bool.eqb (d_fill_line_gap a) (d_fill_line_gap b) && pad_eqb (d_line_padding a) (d_line_padding b) &&
  list_eqb font_eqb (d_fonts a) (d_fonts b) && list_eqb region_close (d_regions a) (d_regions b) &&
  list_eqb (list_eqb para_eqb) (d_divs a) (d_divs b).
Definition error_eqb (a b : error) : bool :=
  match a, b with
  | EStruct, EStruct | EAttribute, EAttribute | EValue, EValue | EZeroDiv, EZeroDiv => true
  | _, _ => false
  end.
Definition outcome_eqb (a b : outcome) : bool :=
  match a, b with
  | Ok d, Ok d' => doc_eqb d d'
  | Err e, Err e' => error_eqb e e'
  | _, _ => false
  end.

(* one case: the file, the configuration, what the implementation returned and the values it passed to the progress
   callback (binary floating point: compared up to 1e-9) *)
Definition case := (list Z * config * outcome * list Q)%type.
Definition case_model (c : case) : bool :=
  let '(f, cfg, out, prog) := c in
  outcome_eqb (reader_model (unrle f) cfg) out && list_eqb q_close (progress_model (unrle f) cfg) prog.
(* text-field cases: (teletext, cct, tf, leaves returned by tf.to_model) *)
Definition tf_case := (bool * list Z * list Z * list leaf)%type.
Definition tf_case_model (c : tf_case) : bool :=
  let '(tele, cct, tf, out) := c in list_eqb leaf_eqb (tf_model (decoder_of_cct cct) tele tf) out.

(* ---- S on the implementation's output ------------------------------------------------------------------ *)
Definition attrs_eqb (a b : attrs) : bool :=
  (a_fg a =? a_fg b) && (a_bg a =? a_bg b) && Bool.eqb (a_italic a) (a_italic b) && Bool.eqb (a_underline a) (a_underline b).
Definition piece_eqb (a b : piece) : bool :=
  match a, b with
  | Run x t, Run y u => attrs_eqb x y && text_eqb t u
  | Break, Break => true
  | _, _ => false
  end.
Definition part_eqb (a b : part) : bool :=
  Qeq_bool (pt_begin a) (pt_begin b) && Qeq_bool (pt_end a) (pt_end b) && list_eqb piece_eqb (pt_text a) (pt_text b).
Definition rect_close (r : region) (s : rect) : bool :=
  q_close (r_x r) (x0 s) && q_close (r_y r) (y0 s) && q_close (r_w r) (width s) && q_close (r_h r) (height s) &&
  Bool.eqb (r_after r) (align_after s).

Definition para_ok (rows : Z) (regions : list region) (p : para) (g : paragraph) : bool :=
  (p_align p =? align_code (pg_align g)) &&
  match parts_of_para p with Some ps => list_eqb part_eqb ps (pg_parts g) | None => false end &&
  match nth_error regions (Z.to_nat (p_region p)) with
  | Some r =>
      let top := top_anchored rows (pg_vp g) in
      let bot := bottom_anchored rows (pg_vp g + pg_rows g - 1) in
      let in_domain := (0 <=? pg_vp g) && (pg_vp g + pg_rows g - 1 <=? rows) in
      (rect_close r top && (negb in_domain || inside_safe_area_b top)) ||
      (rect_close r bot && (negb in_domain || inside_safe_area_b bot))
  | None => false
  end.

Fixpoint list_rel {A B} (f : A -> B -> bool) (a : list A) (b : list B) : bool :=
  match a, b with
  | [], [] => true
  | x :: a', y :: b' => f x y && list_rel f a' b'
  | _, _ => false
  end.

(* 0: the input is outside the specification's domain; 1: the output is what S prescribes; 2: it is not *)
Definition spec_verdict (file : list Z) (cfg : config) (out : outcome) : Z :=
  match spec_start (cf_start cfg) with
  | None => 0
  | Some sc =>
      match presentation file sc (spec_rows (cf_rows cfg)) with
      | None => 0
      | Some (groups, rows) =>
          match out with
          | Ok d => if list_rel (list_rel (fun p g => para_ok rows (d_regions d) p g)) (d_divs d) groups then 1 else 2
          | Err _ => 2
          end
      end
  end.

(* per case: bit 0 M = code, bits 1-2 S verdict, then the trigger mask *)
Definition case_verdict (c : case) : Z :=
  let '(f, cfg, out, prog) := c in
  let file := unrle f in
  (if outcome_eqb (reader_model file cfg) out && list_eqb q_close (progress_model file cfg) prog then 1 else 0) +
  2 * spec_verdict file cfg out + 8 * trigger_mask file cfg.

(* configuration cases: what STLReaderConfiguration.parse made of a dictionary with the keys disable_fill_line_gap,
   program_start_tc, disable_line_padding, max_row_count (None: key absent) - the configuration or the exception class *)
Definition start_eqb (a b : start_tc) : bool :=
  match a, b with
  | StNone, StNone | StTCP, StTCP => true
  | StStr t, StStr u => text_eqb t u
  | _, _ => false
  end.
Definition rows_eqb (a b : max_rows_cfg) : bool :=
  match a, b with
  | MrNone, MrNone | MrMNR, MrMNR => true
  | MrInt n, MrInt m => n =? m
  | _, _ => false
  end.
Definition config_eqb (a b : config) : bool :=
  start_eqb (cf_start a) (cf_start b) && rows_eqb (cf_rows a) (cf_rows b) &&
  Bool.eqb (cf_disable_fill_line_gap a) (cf_disable_fill_line_gap b) &&
  Bool.eqb (cf_disable_line_padding a) (cf_disable_line_padding b) &&
  match cf_font_stack a, cf_font_stack b with None, None => true | _, _ => false end.
Definition cfg_case := (option cfg_value * option cfg_value * option cfg_value * option cfg_value * (config + error))%type.
Definition cfg_case_ok (c : cfg_case) : bool :=
  let '(fill, start, pad, rows, out) := c in
  match parse_config fill start pad rows, out with
  | inl a, inl b => config_eqb a b
  | inr a, inr b => error_eqb a b
  | _, _ => false
  end.

(* text-field cases against S: 1 ok, 2 not *)
Definition tf_case_spec (c : tf_case) : Z :=
  let '(tele, cct, tf, out) := c in
  if list_eqb piece_eqb (map piece_of_leaf out) (tf_spec (decoder_spec cct) tele tf) then 1 else 2.
Definition tf_case_verdict (c : tf_case) : Z := (if tf_case_model c then 1 else 0) + 2 * tf_case_spec c.

(* ISO 6937 cases: (bytes, what iso6937.decode returned): bit 0 M = code; then 1 S ok, 2 not *)
Definition iso_case_verdict (c : list Z * text) : Z :=
  let '(k, v) := c in
  (if text_eqb (decode6937 k) v then 1 else 0) + 2 * (if text_eqb (decode_iso6937 k) v then 1 else 2).
