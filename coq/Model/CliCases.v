(* Evaluation helpers for C19: boolean equalities on the model's outcome types, the probe comparison used by
   Proofs/C19/Tables.v, and the evaluators run by the generated case files of harness/c19.py
   (M = code on observed plans and on decoder probes; S judged on the code's own observations). *)
From Coq Require Import String.
From TT Require Import Base.Prelude Base.CliTypes Gen.CliUnicode Model.Cli Spec.CliSpec.

Definition opt_eqb {A} (f : A -> A -> bool) (a b : option A) : bool :=
  match a, b with Some x, Some y => f x y | None, None => true | _, _ => false end.
Fixpoint list_eqb {A} (f : A -> A -> bool) (a b : list A) : bool :=
  match a, b with
  | [], [] => true
  | x :: a', y :: b' => f x y && list_eqb f a' b'
  | _, _ => false
  end.
Definition exn_code (e : exn) : Z :=
  match e with EValue => 1 | EType => 2 | EAttribute => 3 | EZeroDivision => 4 | EOverflow => 5 | EJsonDecode => 6
             | EOSError => 7 | EExitUnsupported => 8 | EExitUsage => 9 | EStage n => 100 + Z.abs n end.
Definition exn_eqb (a b : exn) : bool := exn_code a =? exn_code b.
Definition align_code (a : scc_align) : Z := match a with AlLeft => 0 | AlCenter => 1 | AlRight => 2 | AlAuto => 3 end.
Definition align_eqb (a b : scc_align) : bool := align_code a =? align_code b.
Definition tfmt_code (a : tfmt) : Z := match a with TfFrames => 0 | TfClockTime => 1 | TfClockTimeWithFrames => 2 end.
Definition tfmt_eqb (a b : tfmt) : bool := tfmt_code a =? tfmt_code b.
Definition mrc_eqb (a b : mrc) : bool :=
  match a, b with
  | MrcMNR, MrcMNR => true
  | MrcInt x, MrcInt y => x =? y
  | _, _ => false
  end.
Definition rgba_eqb (a b : rgba) : bool :=
  match a, b with (r, g, b', a'), (r2, g2, b2, a2) => (r =? r2) && (g =? g2) && (b' =? b2) && (a' =? a2) end.
Definition zz_eqb (a b : Z * Z) : bool := (fst a =? fst b) && (snd a =? snd b).
Definition stl_eqb (a b : stl_cfg) : bool :=
  Bool.eqb (st_fill_gap a) (st_fill_gap b) && opt_eqb text_eqb (st_start_tc a) (st_start_tc b) &&
  Bool.eqb (st_line_padding a) (st_line_padding b) && opt_eqb text_eqb (st_font_stack a) (st_font_stack b) &&
  opt_eqb mrc_eqb (st_max_row a) (st_max_row b).
Definition imsc_eqb (a b : imsc_cfg) : bool :=
  opt_eqb tfmt_eqb (im_time_format a) (im_time_format b) && opt_eqb zz_eqb (im_fps a) (im_fps b).
Definition vtt_eqb (a b : vtt_cfg) : bool :=
  Bool.eqb (vt_line_position a) (vt_line_position b) && Bool.eqb (vt_text_align a) (vt_text_align b) &&
  Bool.eqb (vt_cue_id a) (vt_cue_id b).
Definition lcd_eqb (a b : lcd_cfg) : bool :=
  (lc_safe_area a =? lc_safe_area b) && Bool.eqb (lc_preserve_text_align a) (lc_preserve_text_align b) &&
  opt_eqb rgba_eqb (lc_color a) (lc_color b) && opt_eqb rgba_eqb (lc_bg_color a) (lc_bg_color b).
Definition reader_eqb (a b : reader) : bool :=
  match a, b with
  | RdTtml, RdTtml | RdSrt, RdSrt | RdVtt, RdVtt => true
  | RdScc x, RdScc y => opt_eqb align_eqb x y
  | RdStl x, RdStl y => opt_eqb stl_eqb x y
  | _, _ => false
  end.
Definition writer_eqb (a b : writer) : bool :=
  match a, b with
  | WrTtml x, WrTtml y => opt_eqb imsc_eqb x y
  | WrSrt x, WrSrt y => opt_eqb Bool.eqb x y
  | WrVtt x, WrVtt y => opt_eqb vtt_eqb x y
  | _, _ => false
  end.
Definition filter_app_eqb (a b : filter_app) : bool := match a, b with FLcd x, FLcd y => lcd_eqb x y end.
Definition plan_eqb (a b : plan_t) : bool :=
  reader_eqb (p_reader a) (p_reader b) && opt_eqb text_eqb (p_lang a) (p_lang b) &&
  list_eqb filter_app_eqb (p_filters a) (p_filters b) && writer_eqb (p_writer a) (p_writer b) &&
  opt_eqb Z.eqb (p_level a) (p_level b) && opt_eqb Bool.eqb (p_progress a) (p_progress b).
Definition outcome_eqb (a b : outcome) : bool :=
  match a, b with
  | OError x, OError y => exn_eqb x y
  | OHelp, OHelp => true
  | OPlan x, OPlan y => plan_eqb x y
  | _, _ => false
  end.
Definition cval_eqb (a b : cval) : bool :=
  match a, b with
  | CNone, CNone => true
  | CBool x, CBool y => Bool.eqb x y
  | CInt x, CInt y => x =? y
  | CText x, CText y => text_eqb x y
  | CAlign x, CAlign y => align_eqb x y
  | CTfmt x, CTfmt y => tfmt_eqb x y
  | CFrac n d, CFrac n2 d2 => (n =? n2) && (d =? d2)
  | CMrc x, CMrc y => mrc_eqb x y
  | CColor r g b a', CColor r2 g2 b2 a2 => (r =? r2) && (g =? g2) && (b =? b2) && (a' =? a2)
  | _, _ => false
  end.
Definition probe_res_eqb (a b : probe_res) : bool :=
  match a, b with POk x, POk y => cval_eqb x y | PRaise x, PRaise y => exn_eqb x y | _, _ => false end.
Definition probe_of (r : res cval) : probe_res := match r with Ok c => POk c | Raise e => PRaise e end.

Definition event_eqb (a b : event) : bool :=
  match a, b with
  | EvProgress x, EvProgress y => Bool.eqb x y
  | EvLevel x, EvLevel y => x =? y
  | EvRead r p, EvRead r' p' => reader_eqb r r' && text_eqb p p'
  | EvLang x, EvLang y => text_eqb x y
  | EvFilter x, EvFilter y => filter_app_eqb x y
  | EvWrite x, EvWrite y => writer_eqb x y
  | EvOutput x, EvOutput y => text_eqb x y
  | _, _ => false
  end.
Definition final_eqb (a b : final unit) : bool :=
  match a, b with
  | FHelp, FHelp => true
  | FError x, FError y => exn_eqb x y
  | FDone p _, FDone q _ => text_eqb p q
  | _, _ => false
  end.

(* ---- decoder probes: (key, JSON value, what the code did) *)
Definition probe_ok (p : key * json * probe_res) : bool :=
  match p with (k, v, r) => probe_res_eqb (probe_of (decode k v)) r end.
Definition probes_model (ps : list (key * json * probe_res)) : list bool := List.map probe_ok ps.
(* S on the code's own answer: 0 = the code accepts v iff README documents it, and when it does the decoded value is the
   documented meaning; 2/3 = it does not and the trigger of recorded finding 2/3 covers (k, v); 8 = accepted and
   documented but the decoded value is not the documented meaning; 9 = acceptance differs and no trigger covers it *)
Definition probe_class (p : key * json * probe_res) : Z :=
  match p with (k, v, r) =>
    let accepted := match r with POk _ => true | PRaise _ => false end in
    if negb (in_table k v) then 0
    else if Bool.eqb accepted (documented k v)
         then match r with
              | POk c => if documented k v && negb (cval_eqb c (meaning k v)) then 8 else 0
              | PRaise _ => 0
              end
    else if trigger_lenient k v then 2
    else if trigger_rejected k v then 3
    else 9
  end.
Definition probes_spec (ps : list (key * json * probe_res)) : list Z := List.map probe_class ps.
(* how the code rejected: 0 = accepted, or rejected by ValueError (the decoders' own error); 7 = by another exception class *)
Definition probe_escape (p : key * json * probe_res) : Z :=
  match p with (k, v, r) =>
    match r with
    | POk _ => 0
    | PRaise e => if exn_eqb e EValue then 0 else 7
    end
  end.
Definition probes_escape (ps : list (key * json * probe_res)) : list Z := List.map probe_escape ps.

(* ---- command lines: (tokens, what json.loads made of each --config string, what each --config_file path gave,
                        the log and the end observed by running tt.main with recorders in place of readers/filters/writers,
                        exit status of the real process, output file exists afterwards, comparison with the library run) *)
Definition cli_case := (list text * list (text * option json) * list (text * file_src) * list event * final unit * Z * bool * Z)%type.
(* the recorders as stage functions: a document is the number of stage calls made so far; stage `inject` raises *)
Definition st_read (inject : Z) (r : reader) (p : text) : res Z := if inject =? 0 then Raise (EStage 1) else Ok 1.
Definition st_lang (l : text) (d : Z) : Z := d.
Definition st_filter (inject : Z) (f : filter_app) (d : Z) : res Z := if inject =? d then Raise (EStage 1) else Ok (d + 1).
Definition st_write (inject : Z) (w : writer) (d : Z) : res unit := if inject =? d then Raise (EStage 1) else Ok tt.
Definition model_run (inject : Z) (jenv : list (text * option json)) (fenv : list (text * file_src)) (toks : list text) : list event * final unit :=
  run_tokens Z unit (st_read inject) st_lang (st_filter inject) (st_write inject)
             (fun t => match env_get t jenv with Some (Some j) => Some j | _ => None end)
             (fun p => match env_get p fenv with Some f => f | None => FUnreadable end) toks.
Definition case_model (c : cli_case) : bool :=
  match c with (toks, jenv, fenv, ev, fin, _, _, _) =>
    let (ev', fin') := model_run (-1) jenv fenv toks in list_eqb event_eqb ev' ev && final_eqb fin' fin
  end.
Definition cases_model (cs : list cli_case) : list bool := List.map case_model cs.
(* the options S reads off a command line *)
Definition case_options (toks : list text) : option (options * option text * option text) :=
  match toks with
  | sub :: rest => if text_eqb sub (T "convert") then match spec_items rest with Some items => spec_options items | None => None end else None
  | [] => None
  end.
(* 0 = S holds with no finding excused, and when every value is documented the observed plan is spec_plan's;
   100 + mask = S holds only because recorded findings (mask) are excused; 8 = the observed plan is not the plan README
   prescribes although every consulted value is inside the table and outside every trigger; 9 = S is contradicted *)
Definition case_class (c : cli_case) : Z :=
  match c with (toks, jenv, fenv, ev, fin, rc, out_exists, cmp) =>
    if spec_case true toks jenv fenv ev fin rc out_exists cmp
    then match case_options toks with
         | Some (o, cc, cf) =>
             let i := env_inline jenv cc in let f := env_file fenv cf in
             if sources_ok i f && clean o (effective i f)
             then match spec_plan o (effective i f), fin with
                  | Some p, FDone _ _ => match plan_of_events ev with Some q => if plan_eqb p q then 0 else 8 | None => 8 end
                  | None, FError _ => 0
                  | _, _ => 8
                  end
             else 0
         | None => 0
         end
    else if spec_case false toks jenv fenv ev fin rc out_exists cmp
         then 100 + match case_options toks with
                    | Some (o, cc, cf) => options_mask o (effective (env_inline jenv cc) (env_file fenv cf))
                    | None => 0
                    end
    else 9
  end.
Definition cases_spec (cs : list cli_case) : list Z := List.map case_class cs.

(* ---- the same command lines with one stage made to raise: (tokens, environments, index of the failing stage call,
        observed log, observed end) *)
Definition inj_case := (list text * list (text * option json) * list (text * file_src) * Z * list event * final unit)%type.
Definition inj_model (c : inj_case) : bool :=
  match c with (toks, jenv, fenv, inject, ev, fin) =>
    let (ev', fin') := model_run inject jenv fenv toks in list_eqb event_eqb ev' ev && final_eqb fin' fin
  end.
(* S: a run that ends in an error has opened no output file; one that ends well has, once and last *)
Definition inj_spec (c : inj_case) : bool :=
  match c with (_, _, _, _, ev, fin) =>
    match fin with
    | FDone _ _ => shape_from 0 ev =? 7
    | FError _ => no_output_event ev && negb (shape_from 0 ev <? 0)
    | FHelp => match ev with [] => true | _ => false end
    end
  end.
Definition injs_model (cs : list inj_case) : list bool := List.map inj_model cs.
Definition injs_spec (cs : list inj_case) : list bool := List.map inj_spec cs.

(* ---- posixpath.splitext / FileTypes.get_file_type alone: (file_type, path, extension seen, type code or -1) *)
Definition ftype_code (t : ftype) : Z := match t with TTML => 0 | SCC => 1 | SRT => 2 | STL => 3 | VTT => 4 end.
Definition type_case_model (c : option text * text * text * Z) : bool :=
  match c with (g, p, e, t) =>
    text_eqb (splitext p) e &&
    (match get_file_type g (splitext p) with Ok x => ftype_code x | Raise _ => -1 end =? t)
  end.
Definition type_case_spec (c : option text * text * text * Z) : bool :=
  match c with (g, p, _, t) =>
    forallb (fun x => Bool.eqb (type_ok g p x) (ftype_code x =? t)) [TTML; SCC; SRT; STL; VTT]
  end.
Definition types_model (cs : list (option text * text * text * Z)) : list bool := List.map type_case_model cs.
Definition types_spec (cs : list (option text * text * text * Z)) : list bool := List.map type_case_spec cs.
