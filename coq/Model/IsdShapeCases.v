(* Evaluation helpers: S of C13 (Spec/IsdShape.v) applied to the implementation's snapshots. *)
From TT Require Import Model.Doc Gen.StyleTables Model.Isd Model.IsdCases Spec.IsdShape.

Definition cases_clause (i : nat) (units_except : list Z) (skip_rp : bool) (qs : list (Q * option (list elem))) : list bool :=
  map (fun q => match snd q with Some rs => nth i (shape_clauses units_except skip_rp rs) false | None => true end) qs.
(* the hypotheses of the C13 theorems, evaluated on every generated source document *)
Definition cases_wf (d : doc) : list bool := [doc_content_wf d; doc_values_wf d].
