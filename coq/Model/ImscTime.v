(* M for C04 (time expressions): transcription of ttconv/imsc/utils.py parse_time_expression and of the
   ttp:frameRate / ttp:frameRateMultiplier / ttp:tickRate extractors of ttconv/imsc/attributes.py.
   The regular expressions (compiled with re.ASCII, anchored with ^ and \Z) are transcribed as recognisers over code points:

     _OFFSET_FRAME_RE  ^(\d+(?:\.\d+)?)f\Z         likewise t, ms, s, m, h
     _CLOCK_TIME_FRACTION_RE  ^(\d{2,}):(\d\d):(\d\d(?:\.\d+)?)\Z
     _CLOCK_TIME_FRAMES_RE    ^(\d{2,}):(\d\d):(\d\d):(\d{2,})\Z

   Greedy matching of these patterns is deterministic: backtracking can never succeed where the greedy scan fails, because
   the character following a maximal digit run is not a digit.
   Fractions are Q; ZeroDivisionError (Fraction / 0, possible only when parse_time_expression is called with a zero rate:
   the attribute extractors never return one) is an explicit outcome. *)
From TT Require Import Base.Prelude Base.ImscXml.
From Coq Require Import QArith.
Local Open Scope Z_scope.

Definition is_digit (c : Z) : bool := (48 <=? c) && (c <=? 57).

(* the maximal run of digits at the head of s, and the rest *)
Fixpoint span_digits (s : text) : text * text :=
  match s with
  | c :: s' => if is_digit c then let '(d, r) := span_digits s' in (c :: d, r) else ([], s)
  | [] => ([], [])
  end.

(* int("...") of a digit string *)
Fixpoint digits_val (acc : Z) (ds : text) : Z :=
  match ds with [] => acc | c :: ds' => digits_val (acc * 10 + (c - 48)) ds' end.

Fixpoint pow10 (n : nat) : positive := match n with O => 1%positive | S k => (10 * pow10 k)%positive end.

(* Fraction("ip.fp") ; fp = [] when there is no fractional part *)
Definition dec_value (ip fp : text) : Q := Qmake (digits_val 0 (ip ++ fp)) (pow10 (length fp)).

(* (\d+(?:\.\d+)?) at the head of s: integer digits, fraction digits ([] if the group did not match), rest *)
Definition scan_number (s : text) : option (text * text * text) :=
  let '(ip, r) := span_digits s in
  match ip with
  | [] => None
  | _ :: _ =>
      match r with
      | 46 :: r' =>
          let '(fp, r'') := span_digits r' in
          match fp with [] => Some (ip, [], r) | _ :: _ => Some (ip, fp, r'') end
      | _ => Some (ip, [], r)
      end
  end.

Fixpoint strip_prefix (p s : text) : option text :=
  match p, s with
  | [], _ => Some s
  | a :: p', b :: s' => if a =? b then strip_prefix p' s' else None
  | _ :: _, [] => None
  end.

(* `\Z`: end of string *)
Definition at_end (s : text) : bool :=
  match s with [] => true | _ => false end.

(* ^(\d+(?:\.\d+)?)<unit>\Z *)
Definition match_offset (unit : text) (s : text) : option Q :=
  match scan_number s with
  | Some (ip, fp, r) =>
      match strip_prefix unit r with
      | Some r' => if at_end r' then Some (dec_value ip fp) else None
      | None => None
      end
  | None => None
  end.

Definition U_f := [102].  Definition U_t := [116].  Definition U_ms := [109; 115].
Definition U_s := [115].  Definition U_m := [109].  Definition U_h := [104].

Definition dig2 (a b : Z) : Z := (a - 48) * 10 + (b - 48).

(* ^(\d{2,}):(\d\d):(\d\d(?:\.\d+)?)$  ->  hours, minutes, seconds (a Fraction) *)
Definition match_clock_fraction (s : text) : option (Z * Z * Q) :=
  let '(hh, r) := span_digits s in
  if (2 <=? Z.of_nat (length hh)) then
    match r with
    | 58 :: m1 :: m2 :: 58 :: s1 :: s2 :: r2 =>
        if is_digit m1 && is_digit m2 && is_digit s1 && is_digit s2 then
          match r2 with
          | 46 :: r3 =>
              let '(fp, r4) := span_digits r3 in
              match fp with
              | [] => None
              | _ :: _ => if at_end r4 then Some (digits_val 0 hh, dig2 m1 m2, dec_value [s1; s2] fp) else None
              end
          | _ => if at_end r2 then Some (digits_val 0 hh, dig2 m1 m2, dec_value [s1; s2] []) else None
          end
        else None
    | _ => None
    end
  else None.

(* ^(\d{2,}):(\d\d):(\d\d):(\d{2,})$  ->  hours, minutes, seconds, frames *)
Definition match_clock_frames (s : text) : option (Z * Z * Z * Z) :=
  let '(hh, r) := span_digits s in
  if (2 <=? Z.of_nat (length hh)) then
    match r with
    | 58 :: m1 :: m2 :: 58 :: s1 :: s2 :: 58 :: r2 =>
        if is_digit m1 && is_digit m2 && is_digit s1 && is_digit s2 then
          let '(ff, r3) := span_digits r2 in
          if (2 <=? Z.of_nat (length ff)) && at_end r3
          then Some (digits_val 0 hh, dig2 m1 m2, dig2 s1 s2, digits_val 0 ff) else None
        else None
    | _ => None
    end
  else None.

Inductive tres := TVal (q : Q) | TBad | TZeroDiv.

Definition qdiv_res (a b : Q) : tres := if Qeq_bool b 0%Q then TZeroDiv else TVal (a / b)%Q.

(* parse_time_expression(tick_rate, frame_rate, time_expr): same order of tests as the code *)
Definition parse_time_x (tr : option Q) (fr : option Q) (s : text) : tres :=
  match match_offset U_f s, fr with
  | Some v, Some f => qdiv_res v f
  | _, _ =>
  match match_offset U_t s, tr with
  | Some v, Some t => qdiv_res v t
  | _, _ =>
  match match_offset U_ms s with
  | Some v => TVal (v / inject_Z 1000)%Q
  | None =>
  match match_offset U_s s with
  | Some v => TVal v
  | None =>
  match match_offset U_m s with
  | Some v => TVal (v * inject_Z 60)%Q
  | None =>
  match match_offset U_h s with
  | Some v => TVal (v * inject_Z 3600)%Q
  | None =>
  match match_clock_fraction s with
  | Some (h, m, sec) => TVal (inject_Z h * inject_Z 3600 + inject_Z m * inject_Z 60 + sec)%Q
  | None =>
  match match_clock_frames s, fr with
  | Some (h, m, sec, ff), Some f =>
      if Qle_bool f (inject_Z ff) then TBad      (* "Frame cound exceeds frame rate" *)
      else TVal (inject_Z h * inject_Z 3600 + inject_Z m * inject_Z 60 + inject_Z sec + inject_Z ff / f)%Q
  | _, _ => TBad
  end end end end end end end end.

(* the value, or None where the code raises (ValueError is caught and logged by the attribute readers) *)
Definition parse_time (tr : option Q) (fr : option Q) (s : text) : option Q :=
  match parse_time_x tr fr s with TVal q => Some q | _ => None end.

(* ---- ttp:frameRate, ttp:frameRateMultiplier, ttp:tickRate ---------------------------- *)
(* re.fullmatch(r"(\d+)", s, re.ASCII) and the value is > 0 *)
Definition pos_digits (s : text) : option Z :=
  let '(d, r) := span_digits s in
  match d, r with
  | _ :: _, [] => let v := digits_val 0 d in if 0 <? v then Some v else None
  | _, _ => None
  end.

(* re.fullmatch(r"(\d+) (\d+)", s, re.ASCII): the two integers (not yet tested for zero) *)
Definition int_pair (s : text) : option (Z * Z) :=
  let '(a, r) := span_digits s in
  match a, r with
  | _ :: _, 32 :: r' =>
      let '(b, r'') := span_digits r' in
      match b, r'' with _ :: _, [] => Some (digits_val 0 a, digits_val 0 b) | _, _ => None end
  | _, _ => None
  end.

(* FrameRateAttribute.extract: a malformed or zero ttp:frameRate is ignored (30), a malformed ttp:frameRateMultiplier or one with
   a zero term is ignored (1 1) *)
Definition frame_rate_attr (attrs : list (qname * text)) : option Z :=
  match get_attr attrs A_frameRate with Some raw => pos_digits raw | None => None end.
Definition extract_frame_rate (attrs : list (qname * text)) : Q :=
  let fr := match frame_rate_attr attrs with Some n => inject_Z n | None => inject_Z 30 end in
  match get_attr attrs A_frameRateMultiplier with
  | Some raw =>
      match int_pair raw with
      | Some (a, b) => if (0 <? a) && (0 <? b) then (fr * (inject_Z a / inject_Z b))%Q else (fr * 1)%Q
      | None => (fr * 1)%Q
      end
  | None => (fr * 1)%Q
  end.

(* TickRateAttribute.extract: the attribute if it is a positive integer; else the effective frame rate when ttp:frameRate is
   specified (and well-formed), else 1 *)
Definition extract_tick_rate (attrs : list (qname * text)) : Q :=
  match (match get_attr attrs A_tickRate with Some raw => pos_digits raw | None => None end) with
  | Some n => inject_Z n
  | None => match frame_rate_attr attrs with Some _ => extract_frame_rate attrs | None => 1%Q end
  end.
