(* Helpers evaluated by the generated case files of C01/C02/C03/C13/C14: comparison of a snapshot computed
   by M with the implementation's snapshot.  Everything is compared exactly except the rational numbers inside
   style values: the implementation computes them in binary floating point (100 / rows), so they are
   compared with the relative tolerance 1e-9 — the only tolerance in the system. *)
From Coq Require Import Qabs.
From TT Require Import Model.Doc Gen.StyleTables Model.Isd.

Definition tol : Q := Qmake 1 1000000000.
Definition q_close (a b : Q) : bool :=
  Qle_bool (Qabs (Qminus a b)) (Qmult tol (Qmax 1%Q (Qabs b))).
Definition len_close (a b : len) : bool := unit_eqb (lu a) (lu b) && q_close (lv a) (lv b).
Definition olen_close (a b : option len) : bool :=
  match a, b with Some x, Some y => len_close x y | None, None => true | _, _ => false end.
Definition oz_eqb (a b : option Z) : bool :=
  match a, b with Some x, Some y => x =? y | None, None => true | _, _ => false end.
Fixpoint list_close {A} (f : A -> A -> bool) (a b : list A) : bool :=
  match a, b with
  | [], [] => true
  | x :: a', y :: b' => f x y && list_close f a' b'
  | _, _ => false
  end.
Definition value_close (a b : value) : bool :=
  match a, b with
  | VEnum x, VEnum y => x =? y
  | VSpecial x, VSpecial y => x =? y
  | VColor x, VColor y => x =? y
  | VNum x, VNum y => q_close x y
  | VLen x, VLen y => len_close x y
  | VExtent h w, VExtent h' w' => len_close h h' && len_close w w'
  | VCoord x y, VCoord x' y' => len_close x x' && len_close y y'
  | VPos h he v ve, VPos h' he' v' ve' => len_close h h' && (he =? he') && len_close v v' && (ve =? ve')
  | VPad b e a s, VPad b' e' a' s' => len_close b b' && len_close e e' && len_close a a' && len_close s s'
  | VFonts f, VFonts f' => list_close (fun x y => (fst x =? fst y) && text_eqb (snd x) (snd y)) f f'
  | VTextDec u l o, VTextDec u' l' o' => (u =? u') && (l =? l') && (o =? o')
  | VEmph s c p, VEmph s' c' p' => (s =? s') && oz_eqb c c' && (p =? p')
  | VOutline c t, VOutline c' t' => oz_eqb c c' && len_close t t'
  | VShadow ss, VShadow ss' =>
      list_close (fun x y => let '(x1, y1, b1, c1) := x in let '(x2, y2, b2, c2) := y in
                             len_close x1 x2 && len_close y1 y2 && olen_close b1 b2 && oz_eqb c1 c2) ss ss'
  | VReserve p l, VReserve p' l' => (p =? p') && olen_close l l'
  | _, _ => false
  end.
Definition smap_close (a b : smap) : bool :=
  list_close (fun x y => (fst x =? fst y) && value_close (snd x) (snd y)) (ssort a) (ssort b).
Definition anim_close (a b : anim) : bool :=
  (a_prop a =? a_prop b) && oQ_eqb (a_begin a) (a_begin b) && oQ_eqb (a_end a) (a_end b) && value_close (a_val a) (a_val b).
Definition attrs_close (a b : attrs) : bool :=
  kind_eqb (e_kind a) (e_kind b) && oid_eqb (e_id a) (e_id b) && oQ_eqb (e_begin a) (e_begin b) &&
  oQ_eqb (e_end a) (e_end b) && oid_eqb (e_region a) (e_region b) && smap_close (e_styles a) (e_styles b) &&
  list_close anim_close (e_anims a) (e_anims b) && Bool.eqb (e_preserve a) (e_preserve b) &&
  text_eqb (e_lang a) (e_lang b) && text_eqb (e_text a) (e_text b).
Fixpoint elem_close (a b : elem) : bool :=
  match a, b with
  | Elem x cs, Elem y ds =>
      attrs_close x y &&
      (fix go (l m : list elem) : bool :=
         match l, m with
         | [], [] => true
         | c :: l', e :: m' => elem_close c e && go l' m'
         | _, _ => false
         end) cs ds
  end.
Definition isd_close (a b : list elem) : bool := list_close elem_close a b.

(* the implementation's outcome: Some regions, or None when it raised *)
Definition outcome_close (m : res (list elem)) (py : option (list elem)) : bool :=
  match m, py with
  | Ok a, Some b => isd_close a b
  | Err _, None => true
  | _, _ => false
  end.
(* one document, several query times *)
Definition cases_isd (d : doc) (qs : list (Q * option (list elem))) : list bool :=
  map (fun q => outcome_close (isd d (fst q)) (snd q)) qs.
