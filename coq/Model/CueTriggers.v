(* Executable triggers of the findings recorded for C06/C07 (findings_proposed/C06.txt, C07.txt): each
   characterises, narrowly, the inputs on which the named defect of the SRT / WebVTT writers fires.  They are
   evaluated on the snapshot sequence (Model/SigTimes.v) and on the cue lists of Model/CueWriter.v, are used as
   hypotheses (`= false`) of the `_partial` theorems and decide, in the checks, whether a disagreement between the
   code and S is a KNOWN-FINDING or a new VIOLATION.  No proofs here. *)
From TT Require Import Model.Doc Gen.StyleTables Model.Isd Model.SigTimes Model.TimeCode Model.IsdFilters Gen.CueTables Model.CueWriter.

Definition nonempty_text (a : attrs) : bool := match e_kind a, e_text a with KText, _ :: _ => true | _, _ => false end.
(* some Text leaf with characters below e *)
Fixpoint has_text (e : elem) : bool :=
  match e with
  | Elem a cs => nonempty_text a || (fix go (l : list elem) : bool := match l with [] => false | c :: l' => has_text c || go l' end) cs
  end.
(* ... outside ruby annotations (rt, rp, rtc) *)
Fixpoint has_base_text (e : elem) : bool :=
  match e with
  | Elem a cs =>
      match e_kind a with
      | KRt | KRp | KRtc => false
      | _ => nonempty_text a || (fix go (l : list elem) : bool := match l with [] => false | c :: l' => has_base_text c || go l' end) cs
      end
  end.
Fixpoint exists_elem (f : elem -> bool) (e : elem) : bool :=
  f e || match e with Elem _ cs => (fix go (l : list elem) : bool := match l with [] => false | c :: l' => exists_elem f c || go l' end) cs end.

(* on the cue lists *)
Definition cue_chars (c : cue) : text := chars_of (c_items c).
(* collapsed-interval: after rounding to the millisecond a cue does not end after it begins *)
Definition trig_collapsed (cs : list cue) : bool :=
  existsb (fun c => match c_end c with Some e => e <=? c_begin c | None => false end) cs.
(* a cue without an end: finish() of the SubRip writer reaches the last cue only (a second cue in the unbounded final interval
   needs a snapshot outside the content model: Proofs/C07/Single.v) *)
Definition trig_unbounded (cs : list cue) : bool := existsb (fun c => match c_end c with None => true | Some _ => false end) cs.

Fixpoint has_prefix_z (p t : text) : bool :=
  match p, t with [], _ => true | x :: p', y :: t' => (x =? y) && has_prefix_z p' t' | _ :: _, [] => false end.
Fixpoint contains_z (p t : text) : bool := has_prefix_z p t || match t with [] => false | _ :: t' => contains_z p t' end.
(* arrow-in-payload *)
Definition trig_arrow (esc : Z -> text) (cs : list cue) : bool := existsb (fun c => contains_z [45; 45; 62] (cue_text esc c)) cs.
(* blank-looking-line: the payload has an empty line (CR LF after LF, LF CR LF ...) or, SubRip only, a line of white space *)
Fixpoint lines_go (cur : text) (t : text) : list text :=
  match t with
  | [] => [rev cur]
  | c :: t' =>
      if c =? 10 then rev cur :: lines_go [] t'
      else if c =? 13 then rev cur :: match t' with d :: t'' => if d =? 10 then lines_go [] t'' else lines_go [] t' | [] => lines_go [] t' end
      else lines_go (c :: cur) t'
  end.
Definition trig_blank_line (ws_lines : bool) (esc : Z -> text) (cs : list cue) : bool :=
  existsb (fun c => existsb (fun l => if ws_lines then only_whitespace l else match l with [] => true | _ => false end)
                            (lines_go [] (cue_text esc c))) cs.
(* nested-span-resets-style: a span holding text whose computed weight / style / decoration is the default while an
   enclosing span's is bold / italic / underlined (its characters stay inside the outer span's tags) *)
Fixpoint reset_in (ob oi ou : bool) (e : elem) : bool :=
  match e with
  | Elem a cs =>
      match e_kind a with
      | KSpan =>
          let b := is_element_bold a in let i := is_element_italic a in let u := is_element_underlined a in
          (((ob && negb b) || (oi && negb i) || (ou && negb u)) && has_base_text e) ||
          (fix go (l : list elem) : bool := match l with [] => false | c :: l' => reset_in (ob || b) (oi || i) (ou || u) c || go l' end) cs
      | KRt | KRtc | KRp => false                (* annotations are not written *)
      | _ => (fix go (l : list elem) : bool := match l with [] => false | c :: l' => reset_in ob oi ou c || go l' end) cs
      end
  end.
Definition trig_reset_style (seq : list (Q * list elem)) : bool :=
  existsb (fun x => existsb (reset_in false false false) (snd x)) seq.
