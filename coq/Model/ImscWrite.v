(* M for C05: transcription of the value printers of the IMSC writer and of the matching value parsers of
   the IMSC reader.

   Printers: ttconv/imsc/attributes.py to_time_format (ClockTime / math.ceil frames / SmpteTimeCode, through
   Model/TimeCode.v of C12), FrameRateAttribute.set, the document-parameter setters; ttconv/imsc/style_properties.py
   StyleProperties.*.from_model, imsc/utils.py to_ttml_number (Python's format(x, "g") on a rational: 6 significant digits,
   round-half-even, trailing zeros stripped, exponent form when the decimal exponent is < -4 or >= 6 - then decimal.Decimal's
   "f" formatting, which writes the same digits without exponent), to_ttml_length, to_ttml_color, the enumerations' .value.
   Parsers: imsc/utils.py parse_length (regex ^((?:\+|\-)?\d*(?:\.\d+)?)(px|em|c|%|rh|rw)\Z, ASCII digits, then float()),
   parse_position, ttconv/utils.py parse_color (fullmatch of the four patterns, re.ASCII, components at most 255), StyleProperties.*.extract; float() on the fragment [sign] digits [point digits]
   (tts:opacity, tts:luminanceGain).

   Numbers are Q: a float written by the code is the rational it denotes, a float read by the code is the decimal
   it was read from (the harness converts with repr, exact for the <= 15 significant digits that occur).
   Outcomes of a printer: an attribute string, nothing (transparent tts:backgroundColor is not written), or a Python
   exception.  A parser returns None where the code raises ValueError / KeyError (logged, attribute ignored).
   Not transcribed: parse_font_families (a regular expression with look-behind), compared through the round trip only; float()
   outside the fragment above (exponents, inf, nan, underscores, surrounding white space). *)
From TT Require Import Base.Prelude Base.ImscXml Model.ImscTime Model.TimeCode Gen.ImscTables.
From Coq Require Import QArith Qminmax Qabs.
Local Open Scope Z_scope.

(* ---- integers in decimal ------------------------------------------------------------------------------- *)
Fixpoint digits_rev (fuel : nat) (n : Z) : list Z :=
  match fuel with
  | O => []
  | S k => if n <? 10 then [n] else (n mod 10) :: digits_rev k (n / 10)
  end.
(* the decimal digits of n >= 0, most significant first *)
Definition nat_digits (n : Z) : list Z := rev (digits_rev (S (Z.to_nat (Z.log2 n))) n).
Definition dchars (ds : list Z) : text := List.map (fun d => 48 + d) ds.
Definition print_nat (n : Z) : text := dchars (nat_digits n).
(* str(int) *)
Definition print_int (n : Z) : text := if n <? 0 then 45 :: print_nat (- n) else print_nat n.

Definition pow10z (n : nat) : Z := Zpos (pow10 n).

(* ---- format(x, "g") ------------------------------------------------------------------------------------- *)
Fixpoint exp_up (fuel : nat) (n d e : Z) : Z :=
  match fuel with O => e | S k => if d * 10 <=? n then exp_up k n (d * 10) (e + 1) else e end.
Fixpoint exp_down (fuel : nat) (n d e : Z) : Z :=
  match fuel with O => e | S k => if n <? d then exp_down k (n * 10) d (e - 1) else e end.
(* floor(log10(n/d)) for n, d > 0 *)
Definition dec_exponent (n d : Z) : Z :=
  let fuel := S (Z.to_nat (Z.log2 n + Z.log2 d + 2)) in
  if d <=? n then exp_up fuel n d 0 else exp_down fuel n d 0.

(* (negative, significand, exponent): x rounded half-even to 6 significant digits is +-significand * 10^exponent *)
Definition round6_parts (x : Q) : bool * Z * Z :=
  let n := Qnum x in let d := Zpos (Qden x) in
  if n =? 0 then (false, 0, -5) else
  let a := Z.abs n in
  let E := dec_exponent a d in
  let sh := 5 - E in
  let sig := if 0 <=? sh then round_he (a * pow10z (Z.to_nat sh)) d else round_he a (d * pow10z (Z.to_nat (- sh))) in
  if sig =? 1000000 then (n <? 0, 100000, E - 4) else (n <? 0, sig, E - 5).

(* the digits of F written with exactly p digits *)
Fixpoint frac_digits (p : nat) (F : Z) : list Z :=
  match p with
  | O => []
  | S k => (F / pow10z k) :: frac_digits k (F mod pow10z k)
  end.
(* rstrip("0") *)
Fixpoint rstrip0 (l : list Z) : list Z :=
  match l with
  | [] => []
  | d :: l' => match rstrip0 l' with [] => if d =? 0 then [] else [d] | r => d :: r end
  end.

Definition format_g_parts (neg : bool) (sig ex : Z) : text :=
  let sign := if neg then [45] else [] in
  if (0 <? ex) || (ex + 6 <=? -4) then
    (* scientific: d.ddddde+XX *)
    let ds := frac_digits 6 sig in
    let lead := match ds with d :: _ => [d] | [] => [0] end in
    let rest := rstrip0 (tl ds) in
    let e := ex + 5 in
    sign ++ dchars lead ++ (match rest with [] => [] | _ => 46 :: dchars rest end) ++ [101]
         ++ (if e <? 0 then [45] else [43]) ++ (if Z.abs e <? 10 then 48 :: print_nat (Z.abs e) else print_nat (Z.abs e))
  else
    let p := Z.to_nat (- ex) in
    let I := sig / pow10z p in
    let F := sig mod pow10z p in
    let fr := rstrip0 (frac_digits p F) in
    sign ++ print_nat I ++ (match fr with [] => [] | _ => 46 :: dchars fr end).

Definition format_g (x : Q) : text := let '(neg, sig, ex) := round6_parts x in format_g_parts neg sig ex.

(* to_ttml_number: f"{Decimal(f'{value:g}'):f}" - the digits of format(x, "g") written without exponent:
   integer part and fraction digits (trailing zeros stripped) of sig * 10^ex *)
Definition fixed_parts (sig ex : Z) : Z * list Z :=
  if 0 <? ex then (sig * pow10z (Z.to_nat ex), [])
  else let p := Z.to_nat (- ex) in (sig / pow10z p, rstrip0 (frac_digits p (sig mod pow10z p))).
Definition print_fixed (neg : bool) (ipart : Z) (fr : list Z) : text :=
  (if neg then [45] else []) ++ print_nat ipart ++ (match fr with [] => [] | _ :: _ => 46 :: dchars fr end).
Definition print_num (x : Q) : text :=
  let '(neg, sig, ex) := round6_parts x in let '(ipart, fr) := fixed_parts sig ex in print_fixed neg ipart fr.
(* the value that is written *)
Definition round6 (x : Q) : Q :=
  let '(neg, sig, ex) := round6_parts x in
  let m := if neg then - sig else sig in
  if 0 <=? ex then inject_Z (m * pow10z (Z.to_nat ex)) else Qmake m (pow10 (Z.to_nat (- ex))).
Definition uses_exponent (x : Q) : bool :=
  let '(_, _, ex) := round6_parts x in (0 <? ex) || (ex + 6 <=? -4).

(* ---- lengths ------------------------------------------------------------------------------------------------ *)
(* units are numbered as the members of LengthType.Units (Gen/ImscTables.v enum_LengthUnits) *)
Definition U_em := 0.  Definition U_pct := 1.  Definition U_rh := 2.  Definition U_rw := 3.  Definition U_c := 4.  Definition U_px := 5.

Fixpoint enum_value (tbl : list (list Z * Z * list Z)) (ord : Z) : option text :=
  match tbl with [] => None | (_, o, v) :: t => if o =? ord then Some v else enum_value t ord end.
Fixpoint enum_by_name (tbl : list (list Z * Z * list Z)) (name : text) : option Z :=
  match tbl with [] => None | (n, o, _) :: t => if text_eqb n name then Some o else enum_by_name t name end.
Fixpoint enum_by_value (tbl : list (list Z * Z * list Z)) (v : text) : option Z :=
  match tbl with [] => None | (_, o, w) :: t => if text_eqb w v then Some o else enum_by_value t v end.

Definition unit_text (u : Z) : text := match enum_value enum_LengthUnits u with Some t => t | None => [] end.

(* to_ttml_length: f"{to_ttml_number(value)}{units.value}" *)
Definition print_len (l : len) : text := print_num (l_val l) ++ unit_text (l_unit l).

(* the unit alternatives of _LENGTH_RE, in the order of the pattern *)
Definition length_units : list text := [[112; 120]; [101; 109]; [99]; [37]; [114; 104]; [114; 119]].
Fixpoint match_unit (us : list text) (r : text) : option text :=
  match us with
  | [] => None
  | u :: us' => match strip_prefix u r with
                | Some r' => if at_end r' then Some u else match_unit us' r
                | None => match_unit us' r
                end
  end.

(* the optional sign and the optional fraction of the number group of _LENGTH_RE *)
Definition split_sign (s : text) : bool * text :=
  match s with
  | c :: r => if c =? 43 then (false, r) else if c =? 45 then (true, r) else (false, s)
  | [] => (false, s)
  end.
Definition split_frac (r1 : text) : text * text :=
  match r1 with
  | c :: r' => if c =? 46 then let '(f, r'') := span_digits r' in match f with [] => ([], r1) | _ :: _ => (f, r'') end
               else ([], r1)
  | [] => ([], r1)
  end.

(* parse_length + StyleProperties.ttml_length_to_model *)
Definition parse_len (s : text) : option len :=
  let '(neg, r0) := split_sign s in
  let '(ip, r1) := span_digits r0 in
  let '(fp, r2) := split_frac r1 in
  match match_unit length_units r2 with
  | None => None
  | Some u =>
      match ip, fp with
      | [], [] => None                         (* float("") / float("+") / float("-") *)
      | _, _ =>
          match enum_by_value enum_LengthUnits u with
          | Some uo => let v := dec_value ip fp in Some (mkLen (if neg then (- v)%Q else v) uo)
          | None => None
          end
      end
  end.

(* float(s) on the fragment  [sign] digits [point [digits]]  or  [sign] point digits  (what to_ttml_number writes is inside it); None = ValueError
   (outside the fragment the code may still accept: exponents, inf, nan, underscores, white space - not transcribed) *)
Definition parse_float (s : text) : option Q :=
  let '(neg, r0) := split_sign s in
  let '(ip, r1) := span_digits r0 in
  match r1 with
  | [] => match ip with [] => None | _ :: _ => let v := dec_value ip [] in Some (if neg then (- v)%Q else v) end
  | c :: r2 =>
      if c =? 46 then
        let '(fp, r3) := span_digits r2 in
        match r3 with
        | [] => match ip, fp with
                | [], [] => None
                | _, _ => let v := dec_value ip fp in Some (if neg then (- v)%Q else v)
                end
        | _ :: _ => None
        end
      else None
  end.

(* ---- colours -------------------------------------------------------------------------------------------------- *)
Definition hexd (d : Z) : Z := if d <? 10 then 48 + d else 87 + d.
(* f"{c:02x}" for 0 <= c < 256 *)
Definition hex2 (c : Z) : text := [hexd (c / 16); hexd (c mod 16)].
(* to_ttml_color *)
Definition print_color (c : color) : text :=
  let '(r, g, b, a) := c in
  35 :: hex2 r ++ hex2 g ++ hex2 b ++ (if a =? 255 then [] else hex2 a).

Definition hexval (c : Z) : option Z :=
  if (48 <=? c) && (c <=? 57) then Some (c - 48)
  else if (97 <=? c) && (c <=? 102) then Some (c - 87)
  else if (65 <=? c) && (c <=? 70) then Some (c - 55) else None.
Definition hexpair (a b : Z) : option Z :=
  match hexval a, hexval b with Some x, Some y => Some (x * 16 + y) | _, _ => None end.
(* str.lower as far as membership in NamedColors.__members__ (ASCII names) goes: the only code points outside A-Z whose lower
   case contains an ASCII letter are U+212A KELVIN SIGN (-> k) and U+0130 (-> i followed by U+0307, which is in no name); the
   harness checks this claim against str.lower on every code point (harness/gen_c04.py) *)
Definition lower (c : Z) : Z := if (65 <=? c) && (c <=? 90) then c + 32 else if c =? 8490 then 107 else c.
Fixpoint assoc_color (l : list (list Z * (Z * Z * Z * Z))) (k : text) : option color :=
  match l with [] => None | (n, c) :: l' => if text_eqb n k then Some c else assoc_color l' k end.

(* \s under re.ASCII: [ \t\n\r\f\v] *)
Definition is_ws (c : Z) : bool := (c =? 32) || ((9 <=? c) && (c <=? 13)).
Fixpoint skip_ws (s : text) : text := match s with c :: s' => if is_ws c then skip_ws s' else s | [] => [] end.
(* \s*(\d+)\s*  followed by the character [stop] (\d under re.ASCII: 0-9); returns the digits of the group and what follows [stop] *)
Definition dec_component (stop : Z) (s : text) : option (text * text) :=
  let '(d, r) := span_digits (skip_ws s) in
  match d with
  | [] => None
  | _ :: _ => match skip_ws r with c :: r' => if c =? stop then Some (d, r') else None | [] => None end
  end.
(* \s*(\d+)  followed by [stop]: the first component of _DEC_COLORA_RE, which allows no white space before its comma *)
Definition dec_component_tight (stop : Z) (s : text) : option (text * text) :=
  let '(d, r) := span_digits (skip_ws s) in
  match d, r with
  | _ :: _, c :: r' => if c =? stop then Some (d, r') else None
  | _, _ => None
  end.
(* _color_component: int(digits), ValueError above 255.  int() itself raises ValueError when the string has more digits (leading zeros
   included) than sys.get_int_max_str_digits() - Gen/ImscTables.v int_max_str_digits, 4300 unless configured; 0 = no limit *)
Definition int_refuses (d : text) : bool := (0 <? int_max_str_digits) && (int_max_str_digits <? Z.of_nat (length d)).
Definition color_component (d : text) : option Z :=
  if int_refuses d then None else let v := digits_val 0 d in if 255 <? v then None else Some v.

(* _HEX_COLOR_RE.fullmatch: what follows "#" is six or eight hexadecimal digits *)
Definition hex_color (h : text) : option color :=
  match h with
  | [r1; r2; g1; g2; b1; b2] =>
      match hexpair r1 r2, hexpair g1 g2, hexpair b1 b2 with
      | Some r, Some g, Some b => Some (r, g, b, 255)
      | _, _, _ => None
      end
  | [r1; r2; g1; g2; b1; b2; a1; a2] =>
      match hexpair r1 r2, hexpair g1 g2, hexpair b1 b2, hexpair a1 a2 with
      | Some r, Some g, Some b, Some a => Some (r, g, b, a)
      | _, _, _, _ => None
      end
  | _ => None
  end.
(* _DEC_COLOR_RE.fullmatch: what follows "rgb(" *)
Definition rgb_color (t0 : text) : option color :=
  match dec_component 44 t0 with
  | Some (r, t1) => match dec_component 44 t1 with
    | Some (g, t2) => match dec_component 41 t2 with
      | Some (b, []) =>
          match color_component r, color_component g, color_component b with
          | Some r', Some g', Some b' => Some (r', g', b', 255)
          | _, _, _ => None
          end
      | _ => None end
    | None => None end
  | None => None
  end.
(* _DEC_COLORA_RE.fullmatch: what follows "rgba(" *)
Definition rgba_color (t0 : text) : option color :=
  match dec_component_tight 44 t0 with
  | Some (r, t1) => match dec_component 44 t1 with
    | Some (g, t2) => match dec_component 44 t2 with
      | Some (b, t3) => match dec_component 41 t3 with
        | Some (a, []) =>
            match color_component r, color_component g, color_component b, color_component a with
            | Some r', Some g', Some b', Some a' => Some (r', g', b', a')
            | _, _, _, _ => None
            end
        | _ => None end
      | None => None end
    | None => None end
  | None => None
  end.

(* ttconv.utils.parse_color: named colours (str.lower of the value is a member name), then fullmatch of #rrggbb[aa], rgb(), rgba();
   None = ValueError ("Bad Syntax", or a decimal component above 255) *)
Definition parse_color (s : text) : option color :=
  match assoc_color named_colors (List.map lower s) with
  | Some c => Some c
  | None =>
      match strip_prefix [35] s with                                (* # *)
      | Some h => hex_color h
      | None =>
      match strip_prefix [114; 103; 98; 40] s with                  (* rgb( *)
      | Some t0 => rgb_color t0
      | None =>
      match strip_prefix [114; 103; 98; 97; 40] s with              (* rgba( *)
      | Some t0 => rgba_color t0
      | None => None
      end end end
  end.

(* ---- style values ------------------------------------------------------------------------------------------------ *)
Inductive wres := WAttr (s : text) | WSkip | WErr (code : Z).     (* 3 = AttributeError, 4 = TypeError *)

(* str.split(" ") *)
Fixpoint split_on (sep : Z) (s : text) (cur : text) : list text :=
  match s with
  | [] => [cur]
  | c :: s' => if c =? sep then cur :: split_on sep s' [] else split_on sep s' (cur ++ [c])
  end.
Fixpoint join_with (sep : text) (l : list text) : text :=
  match l with [] => [] | [a] => a | a :: l' => a ++ sep ++ join_with sep l' end.

Definition enum_table (p : Z) : option (list (list Z * Z * list Z)) :=
  if p =? P_Direction then Some enum_DirectionType else
  if p =? P_Display then Some enum_DisplayType else
  if p =? P_DisplayAlign then Some enum_DisplayAlignType else
  if p =? P_FontStyle then Some enum_FontStyleType else
  if p =? P_FontWeight then Some enum_FontWeightType else
  if p =? P_MultiRowAlign then Some enum_MultiRowAlignType else
  if p =? P_Overflow then Some enum_OverflowType else
  if p =? P_RubyAlign then Some enum_RubyAlignType else
  if p =? P_RubyPosition then Some enum_AnnotationPositionType else
  if p =? P_ShowBackground then Some enum_ShowBackgroundType else
  if p =? P_TextAlign then Some enum_TextAlignType else
  if p =? P_TextCombine then Some enum_TextCombineType else
  if p =? P_UnicodeBidi then Some enum_UnicodeBidiType else
  if p =? P_Visibility then Some enum_VisibilityType else
  if p =? P_WrapOption then Some enum_WrapOptionType else
  if p =? P_WritingMode then Some enum_WritingModeType else None.

Definition T_true := [116; 114; 117; 101].  Definition T_false := [102; 97; 108; 115; 101].
Definition T_normal := [110; 111; 114; 109; 97; 108].  Definition T_none := [110; 111; 110; 101].
Definition T_auto := [97; 117; 116; 111].  Definition T_center := [99; 101; 110; 116; 101; 114].
Definition sp := [32].

Definition print_ocolor (c : option color) : list text := match c with Some x => [print_color x] | None => [] end.

Definition print_shadow (s : len * len * option len * option color) : text :=
  let '(x, y, blur, c) := s in
  print_len x ++ sp ++ print_len y ++ (match blur with Some b => sp ++ print_len b | None => [] end)
              ++ (match c with Some k => sp ++ print_color k | None => [] end).

Definition transparent : color := (0, 0, 0, 0).
Definition color_eqb (a b : color) : bool :=
  let '(r, g, b1, a1) := a in let '(r', g', b', a') := b in (r =? r') && (g =? g') && (b1 =? b') && (a1 =? a').

(* serialize_font_family: the backslash and the double quote are escaped *)
Fixpoint escape_quotes (s : text) : text :=
  match s with
  | [] => []
  | c :: s' => if (c =? 34) || (c =? 92) then 92 :: c :: escape_quotes s' else c :: escape_quotes s'
  end.
Definition print_family (f : bool * text) : text := if fst f then snd f else 34 :: escape_quotes (snd f) ++ [34].

(* StyleProperties.<p>.from_model(value) *)
Definition print_style (p : Z) (v : sval) : wres :=
  match v with
  | SColor c =>
      if p =? P_BackgroundColor then (if color_eqb c transparent then WSkip else WAttr (print_color c))
      else WAttr (print_color c)
  | SEnum o => match enum_table p with
               | Some t => match enum_value t o with Some s => WAttr s | None => WErr 4 end
               | None => WErr 4
               end
  | SLen l => WAttr (print_len l)
  | SNormal => if p =? P_LineHeight then WAttr T_normal else WErr 3
  | SNone => WAttr T_none                 (* TextOutline, RubyReserve, TextShadow, TextEmphasis *)
  | SExtent w h => WAttr (print_len w ++ sp ++ print_len h)
  | SOrigin x y => WAttr (print_len x ++ sp ++ print_len y)
  | SPadding b e a s => WAttr (print_len b ++ sp ++ print_len e ++ sp ++ print_len a ++ sp ++ print_len s)
  | SPosition he ho ve vo =>
      match enum_value enum_HEdge he, enum_value enum_VEdge ve with
      | Some hs, Some vs => WAttr (hs ++ sp ++ print_len ho ++ sp ++ vs ++ sp ++ print_len vo)
      | _, _ => WErr 4
      end
  | SBool b => WAttr (if b then T_true else T_false)
  (* tts:opacity, tts:luminanceGain, tts:shear: to_ttml_number (and "%" for shear) *)
  | SInt n => if p =? P_Shear then WAttr (print_num (inject_Z n) ++ [37]) else WAttr (print_num (inject_Z n))
  | SFrac q => if p =? P_Shear then WAttr (print_num q ++ [37]) else WAttr (print_num q)
  | STextDec u l o =>
      let tok (x : option bool) (yes no : text) : list text := match x with Some true => [yes] | Some false => [no] | None => [] end in
      (* a value without any component is not written *)
      match tok u [117;110;100;101;114;108;105;110;101] [110;111;85;110;100;101;114;108;105;110;101]
            ++ tok l [108;105;110;101;84;104;114;111;117;103;104] [110;111;76;105;110;101;84;104;114;111;117;103;104]
            ++ tok o [111;118;101;114;108;105;110;101] [110;111;79;118;101;114;108;105;110;101] with
      | [] => WSkip
      | ts => WAttr (join_with sp ts)
      end
  | SEmph st c pos =>
      match enum_value enum_TextEmphasisStyle st, enum_value enum_TextEmphasisPosition pos with
      | Some ss, Some ps => WAttr (join_with sp ([ss] ++ print_ocolor c ++ [ps]))
      | _, _ => WErr 4
      end
  | SOutline c th => WAttr (join_with sp (print_ocolor c ++ [print_len th]))
  | SShadows l => WAttr (join_with [44; 32] (List.map print_shadow l))
  | SReserve pos l =>
      match enum_value enum_RubyReservePosition pos with
      | Some ps => WAttr (ps ++ match l with Some x => sp ++ print_len x | None => [] end)
      | None => WErr 4
      end
  | SFonts fs => WAttr (join_with [44; 32] (List.map print_family fs))
  end.

(* has_px of the property classes *)
Definition is_px (l : len) : bool := l_unit l =? U_px.
Definition has_px (p : Z) (v : sval) : bool :=
  match v with
  | SLen l => if (p =? P_LinePadding) then false else is_px l
  | SExtent w h => is_px h || is_px w
  | SOrigin x y => is_px x || is_px y
  | SPadding b e a s => is_px a || is_px b || is_px s || is_px e
  | SPosition _ ho _ vo => is_px ho || is_px vo
  | SOutline _ th => is_px th
  | SReserve _ l => match l with Some x => is_px x | None => false end
  | SShadows l => existsb (fun s => let '(x, y, blur, _) := s in is_px x || is_px y || match blur with Some b => is_px b | None => false end) l
  | _ => false
  end.

(* ---- StyleProperties.<p>.extract(attribute string) ------------------------------------------------------------------ *)
Definition omap2 {A B C} (f : A -> B -> C) (a : option A) (b : option B) : option C :=
  match a, b with Some x, Some y => Some (f x y) | _, _ => None end.

Definition extract_enum (p : Z) (s : text) : option sval :=
  match enum_table p with
  | None => None
  | Some t =>
      let s' :=
        if p =? P_TextAlign then (if text_eqb s [108;101;102;116] then [115;116;97;114;116] else if text_eqb s [114;105;103;104;116] then [101;110;100] else s)
        else if p =? P_WritingMode then (if text_eqb s [108;114] then [108;114;116;98] else if text_eqb s [114;108] then [114;108;116;98]
                                         else if text_eqb s [116;98] then [116;98;114;108] else s)
        else s in
      match enum_by_name t s' with Some o => Some (SEnum o) | None => None end
  end.

Definition mem_tok (t : text) (l : list text) : bool := existsb (text_eqb t) l.

(* str.split(): runs of white space separate, no empty items *)
Fixpoint split_ws (s : text) (cur : text) : list text :=
  match s with
  | [] => match cur with [] => [] | _ => [cur] end
  | c :: s' => if (c =? 32) || ((9 <=? c) && (c <=? 13)) || ((28 <=? c) && (c <=? 31)) || (c =? 133) || (c =? 160)
               then match cur with [] => split_ws s' [] | _ => cur :: split_ws s' [] end
               else split_ws s' (cur ++ [c])
  end.

Definition L0pct := mkLen 0 U_pct.  Definition L50pct := mkLen (50 # 1) U_pct.
Definition T_left := [108;101;102;116].  Definition T_right := [114;105;103;104;116].
Definition T_top := [116;111;112].  Definition T_bottom := [98;111;116;116;111;109].

(* parse_position: state (h_edge, h_offset, v_edge, v_offset); None = ValueError from parse_length *)
Definition pstate := (option text * option len * option text * option len)%type.
Fixpoint pos12 (items : list text) (st : pstate) : option pstate :=
  match items with
  | [] => Some st
  | it :: rest =>
      let '(he, ho, ve, vo) := st in
      if text_eqb it T_left || text_eqb it T_right then pos12 rest (Some it, Some L0pct, ve, vo)
      else if text_eqb it T_top || text_eqb it T_bottom then pos12 rest (he, ho, Some it, Some L0pct)
      else if text_eqb it T_center then
        match he, ve with
        | None, _ => pos12 rest (Some T_left, Some L50pct, ve, vo)
        | Some _, None => pos12 rest (he, ho, Some T_top, Some L50pct)
        | Some _, Some _ => pos12 rest st
        end
      else
        match parse_len it with
        | None => None
        | Some l =>
            match he, ve with
            | None, _ => pos12 rest (Some T_left, Some l, ve, vo)
            | Some _, None => pos12 rest (he, ho, Some T_top, Some l)
            | Some _, Some _ => pos12 rest st
            end
        end
  end.
Fixpoint pos34 (items : list text) (st : pstate) : option pstate :=
  match items with
  | [] => Some st
  | it :: rest =>
      let '(he, ho, ve, vo) := st in
      if text_eqb it T_left || text_eqb it T_right then
        pos34 rest (Some it, ho, ve, match ve, vo with Some _, None => Some L0pct | _, _ => vo end)
      else if text_eqb it T_top || text_eqb it T_bottom then
        pos34 rest (he, match he, ho with Some _, None => Some L0pct | _, _ => ho end, Some it, vo)
      else if text_eqb it T_center then pos34 rest st
      else
        match parse_len it with
        | None => None
        | Some l =>
            let ho' := match he, ho with Some _, None => Some l | _, _ => ho end in
            let vo' := match ve, vo with Some _, None => Some l | _, _ => vo end in
            pos34 rest (he, ho', ve, vo')
        end
  end.
Definition parse_position (s : text) : option sval :=
  let items := split_ws s [] in
  let n := Z.of_nat (length items) in
  if n =? 0 then None else                 (* "Empty tts:position value" *)
  match (if (n =? 1) || (n =? 2) then pos12 items (None, None, None, None) else pos34 items (None, None, None, None)) with
  | None => None
  | Some (he, ho, ve, vo) =>
      let '(he1, ho1) := match ho with Some l => (he, l) | None => match he with None => (Some T_left, L50pct) | Some _ => (he, L0pct) end end in
      let '(ve1, vo1) := match vo with Some l => (ve, l) | None => match ve with None => (Some T_top, L50pct) | Some _ => (ve, L0pct) end end in
      (* PositionType.HEdge(h_edge) / VEdge(v_edge): by value; a length item met before any edge leaves the edge None -> ValueError *)
      match he1, ve1 with
      | Some h, Some v =>
          match enum_by_value enum_HEdge h, enum_by_value enum_VEdge v with
          | Some hn, Some vn => Some (SPosition hn ho1 vn vo1)
          | _, _ => None
          end
      | _, _ => None
      end
  end.

Definition parse_shadow (s : text) : option (len * len * option len * option color) :=
  let cs := split_ws s [] in               (* shadow.split() *)
  match cs with
  | [x; y] => omap2 (fun a b => (a, b, None, None)) (parse_len x) (parse_len y)
  | [x; y; z] =>
      match parse_len x, parse_len y with
      | Some a, Some b => match parse_len z with
                          | Some bl => Some (a, b, Some bl, None)
                          | None => match parse_color z with Some c => Some (a, b, None, Some c) | None => None end
                          end
      | _, _ => None
      end
  | [x; y; z; w] =>
      match parse_len x, parse_len y, parse_len z, parse_color w with
      | Some a, Some b, Some bl, Some c => Some (a, b, Some bl, Some c)
      | _, _, _, _ => None
      end
  | _ => None
  end.
Fixpoint all_some {A} (l : list (option A)) : option (list A) :=
  match l with
  | [] => Some []
  | Some x :: l' => match all_some l' with Some r => Some (x :: r) | None => None end
  | None :: _ => None
  end.

(* TextEmphasis.extract: a fold over the components *)
Definition emph_styles : list text := [[102;105;108;108;101;100]; [111;112;101;110]].                       (* filled open *)
Definition emph_symbols : list text := [[99;105;114;99;108;101]; [100;111;116]; [115;101;115;97;109;101]].  (* circle dot sesame *)
Inductive emres := EmNone | EmErr | EmSt (style_style style_symbol : option text) (c : option color) (pos : option Z).
Fixpoint emph_fold (cs : list text) (ss sy : option text) (c : option color) (pos : option Z) : emres :=
  match cs with
  | [] => EmSt ss sy c pos
  | t :: rest =>
      if text_eqb t T_none then EmNone
      else if text_eqb t T_auto then emph_fold rest ss sy c pos
      else if mem_tok t emph_styles then emph_fold rest (Some t) sy c pos
      else if mem_tok t emph_symbols then emph_fold rest ss (Some t) c pos
      else match enum_by_name enum_TextEmphasisPosition t with
           | Some o => emph_fold rest ss sy c (Some o)
           | None =>
               if text_eqb t [99;117;114;114;101;110;116] then emph_fold rest ss sy None pos
               else match parse_color t with Some k => emph_fold rest ss sy (Some k) pos | None => EmErr end
           end
  end.

Definition decoration_tokens : list text :=
  [[117;110;100;101;114;108;105;110;101]; [110;111;85;110;100;101;114;108;105;110;101];
   [108;105;110;101;84;104;114;111;117;103;104]; [110;111;76;105;110;101;84;104;114;111;117;103;104];
   [111;118;101;114;108;105;110;101]; [110;111;79;118;101;114;108;105;110;101]].

Definition extract_style (p : Z) (s : text) : option sval :=
  if (p =? P_BackgroundColor) || (p =? P_Color) then
    match parse_color s with Some c => Some (SColor c) | None => None end
  else if (p =? P_FontSize) || (p =? P_Disparity) then
    match parse_len s with Some l => Some (SLen l) | None => None end
  else if p =? P_LineHeight then
    if text_eqb s T_normal then Some SNormal else match parse_len s with Some l => Some (SLen l) | None => None end
  else if p =? P_LinePadding then
    match parse_len s with Some l => if l_unit l =? U_c then Some (SLen l) else None | None => None end
  else if p =? P_Extent then
    if text_eqb s T_auto then Some (SExtent (mkLen 1 U_rw) (mkLen 1 U_rh))
    else match split_on 32 s [] with
         | [w; h] => omap2 SExtent (parse_len w) (parse_len h)
         | _ => None
         end
  else if p =? P_Origin then
    if text_eqb s T_auto then Some (SOrigin L0pct L0pct)
    else match split_on 32 s [] with
         | [x; y] => omap2 SOrigin (parse_len x) (parse_len y)
         | _ => None
         end
  else if p =? P_Padding then
    match split_on 32 s [] with
    | [a] => match parse_len a with Some l => Some (SPadding l l l l) | None => None end
    | [a; b] => match parse_len a, parse_len b with Some x, Some y => Some (SPadding x y x y) | _, _ => None end
    | [a; b; c] => match parse_len a, parse_len b, parse_len c with Some x, Some y, Some z => Some (SPadding x y z y) | _, _, _ => None end
    | [a; b; c; d] => match parse_len a, parse_len b, parse_len c, parse_len d with
                      | Some x, Some y, Some z, Some w => Some (SPadding x y z w) | _, _, _, _ => None end
    | _ => None
    end
  else if p =? P_Position then parse_position s
  else if p =? P_Shear then
    (* parse_length, % only, clamped to +-100 *)
    match parse_len s with
    | Some l => if l_unit l =? U_pct then
                  let v := l_val l in
                  Some (SFrac (if Qle_bool (Qabs v) (100 # 1) then v else if Qle_bool 0 v then (100 # 1) else (- (100 # 1)))%Q)
                else None
    | None => None
    end
  else if p =? P_FillLineGap then
    if text_eqb s T_true then Some (SBool true) else if text_eqb s T_false then Some (SBool false) else None
  else if p =? P_TextDecoration then
    if text_eqb s T_none then Some (STextDec (Some false) (Some false) (Some false))
    else
      let ts := split_on 32 s [] in
      let pick (yes no : text) : option bool := if mem_tok yes ts then Some true else if mem_tok no ts then Some false else None in
      if negb (forallb (fun t => mem_tok t decoration_tokens) ts) then None else
      Some (STextDec (pick [117;110;100;101;114;108;105;110;101] [110;111;85;110;100;101;114;108;105;110;101])
                     (pick [108;105;110;101;84;104;114;111;117;103;104] [110;111;76;105;110;101;84;104;114;111;117;103;104])
                     (pick [111;118;101;114;108;105;110;101] [110;111;79;118;101;114;108;105;110;101]))
  else if (p =? P_Opacity) || (p =? P_LuminanceGain) then
    match parse_float s with Some v => Some (SFrac v) | None => None end
  else if p =? P_TextOutline then
    if text_eqb s T_none then Some SNone
    else match split_on 32 s [] with
         | [t] => match parse_len t with Some l => Some (SOutline None l) | None => None end
         | [c; t] => match parse_len t with
                     | Some l => match parse_color c with Some k => Some (SOutline (Some k) l) | None => None end
                     | None => None
                     end
         | _ => None
         end
  else if p =? P_RubyReserve then
    if text_eqb s T_none then Some SNone
    else match split_on 32 s [] with
         | [a] => match enum_by_name enum_RubyReservePosition a with Some o => Some (SReserve o None) | None => None end
         | [a; b] => match enum_by_name enum_RubyReservePosition a with
                     | Some o => match parse_len b with Some l => Some (SReserve o (Some l)) | None => None end
                     | None => None
                     end
         | _ => None
         end
  else if p =? P_TextShadow then
    if text_eqb s T_none then Some SNone
    else match all_some (List.map parse_shadow (split_on 44 s [])) with Some l => Some (SShadows l) | None => None end
  else if p =? P_TextEmphasis then
    match emph_fold (split_on 32 s []) None None None None with
    | EmNone => Some SNone
    | EmErr => None
    | EmSt ss sy c pos =>
        let st :=
          match ss, sy with
          | None, None => enum_by_name enum_TextEmphasisStyle T_auto
          | _, _ =>
              let a := match ss with Some x => x | None => [102;105;108;108;101;100] end in
              let b := match sy with Some x => x | None => [99;105;114;99;108;101] end in
              enum_by_value enum_TextEmphasisStyle (a ++ sp ++ b)
          end in
        match st with
        | Some o => Some (SEmph o c (match pos with Some x => x | None => 0 end))
        | None => None
        end
    end
  else extract_enum p s.

(* StyleProperties.<p>.validate as far as a parsed value can fail it: the units of tts:extent, tts:origin, tts:position and
   ebutts:linePadding (set_style / DiscreteAnimationStep raise ValueError, which the reader logs) *)
Definition unit_in (u : Z) (l : list Z) : bool := existsb (Z.eqb u) l.
Definition validate_style (p : Z) (v : sval) : bool :=
  match v with
  | SExtent w h => unit_in (l_unit w) [U_pct; U_px; U_c; U_rw] && unit_in (l_unit h) [U_pct; U_px; U_c; U_rh]
  | SOrigin x y => unit_in (l_unit x) [U_pct; U_px; U_c; U_rw] && unit_in (l_unit y) [U_pct; U_px; U_c; U_rh]
  | SPosition _ ho _ vo => unit_in (l_unit ho) [U_pct; U_px; U_c; U_rw] && unit_in (l_unit vo) [U_pct; U_px; U_c; U_rh]
  | SLen l => if p =? P_LinePadding then unit_in (l_unit l) [U_c; U_rh; U_rw] else true
  | _ => true
  end.
(* what the reader stores for a style attribute: the parsed value if the model accepts it *)
Definition read_style (p : Z) (s : text) : option sval :=
  match extract_style p s with
  | Some v => if validate_style p v then Some v else None
  | None => None
  end.

(* ---- time expressions: to_time_format ------------------------------------------------------------------------------ *)
Inductive tsyntax := SyClock | SyFrames | SyClockFrames.
(* None = ValueError (ClockTime.from_seconds refuses negative values); negative values in the frame syntaxes produce
   strings the reader rejects and are not transcribed (finding negative-time) *)
Definition to_time_format (syn : tsyntax) (fps : option Q) (t : Q) : option text :=
  if Qnum t <? 0 then None else
  match syn, fps with
  | SyFrames, Some f =>
      let q := (t * f)%Q in Some (print_int (ceil_div (Qnum q) (Zpos (Qden q))) ++ [102])
  | SyClockFrames, Some f =>
      let r := mkRate (Qnum f) (Zpos (Qden f)) in
      Some (print_tc r (from_seconds r (Qnum t) (Zpos (Qden t))))
  | _, _ =>
      match clock_from_seconds (Qnum t) (Zpos (Qden t)) with
      | Some l => Some (print_clock 46 l)
      | None => None
      end
  end.

(* FrameRateAttribute.set: ttp:frameRate and, when needed, ttp:frameRateMultiplier *)
Definition print_frame_rate (fps : Q) : text * option text :=
  let r := round_he (Qnum fps) (Zpos (Qden fps)) in
  let m := Qred (fps / inject_Z r) in
  (print_int r, if Qeq_bool m 1 then None else Some (print_int (Qnum m) ++ sp ++ print_int (Zpos (Qden m)))).
