(* C18 — the exact trigger of finding vtt-ruby-structure, evaluated on cue texts.

   The C11 development holds an exact model of vtt/reader.py _parse_cue_text: the tokenizer (Model/VttTokenizer.v) and
   _TextCueParser with its ruby state (Model/VttReader.v parse_cue_text), tied to the code by C11's own correspondence, with
   the theorem C11_cue_text_exceptions (the only exceptions are TypeError and RuntimeError, each raised by a push_child that
   refuses the child: the recorded ruby structures).  C18 uses it read-only as the PREDICATE ON THE INPUT of its finding
   vtt-ruby-structure: harness/guards18.py cue_text_predictions evaluates [cue_class] on every cue text the WebVTT reader handed
   to its parser in this run, and harness/c18.py accepts a failure of that parser as the recorded finding only when the class
   the code raised is the class computed here; every other difference (an exception where the model returns a tree, another
   class, a tree where the model raises) is a VIOLATION with the cue text as replay.

   Kept apart from Model/GuardCases.v: Model/VttReader.v and Model/ReaderGuards.v define different things under the same names. *)
From Coq Require Import QArith.
From TT Require Import Base.Prelude Model.VttTokenizer Model.VttReader.
Local Open Scope Z_scope.

(* outcome class of _parse_cue_text in the integer codes of Model/Outcome.v (internal_code): 0 = the parser returns,
   21 = TypeError, 29 = RuntimeError; the other constructors of C11's exn are dead in the model (Proofs/C11/Outcome.v) and are
   given their codes only so that a change of that model shows *)
Definition exn_code (e : exn) : Z :=
  match e with
  | ExAttribute => 20 | ExType => 21 | ExUnboundLocal => 24 | ExRuntime => 29 | ExValue => 11 | ExModelInternal => 99
  end.
(* the begin of the paragraph only enters the begin attribute of the spans after a timestamp tag, never the outcome class *)
Definition cue_class (cue_text : text) : Z :=
  match parse_cue_text 0 cue_text with inl _ => 0 | inr e => exn_code e end.

(* does the cue text open a ruby element at all (a start tag whose lower-cased name starts with "ruby")?  For the evidence:
   the distribution of the generated cue texts *)
Definition has_ruby_tag (cue_text : text) : bool :=
  existsb (fun t => match t with TStart tag _ _ => starts_with s_ruby (lower tag) | _ => false end) (tokenize cue_text).

(* (class, has a ruby start tag) per cue text, as one number: class * 2 + (1 if ruby) *)
Definition cue_report (cue_text : text) : Z := cue_class cue_text * 2 + (if has_ruby_tag cue_text then 1 else 0).
