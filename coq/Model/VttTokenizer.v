(* M for C11, part 1: ttconv/vtt/tokenizer.py CueTextTokenizer, transcribed state by state.

   Text is a list of code points.  The Python generator keeps `position`, `state`, `result`, `buffer`
   and `classes`; here the inner "codepoint loop" is `scan` (structural on the remaining input) and
   the outer "token loop" is `tok_loop` (fuel = length of the input: every token consumes at least one
   code point).  `result`/`buffer` are StringBuf objects whose only observable is their concatenation,
   so they are flat texts (StringBuf.is_empty = "the concatenation is empty").

   Python facts reproduced literally:
   * a character reference in the data state collects everything up to the next `;` in `buffer` (which starts as
     "&"); html.unescape is applied to buffer + ";" and the result appended to `result` (an undecodable reference
     thus stays as it was written, with its `;`).  At end of input the buffer is copied undecoded.
   * a character reference in a start-tag annotation (`_State.annot_cref`, its own Enum value since 541c2c8)
     collects into its own buffer `cref`; html.unescape(cref + ";") is appended to the annotation buffer; `>` or
     end of input copy `cref` undecoded and are then processed by the annotation state (`continue`).
   * `buffer` is reset per token only; a character reference that decodes to the empty string leaves
     `result` empty and a stale `buffer`, which then leaks into class names / annotations.
   * `c is ord(".")` is small-int identity, i.e. equality.
   No proofs in this file. *)
From TT Require Import Base.Prelude Gen.VttTables.

Inductive token :=
| TString (value : text)
| TStart (tag : text) (classes : option (list text)) (annotation : option text)
| TEnd (tag : text)
| TTs (timestamp : text).

Inductive tstate := SData | STag | SCref | SStart | SAnnot | SAnnotCref (cref : text) | SClass | SEnd | STs.

(* ---------------------------------------------------------------- small text helpers *)
Definition mem_z (c : Z) (l : list Z) : bool := existsb (Z.eqb c) l.
Definition is_digit (c : Z) : bool := (48 <=? c) && (c <=? 57).
Definition is_hexdigit (c : Z) : bool :=
  is_digit c || ((65 <=? c) && (c <=? 70)) || ((97 <=? c) && (c <=? 102)).
Definition hexval (c : Z) : Z :=
  if is_digit c then c - 48 else if (65 <=? c) && (c <=? 70) then c - 55 else c - 87.
Definition is_space (c : Z) : bool := mem_z c unicode_space.   (* str.isspace, regex \s *)
Definition is_nil {A} (l : list A) : bool := match l with [] => true | _ => false end.

Fixpoint take_while (p : Z -> bool) (s : text) : text :=
  match s with c :: s' => if p c then c :: take_while p s' else [] | [] => [] end.
Fixpoint drop_while (p : Z -> bool) (s : text) : text :=
  match s with c :: s' => if p c then drop_while p s' else s | [] => [] end.
Fixpoint take_n (n : nat) (s : text) : text :=
  match n, s with S k, c :: s' => c :: take_n k s' | _, _ => [] end.
Fixpoint drop_n (n : nat) (s : text) : text :=
  match n, s with S k, _ :: s' => drop_n k s' | _, _ => s end.

Fixpoint assoc_text (k : text) (l : list (text * text)) : option text :=
  match l with [] => None | (a, v) :: l' => if text_eqb k a then Some v else assoc_text k l' end.
Fixpoint assoc_z (k : Z) (l : list (Z * Z)) : option Z :=
  match l with [] => None | (a, v) :: l' => if k =? a then Some v else assoc_z k l' end.

(* ---------------------------------------------------------------- html.unescape
   html._charref = &(#[0-9]+;?|#[xX][0-9a-fA-F]+;?|[^\t\n\f <&#;]{1,32};?) and html._replace_charref, with the
   complete html5 table (names with and without the trailing ';'). *)
Definition dec_value (ds : text) : Z := fold_left (fun a c => a * 10 + (c - 48)) ds 0.
Definition hex_value (ds : text) : Z := fold_left (fun a c => a * 16 + hexval c) ds 0.

Definition numeric_charref (num : Z) : text :=
  match assoc_z num invalid_charrefs with
  | Some v => [v]
  | None =>
    if ((55296 <=? num) && (num <=? 57343)) || (1114111 <? num) then [65533]
    else if mem_z num invalid_codepoints then []
    else [num]
  end.

Definition is_name_char (c : Z) : bool :=
  negb (mem_z c [9; 10; 12; 32; 60; 38; 35; 59]).

(* for x in range(len(s)-1, 1, -1): if s[:x] in html5: return html5[s[:x]] + s[x:] *)
Fixpoint longest_prefix (x : nat) (s : text) : option text :=
  match x with
  | O | S O => None
  | S x' =>
    match assoc_text (take_n x s) html5_names with
    | Some v => Some (v ++ drop_n x s)
    | None => longest_prefix x' s
    end
  end.

(* s is the name with its optional ';' *)
Definition named_charref (s : text) : text :=
  match assoc_text s html5_names with
  | Some v => v
  | None =>
    match longest_prefix (Nat.pred (length s)) s with
    | Some r => r
    | None => 38 :: s
    end
  end.

Definition skip_semi (s : text) : text := match s with 59 :: s' => s' | _ => s end.

Fixpoint unescape_fuel (fuel : nat) (s : text) : text :=
  match fuel with
  | O => s
  | S f =>
    match s with
    | [] => []
    | 38 :: r =>
      match r with
      | 35 :: r1 =>                                            (* &# *)
        let ds := take_while is_digit r1 in
        if negb (is_nil ds) then numeric_charref (dec_value ds) ++ unescape_fuel f (skip_semi (drop_while is_digit r1))
        else match r1 with
             | x :: r2 =>
               if ((x =? 120) || (x =? 88)) && negb (is_nil (take_while is_hexdigit r2))
               then numeric_charref (hex_value (take_while is_hexdigit r2)) ++ unescape_fuel f (skip_semi (drop_while is_hexdigit r2))
               else 38 :: unescape_fuel f r
             | [] => 38 :: unescape_fuel f r
             end
      | _ =>
        let nm := take_n 32 (take_while is_name_char r) in
        if is_nil nm then 38 :: unescape_fuel f r
        else
          let rest := drop_n (length nm) r in
          match rest with
          | 59 :: rest' => named_charref (nm ++ [59]) ++ unescape_fuel f rest'
          | _ => named_charref nm ++ unescape_fuel f rest
          end
      end
    | c :: r => c :: unescape_fuel f r
    end
  end.
Definition unescape (s : text) : text := unescape_fuel (S (length s)) s.

(* re.sub(r"\s+", " ", str(buffer).strip()) *)
Definition strip_space (s : text) : text := rev (drop_while is_space (rev (drop_while is_space s))).
Fixpoint collapse_space (in_ws : bool) (s : text) : text :=
  match s with
  | [] => []
  | c :: s' =>
    if is_space c then (if in_ws then collapse_space true s' else 32 :: collapse_space true s')
    else c :: collapse_space false s'
  end.
Definition norm_annot (buffer : text) : text := collapse_space false (strip_space buffer).

(* ---------------------------------------------------------------- the codepoint loop
   scan state result buffer classes input = (token yielded, input left for the next token).
   `[]` is EOF_MARKER. *)
Definition tag_ws (c : Z) : bool := (c =? 9) || (c =? 12) || (c =? 32).

Fixpoint scan (st : tstate) (res buf : text) (cls : list text) (s : text) {struct s} : token * text :=
  match s with
  | [] =>
    match st with
    | SData => (TString res, [])
    | SCref => (TString (res ++ buf), [])      (* result.extend(buffer); state = data; continue *)
    | STag => (TString [], [])
    | SStart => (TStart res None None, [])
    | SClass => (TStart res (Some (cls ++ [buf])) None, [])
    | SAnnot => (TStart res (Some cls) (Some (norm_annot buf)), [])
    | SAnnotCref cref => (TStart res (Some cls) (Some (norm_annot (buf ++ cref))), [])   (* buffer.extend(cref); continue *)
    | SEnd => (TEnd res, [])
    | STs => (TTs res, [])
    end
  | c :: s' =>
    match st with
    | SData =>
      if c =? 38 then scan SCref res [38] cls s'
      else if c =? 60 then (if is_nil res then scan STag res buf cls s' else (TString res, s))
      else scan SData (res ++ [c]) buf cls s'
    | SCref =>
      if c =? 59 then scan SData (res ++ unescape (buf ++ [59])) buf cls s'
      else scan SCref res (buf ++ [c]) cls s'
    | STag =>
      if tag_ws c || (c =? 10) then scan SAnnot res buf cls s'
      else if c =? 46 then scan SClass res buf cls s'
      else if c =? 47 then scan SEnd res buf cls s'
      else if is_digit c then scan STs [c] buf cls s'
      else if c =? 62 then (TString [], s')
      else scan SStart [c] buf cls s'
    | SStart =>
      if tag_ws c then scan SAnnot res buf cls s'
      else if c =? 10 then scan SAnnot res [10] cls s'
      else if c =? 46 then scan SClass res buf cls s'
      else if c =? 62 then (TStart res None None, s')
      else scan SStart (res ++ [c]) buf cls s'
    | SClass =>
      if tag_ws c then scan SAnnot res [] (cls ++ [buf]) s'
      else if c =? 10 then scan SAnnot res [10] (cls ++ [buf]) s'
      else if c =? 46 then scan SClass res [] (cls ++ [buf]) s'
      else if c =? 62 then (TStart res (Some (cls ++ [buf])) None, s')
      else scan SClass res (buf ++ [c]) cls s'
    | SAnnot =>
      if c =? 38 then scan (SAnnotCref [38]) res buf cls s'
      else if c =? 62 then (TStart res (Some cls) (Some (norm_annot buf)), s')
      else scan SAnnot res (buf ++ [c]) cls s'
    | SAnnotCref cref =>
      if c =? 59 then scan SAnnot res (buf ++ unescape (cref ++ [59])) cls s'
      else if c =? 62 then (TStart res (Some cls) (Some (norm_annot (buf ++ cref))), s')   (* extend; continue; then `>` *)
      else scan (SAnnotCref (cref ++ [c])) res buf cls s'
    | SEnd =>
      if c =? 62 then (TEnd res, s') else scan SEnd (res ++ [c]) buf cls s'
    | STs =>
      if c =? 62 then (TTs res, s') else scan STs (res ++ [c]) buf cls s'
    end
  end.

(* the token loop: `while position < len(cue_text)` *)
Fixpoint tok_loop (fuel : nat) (s : text) : list token :=
  match fuel with
  | O => []
  | S f =>
    match s with
    | [] => []
    | _ => let '(t, rest) := scan SData [] [] [] s in t :: tok_loop f rest
    end
  end.
Definition tokenize (s : text) : list token := tok_loop (length s) s.

(* ---------------------------------------------------------------- decidable equality for the case files *)
Fixpoint texts_eqb (a b : list text) : bool :=
  match a, b with
  | [], [] => true
  | x :: a', y :: b' => text_eqb x y && texts_eqb a' b'
  | _, _ => false
  end.
Definition opt_eqb {A} (f : A -> A -> bool) (a b : option A) : bool :=
  match a, b with None, None => true | Some x, Some y => f x y | _, _ => false end.
Definition token_eqb (a b : token) : bool :=
  match a, b with
  | TString x, TString y => text_eqb x y
  | TStart t c a, TStart t' c' a' => text_eqb t t' && opt_eqb texts_eqb c c' && opt_eqb text_eqb a a'
  | TEnd x, TEnd y => text_eqb x y
  | TTs x, TTs y => text_eqb x y
  | _, _ => false
  end.
Fixpoint tokens_eqb (a b : list token) : bool :=
  match a, b with
  | [], [] => true
  | x :: a', y :: b' => token_eqb x y && tokens_eqb a' b'
  | _, _ => false
  end.
