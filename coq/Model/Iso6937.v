(* M for C09, character decoding: transcription of ttconv/stl/iso6937.py `decode` over the table regenerated
   from `_CCT0_DECODE_MAP` (Gen/Iso6937Tables.v), and of the CCT -> decoder choice of ttconv/stl/tf.py
   (`_CHAR_DECODER_MAP`; CCT 01..04 are CPython's iso8859_5..8 charmap codecs, which enter as the 256-entry
   tables of Gen/StlTables.v; an undefined byte gives exactly one U+FFFD through the "note" error handler).
   Bytes are Z in 0..255, text is a list of code points. *)
From TT Require Import Base.Prelude Gen.Iso6937Tables Gen.StlTables.

Definition fffd : Z := 65533.

Fixpoint bytes_eqb (a b : list Z) : bool :=
  match a, b with
  | [], [] => true
  | x :: a', y :: b' => (x =? y) && bytes_eqb a' b'
  | _, _ => false
  end.

(* dict.get on a bytes key *)
Fixpoint map_get (m : list (list Z * Z)) (k : list Z) : option Z :=
  match m with
  | [] => None
  | (k', v) :: m' => if bytes_eqb k' k then Some v else map_get m' k
  end.

(* `c = _CCT0_DECODE_MAP.get(b)`; `s.write(c)` or `s.write("�")` (the error handler's result is discarded) *)
Definition cct0_lookup (k : list Z) : Z :=
  match map_get cct0_map k with Some c => c | None => fffd end.

(* iso6937.decode: 0x20..0x7E is ASCII; 0xC1..0xCF consumes two bytes (the slice has one byte at the end of
   the buffer); everything else is a single-byte lookup *)
Fixpoint decode6937 (bs : list Z) : text :=
  match bs with
  | [] => []
  | b :: rest =>
      if (32 <=? b) && (b <=? 126) then b :: decode6937 rest
      else if (193 <=? b) && (b <=? 207) then
        match rest with
        | [] => [cct0_lookup [b]]
        | b2 :: rest' => cct0_lookup [b; b2] :: decode6937 rest'
        end
      else cct0_lookup [b] :: decode6937 rest
  end.

(* a CPython charmap codec with errors="note": one code point per byte *)
Definition charmap_decode (table : list Z) (bs : list Z) : text :=
  map (fun b => nth (Z.to_nat b) table fffd) bs.

(* tf.to_model: `_CHAR_DECODER_MAP.get(tti_cct)`, iso6937.decode when the CCT is unknown; cct = the two CCT bytes *)
Definition decoder_of_cct (cct : list Z) : list Z -> text :=
  if bytes_eqb cct [48; 48] then decode6937
  else if bytes_eqb cct [48; 49] then charmap_decode iso8859_5_table
  else if bytes_eqb cct [48; 50] then charmap_decode iso8859_6_table
  else if bytes_eqb cct [48; 51] then charmap_decode iso8859_7_table
  else if bytes_eqb cct [48; 52] then charmap_decode iso8859_8_table
  else decode6937.
