(* M for C09, text field: transcription of ttconv/stl/tf.py (`_is_*_code`, `line_count`,
   `has_double_height_char`, `_TextFieldIterator`, `_Context`, `to_model`) as a step machine over the bytes of
   the TF producing the children appended to the target element: styled runs of text (`Span` holding one
   `Text`) and line breaks (`Br`).  The colours are the NamedColors values regenerated from the source
   (Gen/StlTables.v), packed as r<<24|g<<16|b<<8|a.  The character decoder is a parameter (Model/Iso6937.v
   supplies the one chosen by the CCT). *)
From TT Require Import Base.Prelude Gen.StlTables.

(* ---- classifiers ---------------------------------------------------------------------------------- *)
Definition is_character_code (c : Z) : bool := ((32 <=? c) && (c <=? 127)) || ((160 <=? c) && (c <=? 255)).
Definition is_printable_code (c : Z) : bool := is_character_code c && negb (c =? 32).
Definition is_control_code (c : Z) : bool :=
  ((0 <=? c) && (c <=? 7)) || ((10 <=? c) && (c <=? 13)) || ((28 <=? c) && (c <=? 29)) || ((128 <=? c) && (c <=? 133)).
Definition is_newline_code (c : Z) : bool := c =? 138.
Definition is_unused_space_code (c : Z) : bool := c =? 143.
Definition is_space_code (c : Z) : bool := c =? 32.
Definition is_lwsp_code (c : Z) : bool := is_control_code c || is_newline_code c || is_space_code c.
(* the seven classifiers as the bit mask used by Gen/StlTables.v tf_class_table *)
Definition class_mask (c : Z) : Z :=
  (if is_character_code c then 1 else 0) + (if is_printable_code c then 2 else 0) + (if is_control_code c then 4 else 0) +
  (if is_newline_code c then 8 else 0) + (if is_unused_space_code c then 16 else 0) + (if is_space_code c then 32 else 0) +
  (if is_lwsp_code c then 64 else 0).

(* ---- line_count, has_double_height_char ------------------------------------------------------------ *)
Fixpoint line_count_go (dh : bool) (bs : list Z) (count : Z) (was_eol : bool) : Z :=
  match bs with
  | [] => count + 1
  | c :: rest =>
      if is_newline_code c then
        if dh then
          if was_eol then line_count_go dh rest count false
          else line_count_go dh rest (count + 1) true
        else line_count_go dh rest (count + 1) true
      else line_count_go dh rest count false
  end.
Definition line_count (bs : list Z) (dh : bool) : Z := line_count_go dh bs 0 false.
Definition has_double_height_char (bs : list Z) : bool := existsb (fun c => c =? 13) bs.

(* ---- output --------------------------------------------------------------------------------------- *)
Record style := mkStyle { s_fg : Z ; s_bg : Z ; s_italic : bool ; s_underline : bool }.
Inductive leaf := LRun (s : style) (t : text) | LBr.

(* ---- _Context ------------------------------------------------------------------------------------- *)
Record ctx := mkCtx { c_style : style ;            (* fg_color, bg_color, is_italic, is_underline *)
                      c_span : option style ;      (* the open span and the styles it was created with *)
                      c_buf : list Z }.            (* text_buffer *)

(* reset_styles *)
Definition initial_style (teletext : bool) : style :=
  mkStyle nc_white (if teletext then nc_black else nc_transparent) false false.
Definition ctx_init (teletext : bool) : ctx := mkCtx (initial_style teletext) None [].
Definition reset_styles (teletext : bool) (c : ctx) : ctx := mkCtx (initial_style teletext) (c_span c) (c_buf c).

(* start_span + text_buffer.append *)
Definition append_character (c : ctx) (ch : Z) : ctx :=
  mkCtx (c_style c) (match c_span c with None => Some (c_style c) | Some s => Some s end) (c_buf c ++ [ch]).

(* end_span: needs a non-empty buffer and an open span *)
Definition end_span (dec : list Z -> text) (c : ctx) : list leaf * ctx :=
  match c_buf c, c_span c with
  | _ :: _, Some s => ([LRun s (dec (c_buf c))], mkCtx (c_style c) None [])
  | _, _ => ([], c)
  end.

Definition set_fg (c : ctx) (v : Z) : ctx :=
  mkCtx (mkStyle v (s_bg (c_style c)) (s_italic (c_style c)) (s_underline (c_style c))) (c_span c) (c_buf c).
Definition set_bg (c : ctx) (v : Z) : ctx :=
  mkCtx (mkStyle (s_fg (c_style c)) v (s_italic (c_style c)) (s_underline (c_style c))) (c_span c) (c_buf c).
Definition set_italic (c : ctx) (v : bool) : ctx :=
  mkCtx (mkStyle (s_fg (c_style c)) (s_bg (c_style c)) v (s_underline (c_style c))) (c_span c) (c_buf c).
Definition set_underline (c : ctx) (v : bool) : ctx :=
  mkCtx (mkStyle (s_fg (c_style c)) (s_bg (c_style c)) (s_italic (c_style c)) v) (c_span c) (c_buf c).

(* the if/elif chain of to_model on a control code *)
Definition apply_control (ch : Z) (c : ctx) : ctx :=
  if ch =? 28 then set_bg c nc_black
  else if ch =? 133 then set_bg c nc_transparent
  else if ch =? 29 then set_bg c (s_fg (c_style c))
  else if ch =? 0 then set_fg c nc_black
  else if ch =? 1 then set_fg c nc_red
  else if ch =? 2 then set_fg c nc_lime
  else if ch =? 3 then set_fg c nc_yellow
  else if ch =? 4 then set_fg c nc_blue
  else if ch =? 5 then set_fg c nc_magenta
  else if ch =? 6 then set_fg c nc_cyan
  else if ch =? 7 then set_fg c nc_white
  else if ch =? 128 then set_italic c true
  else if ch =? 129 then set_italic c false
  else if ch =? 130 then set_underline c true
  else if ch =? 131 then set_underline c false
  else c.

(* peek_next: 0x8F beyond the end *)
Definition peek (rest : list Z) : Z := match rest with [] => 143 | n :: _ => n end.

(* bytes.partition(b'\x8f')[0]: everything before the first 0x8F (used by to_model and by datafile.process_tti_block) *)
Fixpoint before_8f (bs : list Z) : list Z :=
  match bs with [] => [] | b :: r => if b =? 143 then [] else b :: before_8f r end.

(* the `while True` loop of to_model; `prev` is peek_prev (0x8F at position 0); `dh` is is_double_height *)
Fixpoint tf_loop (dec : list Z -> text) (teletext dh : bool) (prev : Z) (bs : list Z) (c : ctx) : list leaf :=
  match bs with
  | [] => fst (end_span dec c)                                  (* cur() = 0x8F beyond the end: break; end_span *)
  | ch :: rest =>
      let nxt := peek rest in
      if is_unused_space_code ch then fst (end_span dec c)
      else if is_character_code ch then
        if is_printable_code ch || (is_printable_code nxt && is_printable_code prev)
        then tf_loop dec teletext dh ch rest (append_character c ch)
        else tf_loop dec teletext dh ch rest c
      else if is_newline_code ch then
        if negb (dh && is_newline_code nxt) && negb (is_unused_space_code nxt) then
          let (out, c1) := end_span dec c in
          out ++ LBr :: tf_loop dec teletext dh ch rest (if teletext then reset_styles teletext c1 else c1)
        else tf_loop dec teletext dh ch rest c
      else if is_control_code ch then
        let (out, c1) := end_span dec c in
        let c2 := apply_control ch c1 in
        out ++ tf_loop dec teletext dh ch rest
                 (if is_printable_code nxt && is_printable_code prev then append_character c2 32 else c2)
      else tf_loop dec teletext dh ch rest c
  end.

(* tf.to_model(element, is_teletext, cct, tf): the children appended to `element`;
   is_double_height = has_double_height_char(tti_tf.partition(b'\x8f')[0]) *)
Definition tf_model (dec : list Z -> text) (teletext : bool) (bs : list Z) : list leaf :=
  tf_loop dec teletext (has_double_height_char (before_8f bs)) 143 bs (ctx_init teletext).
