(* Executable call shapes ("triggers") of the recorded C15 findings: `trigger h c = Some k` says that
   call c issued in state h is an instance of finding number k.  The `_partial` theorems of
   Properties/C15.v quantify over calls with `trigger h c = None`; Findings/C15.v shows for each k a
   state and a call with trigger k after which the document is not well formed.  The triggers are
   deliberately narrow and are part of theorem statements, so they are definitions, not proofs. *)
From Coq Require Import List Arith Bool.
From TT Require Import Base.HeapTypes Model.Heap.
Import ListNotations.

Definition nodes (h : heap) : list nat := seq 0 (nnodes h).
Definition memb (x : nat) (l : list nat) : bool := existsb (Nat.eqb x) l.
Fixpoint nodupb (l : list nat) : bool := match l with [] => true | x :: t => negb (memb x t) && nodupb t end.

(* 1 put-region-replace: put_region(r) replaces the region r0 registered under the same id while an
     element of that document still references r0 *)
Definition t_put_region_replace (h : heap) (d r : nat) : bool :=
  kind_eqb (kind_of h r) KRegion && onat_eqb (n_doc (nd h r)) (Some d) &&
  match n_id (nd h r) with
  | None => false
  | Some k => match dict_get Nat.eqb (d_regions (dc h d)) k with
              | None => false
              | Some r0 => negb (Nat.eqb r0 r) &&
                           existsb (fun i => onat_eqb (n_region (nd h i)) (Some r0) && onat_eqb (n_doc (nd h i)) (Some d)) (nodes h)
              end
  end.

(* 2 remove-region-outside-body: remove_region(id) only clears the references held by elements
     under the document body; an element of the document that is elsewhere keeps its reference *)
Definition t_remove_region_outside_body (h : heap) (d id : nat) : bool :=
  match dict_get Nat.eqb (d_regions (dc h d)) id with
  | None => false
  | Some r0 =>
    let under_body := match d_body (dc h d) with
                      | None => []
                      | Some b => match dfs (S (nnodes h)) h b with Some l => l | None => [] end
                      end in
    existsb (fun i => onat_eqb (n_region (nd h i)) (Some r0) && onat_eqb (n_doc (nd h i)) (Some d) &&
                      negb (memb i under_body)) (nodes h)
  end.

(* 3 set-region-by-id: set_region(r) checks that *some* region with r's id is registered, not that r
     is that region *)
Definition t_set_region_by_id (h : heap) (s r : nat) : bool :=
  match kind_of h s with
  | KBr | KText | KRegion => false
  | _ => match n_doc (nd h s), n_id (nd h r) with
         | Some d, Some k => match dict_get Nat.eqb (d_regions (dc h d)) k with
                             | Some r0 => negb (Nat.eqb r0 r)
                             | None => false
                             end
         | _, _ => false
         end
  end.

(* 4 set-doc-none-half-applied: set_doc(None) on a root that has children clears the element's own
     region and document and then raises on the first child *)
Definition t_set_doc_none_children (h : heap) (s : nat) : bool :=
  negb (is_some (n_parent (nd h s))) && is_some (n_first (nd h s)).

(* 5 set-doc-on-child: set_doc(doc) does not require the element to be a root *)
Definition t_set_doc_on_child (h : heap) (s : nat) : bool :=
  is_some (n_parent (nd h s)) && negb (is_some (n_doc (nd h s))).

(* 6 push-children-half-applied: Ruby/Rtc.push_children validate the kinds of the whole list and then
     push one by one; when the first child is attached and a later one cannot be (already parented,
     other document, repeated in the list, an ancestor) the call raises and leaves a prefix of the
     pattern behind *)
Definition t_push_children_half (h : heap) (s : nat) (cs : list nat) : bool :=
  let ks := map (kind_of h) cs in
  match kind_of h s with
  | KRuby => negb (is_some (n_first (nd h s))) && existsb (kinds_eqb ks) ruby_patterns
  | KRtc => rtc_list_ok ks
  | _ => false
  end &&
  match cs with
  | [] => false
  | c0 :: rest =>
    match ce_push_child h s c0 with
    | RErr _ _ => false
    | ROk h1 => match each (fun h' c => ce_push_child h' s c) rest h1 with RErr _ _ => true | ROk _ => false end
    end
  end.

(* 7 rtc-lone-rp: Rtc.push_child accepts an Rp as the first child of an empty Rtc (and then accepts
     nothing more) *)
Definition t_rtc_lone_rp (h : heap) (s c : nat) : bool :=
  kind_eqb (kind_of h s) KRtc && kind_eqb (kind_of h c) KRp && negb (is_some (n_first (nd h s))).

(* 8 rtc-push-children-appends: Rtc.push_children does not require the Rtc to be empty *)
Definition t_rtc_push_children_appends (h : heap) (s : nat) (cs : list nat) : bool :=
  kind_eqb (kind_of h s) KRtc &&
  match n_first (nd h s), cs with
  | Some f, _ :: _ => kind_eqb (kind_of h f) KRp || existsb (fun c => kind_eqb (kind_of h c) KRp) cs
  | _, _ => false
  end.

Definition trigger (h : heap) (c : call) : option nat :=
  if negb (call_ok h c) then None else
  match c with
  | CPutRegion d r => if t_put_region_replace h d r then Some 1 else None
  | CRemoveRegion d id => if t_remove_region_outside_body h d id then Some 2 else None
  | CSetRegion s (Some r) => if t_set_region_by_id h s r then Some 3 else None
  | CSetDoc s None => if t_set_doc_none_children h s then Some 4 else None
  | CSetDoc s (Some _) => if t_set_doc_on_child h s then Some 5 else None
  | CPushChildren s cs => if t_rtc_push_children_appends h s cs then Some 8
                          else if t_push_children_half h s cs then Some 6 else None
  | CPushChild s c => if t_rtc_lone_rp h s c then Some 7 else None
  | _ => None
  end.

(* "single-element operations": those that the property requires to be atomic when rejected *)
Definition single_element (c : call) : bool :=
  match c with
  | CPushChildren _ _ | CRemoveChildren _ | CCopyTo _ _ => false
  | _ => true
  end.

(* a history none of whose calls is an instance of a recorded finding *)
Fixpoint clean (h : heap) (cs : list call) : bool :=
  match cs with
  | [] => true
  | c :: t => match trigger h c with Some _ => false | None => clean (fst (step h c)) t end
  end.
