(* M for C16: transcription of ttconv/filters/doc/lcd.py (LCDDocFilter.process, _replace_regions,
   _apply_bg_color), filters/supported_style_properties.py (process_initial_values, process_element),
   filters/remove_animations.py (process_element) and ContentDocument.remove_region, as functions over the
   shared document model (Model/Doc.v).  The style computations the filter borrows from isd.py
   (StyleProcessors.Origin/Position/Extent.compute, called with parent = None) are the shared
   `compute_prop` of Model/Isd.v.  Statement order of the Python code is kept; where Python raises the
   outcome is `Err code`.  No proofs here.
   The model follows /repo after the repairs a7b547e (bg_color without body), c0beb1f (end = 0 in the fingerprint),
   d8691ec (the extent is defaulted and computed before tts:position), 5958b0b (tts:position is supported on regions
   only: two style filters) and 2d34128 (tts:textAlign in the fingerprint when preserve_text_align is set).

   Dictionaries: `element._styles` and `doc._initial_values` are insertion-ordered dicts, modelled by `smap`
   (pop = sdel / filter keeps the order of the rest; assignment to an existing key keeps its place = sset).
   `retained_regions` (fingerprint -> region) is an association list, `replaced_regions` (region -> region)
   a list of (id of the aliased region, id of the retained region); regions are named by xml:id. *)
From TT Require Import Model.Doc Gen.StyleTables Model.Isd.

(* LCDDocFilterConfig: safe_area, preserve_text_align, color, bg_color (colours packed RGBA8 as in VColor) *)
Record lcd_cfg := mkCfg { c_sa : Z ; c_pta : bool ; c_color : option Z ; c_bg : option Z }.

(* ---- attribute updates ------------------------------------------------------------------------------- *)
Definition with_styles (a : attrs) (st : smap) : attrs :=
  mkAttrs (e_kind a) (e_id a) (e_begin a) (e_end a) (e_region a) st (e_anims a) (e_preserve a) (e_lang a) (e_text a).
Definition with_anims (a : attrs) (l : list anim) : attrs :=
  mkAttrs (e_kind a) (e_id a) (e_begin a) (e_end a) (e_region a) (e_styles a) l (e_preserve a) (e_lang a) (e_text a).
Definition with_region (a : attrs) (r : option text) : attrs :=
  mkAttrs (e_kind a) (e_id a) (e_begin a) (e_end a) r (e_styles a) (e_anims a) (e_preserve a) (e_lang a) (e_text a).

(* the same update on every element of a tree (for child in element: process_element(child)) *)
Fixpoint map_attrs (f : attrs -> attrs) (e : elem) : elem :=
  match e with Elem a cs => Elem (f a) (map (map_attrs f) cs) end.

(* ---- SupportedStylePropertiesFilter ------------------------------------------------------------------ *)
(* supported_styles of LCDDocFilter.process; every value list is [], so a property survives iff it is a key *)
Definition supported (c : lcd_cfg) (p : Z) : bool :=
  (p =? p_DisplayAlign) || (p =? p_Extent) || (p =? p_Origin)
  || (c_pta c && (p =? p_TextAlign))
  || (match c_color c with None => p =? p_Color | Some _ => false end)
  || (match c_bg c with None => p =? p_BackgroundColor | Some _ => false end).
(* for style_prop in list(iter_styles()): if supported: continue; set_style(style_prop, None) *)
Definition keep_styles (c : lcd_cfg) (m : smap) : smap := filter (fun kv => supported c (fst kv)) m.
Definition style_attrs (c : lcd_cfg) (a : attrs) : attrs := with_styles a (keep_styles c (e_styles a)).
Definition style_elem (c : lcd_cfg) : elem -> elem := map_attrs (style_attrs c).
(* region_style_filter = {**supported_styles, Position: []}  (after fix 5958b0b: tts:position is kept on regions only,
   where the loop below converts it to tts:origin and removes it) *)
Definition rsupported (c : lcd_cfg) (p : Z) : bool := supported c p || (p =? p_Position).
Definition keep_rstyles (c : lcd_cfg) (m : smap) : smap := filter (fun kv => rsupported c (fst kv)) m.
Definition rstyle_attrs (c : lcd_cfg) (a : attrs) : attrs := with_styles a (keep_rstyles c (e_styles a)).
Definition rstyle_elem (c : lcd_cfg) : elem -> elem := map_attrs (rstyle_attrs c).

(* ---- RemoveAnimationFilter (after fix 353f95b: iterates over a copy, every step is removed) ---------- *)
Definition anim_attrs (a : attrs) : attrs := with_anims a [].
Definition anim_elem : elem -> elem := map_attrs anim_attrs.

(* ---- the region loop ----------------------------------------------------------------------------------- *)
Definition pct (z : Z) : len := mkLen (qz z) Upct.
Definition q50 : Q := qz 50.
(* doc.get_initial_value(p) if not None else p.make_initial_value() *)
Definition init_or (inits : smap) (p : Z) : value :=
  match sget inits p with
  | Some v => v
  | None => match sget initial_values p with Some v => v | None => VEnum 0 end
  end.
Definition is_enum (v : value) (tag : Z) : bool := match v with VEnum x => x =? tag | _ => false end.
Definition enum_tag (v : value) : Z := match v with VEnum x => x | _ => -1 end.

(* "determine new displayAlign value" *)
Definition new_display_align (wm da : value) (st : smap) : res Z :=
  match sget st p_Origin, sget st p_Extent with
  | Some (VCoord x y), Some (VExtent h w) =>
      Ok (if is_enum wm e_WritingModeType_lrtb || is_enum wm e_WritingModeType_rltb then
            if is_enum da e_DisplayAlignType_before && Qltb (lv y) q50 then e_DisplayAlignType_before
            else if Qltb (Qplus (lv y) (lv h)) q50 then e_DisplayAlignType_before
            else e_DisplayAlignType_after
          else if is_enum wm e_WritingModeType_tblr then
            if is_enum da e_DisplayAlignType_before && Qltb (lv x) q50 then e_DisplayAlignType_before
            else if Qltb (Qplus (lv x) (lv w)) q50 then e_DisplayAlignType_before
            else e_DisplayAlignType_after
          else
            if is_enum da e_DisplayAlignType_before && negb (Qltb (lv x) q50) then e_DisplayAlignType_before
            else if negb (Qltb (Qplus (lv x) (lv w)) q50) then e_DisplayAlignType_before
            else e_DisplayAlignType_after)
  | _, _ => Err errCompute
  end.

(* the style part of one iteration: the region's style map after the two clean-ups -> its final style map,
   the writing mode used in the fingerprint and the new displayAlign *)
Definition region_pre (d : doc) (inits : smap) (st : smap) : res smap :=
  (* compute extent   (after fix d8691ec: first, and the initial value is computed too — tts:position is relative to it) *)
  let st := if shas st p_Extent then st else sset st p_Extent (init_or inits p_Extent) in
  bind (compute_prop d None st p_Extent) (fun st =>
  (* compute origin *)
  bind (if shas st p_Origin then compute_prop d None st p_Origin else Ok st) (fun st =>
  bind (if shas st p_Position
        then bind (compute_prop d None st p_Position) (fun st' => Ok (sdel st' p_Position))
        else Ok st) (fun st =>
  Ok (if shas st p_Origin then st else sset st p_Origin (init_or inits p_Origin))))).
Definition region_layout (c : lcd_cfg) (d : doc) (inits : smap) (st : smap) : res (smap * Z * Z) :=
  bind (region_pre d inits st) (fun st =>
  (* writing mode and display align *)
  let wm := match sget st p_WritingMode with Some v => v | None => init_or inits p_WritingMode end in
  let da := match sget st p_DisplayAlign with Some v => v | None => init_or inits p_DisplayAlign end in
  bind (new_display_align wm da st) (fun nda =>
  let st := sset st p_DisplayAlign (VEnum nda) in
  (* reposition region *)
  let st := sset st p_Origin (VCoord (pct (c_sa c)) (pct (c_sa c))) in
  let st := sset st p_Extent (VExtent (pct (100 - 2 * c_sa c)) (pct (100 - 2 * c_sa c))) in
  Ok (st, enum_tag wm, nda))).

(* fingerprint = (begin or 0, end, writing_mode, new_display_align, textAlign if preserve_text_align else None)
   (after fix c0beb1f: region.get_end(), no `or None`; after fix 2d34128: the region's tts:textAlign when it is preserved) *)
Definition fp := (Q * option Q * Z * Z * option Z)%type.
Definition or0 (b : option Q) : Q := match b with Some x => x | None => 0%Q end.
Definition oZ_eqb (a b : option Z) : bool :=
  match a, b with Some x, Some y => x =? y | None, None => true | _, _ => false end.
Definition fp_eqb (a b : fp) : bool :=
  let '(b1, e1, w1, d1, t1) := a in let '(b2, e2, w2, d2, t2) := b in
  Qeq_bool b1 b2 && oQ_eqb e1 e2 && (w1 =? w2) && (d1 =? d2) && oZ_eqb t1 t2.
(* region.get_style(StyleProperties.TextAlign) if self.config.preserve_text_align else None *)
Definition fp_align (c : lcd_cfg) (st : smap) : option Z :=
  if c_pta c then option_map enum_tag (sget st p_TextAlign) else None.
Fixpoint lookup_fp (l : list (fp * text)) (f : fp) : option text :=
  match l with [] => None | (g, t) :: l' => if fp_eqb g f then Some t else lookup_fp l' f end.

Definition rid (a : attrs) : text := match e_id a with Some i => i | None => [] end.

(* one processed region, and Some (id of the retained region) when it goes to replaced_regions *)
Fixpoint lcd_regions (c : lcd_cfg) (d : doc) (inits : smap) (rs : list elem) (retained : list (fp * text))
  : res (list (elem * option text)) :=
  match rs with
  | [] => Ok []
  | r :: rs' =>
      let r1 := rstyle_elem c (anim_elem r) in
      let a := eattrs r1 in
      bind (region_layout c d inits (e_styles a)) (fun x =>
      let '(st, wm, nda) := x in
      let r2 := Elem (with_styles a st) (echildren r1) in
      let f : fp := (or0 (e_begin a), e_end a, wm, nda, fp_align c st) in
      match lookup_fp retained f with
      | None => bind (lcd_regions c d inits rs' ((f, rid a) :: retained)) (fun out => Ok ((r2, None) :: out))
      | Some t => bind (lcd_regions c d inits rs' retained) (fun out => Ok ((r2, Some t) :: out))
      end)
  end.

Definition replaced_of (out : list (elem * option text)) : list (text * text) :=
  flat_map (fun x => match snd x with Some t => [(rid (eattrs (fst x)), t)] | None => [] end) out.
Definition retained_of (out : list (elem * option text)) : list elem :=
  flat_map (fun x => match snd x with Some _ => [] | None => [fst x] end) out.

(* ---- _replace_regions, remove_region, _apply_bg_color -------------------------------------------------- *)
Fixpoint lookup_id (l : list (text * text)) (k : text) : option text :=
  match l with [] => None | (x, t) :: l' => if text_eqb x k then Some t else lookup_id l' k end.
Definition redirect_attrs (al : list (text * text)) (a : attrs) : attrs :=
  match e_region a with
  | Some r => match lookup_id al r with Some t => with_region a (Some t) | None => a end
  | None => a
  end.
Definition redirect_elem (al : list (text * text)) : elem -> elem := map_attrs (redirect_attrs al).
(* remove_region(id) for every aliased region: clears the references that still name it *)
Definition mem_id (k : text) (l : list text) : bool := existsb (text_eqb k) l.
Definition clear_attrs (removed : list text) (a : attrs) : attrs :=
  match e_region a with
  | Some r => if mem_id r removed then with_region a None else a
  | None => a
  end.
Definition clear_elem (removed : list text) : elem -> elem := map_attrs (clear_attrs removed).

Definition set_style (a : attrs) (p : Z) (v : value) : attrs := with_styles a (sset (e_styles a) p v).
Fixpoint apply_bg (col : Z) (e : elem) : elem :=
  match e with
  | Elem a cs =>
      match e_kind a with
      | KP => Elem (set_style a p_BackgroundColor (VColor col)) cs
      | _ => Elem a (map (apply_bg col) cs)
      end
  end.
Definition set_root_style (p : Z) (v : value) (e : elem) : elem :=
  match e with Elem a cs => Elem (set_style a p v) cs end.

(* ---- LCDDocFilter.process -------------------------------------------------------------------------------- *)
Definition lcd_aliases (c : lcd_cfg) (d : doc) : res (list (text * text)) :=
  bind (lcd_regions c d (keep_styles c (d_initials d)) (d_regions d) []) (fun out => Ok (replaced_of out)).

Definition lcd (c : lcd_cfg) (d : doc) : res doc :=
  (* clean-up styles, clean-up animations *)
  let inits := keep_styles c (d_initials d) in
  let body := option_map (fun b => anim_elem (style_elem c b)) (d_body d) in
  (* clean-up regions *)
  bind (lcd_regions c d inits (d_regions d) []) (fun out =>
  let replaced := replaced_of out in
  (* prune aliased regions *)
  let body := option_map (redirect_elem replaced) body in
  let body := option_map (clear_elem (map fst replaced)) body in
  let regions := retained_of out in
  (* apply background color   (after fix a7b547e: only when there is a body) *)
  let body := match c_bg c with Some col => option_map (apply_bg col) body | None => body end in
  (* apply text color *)
  let body := match c_color c with Some col => option_map (set_root_style p_Color (VColor col)) body | None => body end in
  (* apply text align *)
  let body := if c_pta c then body else option_map (set_root_style p_TextAlign (VEnum e_TextAlignType_center)) body in
  Ok (mkDoc regions body inits (d_rows d) (d_cols d) (d_pxh d) (d_pxw d) (d_active d) (d_dar d) (d_lang d))).
