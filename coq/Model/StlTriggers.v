(* C09: how M's output vocabulary maps to S's, and the executable trigger predicates of the recorded findings
   (findings_proposed/C09.txt).  Each trigger characterises narrowly the inputs on which the corresponding defect of
   ttconv/stl can show; the `_partial` theorems and the S-on-code evaluation of the check excuse exactly these. *)
From Coq Require Import QArith.
From TT Require Import Base.Prelude Model.TimeCode Model.Iso6937 Model.StlTf Model.StlDatafile Spec.Ebu3264Spec.
Open Scope Z_scope.

(* ---- observation ------------------------------------------------------------------------------------ *)
Definition attrs_of (s : style) : attrs := mkAttrs (s_fg s) (s_bg s) (s_italic s) (s_underline s).
Definition piece_of_leaf (l : leaf) : piece :=
  match l with LRun s t => Run (attrs_of s) t | LBr => Break end.

(* ---- text-field level -------------------------------------------------------------------------------- *)
(* iso6937-a4: byte 0xA4 decoded with the Latin table *)
Definition trigger_a4 (bs : list Z) : bool := existsb (fun b => b =? 164) bs.
Definition latin_cct (cct : list Z) : bool :=
  negb (bytes_eqb cct [48; 49] || bytes_eqb cct [48; 50] || bytes_eqb cct [48; 51] || bytes_eqb cct [48; 52]).
Definition trigger_a4_cct (cct bs : list Z) : bool := latin_cct cct && trigger_a4 bs.

(* blank-row-dropped: two consecutive new-line codes in a field without double height *)
Definition trigger_blank_row (bs : list Z) : bool :=
  let t := text_of_field bs in negb (double_height t) && adjacent_newlines t.

(* tf-strip-not-cut: a text field in which something other than unused space follows an unused-space byte *)
Fixpoint after_filler (bs : list Z) (seen : bool) : bool :=
  match bs with
  | [] => false
  | b :: r => if b =? 143 then after_filler r true else seen || after_filler r seen
  end.
Definition trigger_strip (tf : list Z) : bool := after_filler tf false.

(* ---- file level -------------------------------------------------------------------------------------- *)
Definition gsi_of (file : list Z) : gsi := unpack_gsi (firstn 1024 file).
Definition teletext_of (file : list Z) : bool := let g := gsi_of file in (g_dsc g =? 49) || (g_dsc g =? 50).

Fixpoint chunks (fuel : nat) (bs : list Z) : list (list Z) :=
  match fuel with
  | O => []
  | S k => match bs with [] => [] | _ => firstn 128 bs :: chunks k (skipn 128 bs) end
  end.
Definition tti_blocks (file : list Z) : list tti :=
  map unpack_tti (filter (fun c => Nat.eqb (length c) 128) (chunks (S (length file)) (skipn 1024 file))).
Definition text_block (t : tti) : bool := negb ((239 <? t_ebn t) && (t_ebn t <? 255)).

(* tnb-zero-division: TNB reads as 0 and there is at least one TTI block *)
Definition trigger_tnb (file : list Z) : bool :=
  match py_int (g_tnb (gsi_of file)) with Some 0 => negb (Nat.leb (length file) 1024) | _ => false end.

(* comment-flag-ignored: a text-carrying block with CF = 1 *)
Definition trigger_comment (file : list Z) : bool :=
  existsb (fun t => text_block t && (t_cf t =? 1)) (tti_blocks file).

Definition trigger_strip_file (file : list Z) : bool :=
  existsb (fun t => text_block t && trigger_strip (t_tf t)) (tti_blocks file).

Definition trigger_a4_file (file : list Z) : bool :=
  latin_cct (g_cct (gsi_of file)) && existsb (fun t => text_block t && trigger_a4 (t_tf t)) (tti_blocks file).

(* df-23976: 24000/1001 fps and a time address beyond the first minute (the drop-frame compensation is non-zero) *)
Definition beyond_first_minute (l : label) : bool := let '(h, m, _, _) := l in negb ((h =? 0) && (m =? 0)).
Definition trigger_23976 (file : list Z) (cfg : config) : bool :=
  bytes_eqb (g_dfc (gsi_of file)) [83; 84; 76; 50; 51; 46; 48; 49] &&
  (existsb (fun t => text_block t && (beyond_first_minute (t_tci t) || beyond_first_minute (t_tco t))) (tti_blocks file) ||
   match cf_start cfg with
   | StNone => false
   | StTCP => let tcp := g_tcp (gsi_of file) in
              match py_int (slice 0 2 tcp), py_int (slice 2 2 tcp), py_int (slice 4 2 tcp), py_int (slice 6 2 tcp) with
              | Some h, Some m, Some s, Some f => beyond_first_minute (h, m, s, f)
              | _, _, _, _ => false
              end
   | StStr t => match parse_tc t r23976 with Some (l, _) => beyond_first_minute l | None => false end
   end).

(* the triggers that depend on the reader's state are evaluated along the run of M: `pred` sees the state
   before the block, the block, the accumulated text field and whether the block passes the time tests *)
Definition block_view (f : datafile) (s : state) (t : tti) : list Z * bool :=
  let tf := (if st_in_ext s then st_tf s else []) ++ strip_8f (t_tf t) in
  let b := (offset_q (f_fps f) (t_tci t) - f_start f)%Q in
  let e := (offset_q (f_fps f) (t_tco t) - f_start f)%Q in
  (tf, (t_ebn t =? 255) && negb (q_neg b) && negb (q_lt e b)).
(* walks the file exactly as reader.to_model does (Model/StlDatafile.v read_blocks) *)
Fixpoint scan (fuel : nat) (pred : state -> tti -> list Z -> bool -> bool) (f : datafile) (s : state) (bs : list Z) : bool :=
  match fuel with
  | O => false
  | S k =>
      match bs with
      | [] => false
      | _ =>
          let buf := firstn 128 bs in
          if negb (Nat.eqb (length buf) 128) then false else
          let t := unpack_tti buf in
          (text_block t && let '(tf, live) := block_view f s t in pred s t tf live) ||
          match process_tti f s t with
          | inl s' => if f_tti_count f =? 0 then false else scan k pred f s' (skipn 128 bs)
          | inr _ => false
          end
      end
  end.
Definition scan_file (pred : state -> tti -> list Z -> bool -> bool) (file : list Z) (cfg : config) : bool :=
  if negb (Nat.eqb (length (firstn 1024 file)) 1024) then false else
  match init (gsi_of file) cfg with
  | inl f => scan (S (length file)) pred f state0 (skipn 1024 file)
  | inr _ => false
  end.

(* cumulative-before-first: a block that does not open a paragraph is completed while no paragraph exists *)
Definition trigger_cumulative_first : list Z -> config -> bool :=
  scan_file (fun s t _ live => live && negb ((t_cs t =? 0) || (t_cs t =? 1)) &&
                               match st_cur s with None => true | Some _ => false end).

Definition trigger_blank_row_file : list Z -> config -> bool :=
  scan_file (fun _ t tf live => live && trigger_blank_row tf).

(* vp-zero-above-safe-area: a paragraph is opened with VP = 0 and placed in a top-anchored region *)
Definition trigger_vp_zero : list Z -> config -> bool :=
  scan_file (fun _ t _ live => live && ((t_cs t =? 0) || (t_cs t =? 1)) && (t_vp t =? 0)).

(* all of them, as a bit mask (bit i = i-th entry of FINDINGS in harness/c09.py) *)
Definition trigger_mask (file : list Z) (cfg : config) : Z :=
  (if trigger_cumulative_first file cfg then 1 else 0) + (if trigger_strip_file file then 2 else 0) +
  (if trigger_23976 file cfg then 4 else 0) + (if trigger_a4_file file then 8 else 0) +
  (if trigger_comment file then 16 else 0) + (if trigger_blank_row_file file cfg then 32 else 0) +
  (if trigger_vp_zero file cfg then 64 else 0) + (if trigger_tnb file then 128 else 0).
