(* C09: how M's output vocabulary maps to S's (the observation relation between the document of Model/StlDatafile.v and
   the presentation of Spec/Ebu3264Spec.v, used both by the theorems of Proofs/C09/File.v and - in its executable,
   tolerance-aware form - by Model/StlCases.v), and the executable trigger predicate of the one finding that is still
   recorded (df-23976; KNOWN_FINDINGS.txt).  The triggers of cumulative-before-first, tf-strip-not-cut, iso6937-a4,
   comment-flag-ignored, blank-row-dropped, vp-zero-above-safe-area and tnb-zero-division were deleted when the
   defects were repaired. *)
From Coq Require Import QArith.
From TT Require Import Base.Prelude Model.TimeCode Model.Iso6937 Model.StlTf Model.StlDatafile Spec.Ebu3264Spec.
Open Scope Z_scope.

(* ---- observation: text ------------------------------------------------------------------------------- *)
Definition attrs_of (s : style) : attrs := mkAttrs (s_fg s) (s_bg s) (s_italic s) (s_underline s).
Definition piece_of_leaf (l : leaf) : piece :=
  match l with LRun s t => Run (attrs_of s) t | LBr => Break end.

(* ---- observation: configuration ------------------------------------------------------------------------ *)
(* "hh:mm:ss:ff" *)
Definition label_of_text (t : text) : option label :=
  match t with
  | [a; b; 58; c; d; 58; e; f; 58; g; h] =>
      match two_digit a b, two_digit c d, two_digit e f, two_digit g h with
      | Some hh, Some mm, Some ss, Some ff => Some (hh, mm, ss, ff)
      | _, _, _, _ => None
      end
  | _ => None
  end.
Definition spec_start (c : start_tc) : option start_cfg :=
  match c with
  | StNone => Some StartNone
  | StTCP => Some StartTCP
  | StStr t => match label_of_text t with Some l => Some (StartLabel l) | None => None end
  end.
Definition spec_rows (c : max_rows_cfg) : rows_cfg :=
  match c with MrNone => RowsDefault | MrMNR => RowsMNR | MrInt n => RowsInt n end.

(* ---- observation: paragraphs ---------------------------------------------------------------------------- *)
Definition align_code (a : alignment) : Z := match a with AlignStart => 0 | AlignCenter => 1 | AlignEnd => 2 end.

Fixpoint leaves_of_items (its : list pitem) : option (list leaf) :=
  match its with
  | [] => Some []
  | PLeaf l :: r => match leaves_of_items r with Some ls => Some (l :: ls) | None => None end
  | PSub _ _ _ :: _ => None
  end.
Fixpoint parts_of_subs (its : list pitem) : option (list part) :=
  match its with
  | [] => Some []
  | PSub b e ls :: r => match parts_of_subs r with Some ps => Some (mkPart b e (map piece_of_leaf ls) :: ps) | None => None end
  | PLeaf _ :: _ => None
  end.
(* a paragraph of the document as timed parts: either the paragraph itself is timed and holds the runs, or it
   holds timed spans only *)
Definition parts_of_para (p : para) : option (list part) :=
  match p_time p with
  | Some (b, e) => match leaves_of_items (p_items p) with Some ls => Some [mkPart b e (map piece_of_leaf ls)] | None => None end
  | None => parts_of_subs (p_items p)
  end.

Definition rect_of (r : region) : rect := mkRect (r_x r) (r_y r) (r_w r) (r_h r) (r_after r).
Definition rect_equiv (a b : rect) : Prop :=
  (x0 a == x0 b /\ y0 a == y0 b /\ width a == width b /\ height a == height b)%Q /\ align_after a = align_after b.

(* a paragraph `p` of the document read (its region looked up in `regions`) presents the paragraph `g` of the
   specification on a grid of `rows` rows: same alignment, the same timed parts (times, runs with their attributes,
   line breaks - exactly), and a region that is the specification's top-anchored region of g's first row or the
   bottom-anchored region of g's last row *)
Definition para_matches (rows : Z) (regions : list region) (p : para) (g : paragraph) : Prop :=
  p_align p = align_code (pg_align g) /\
  parts_of_para p = Some (pg_parts g) /\
  exists r, nth_error regions (Z.to_nat (p_region p)) = Some r /\ 0 <= p_region p /\
            (rect_equiv (rect_of r) (top_anchored rows (pg_vp g)) \/
             rect_equiv (rect_of r) (bottom_anchored rows (pg_vp g + pg_rows g - 1))).
(* the divisions of the document are the specification's groups, paragraph by paragraph *)
Definition doc_matches (rows : Z) (d : sdoc) (groups : list (list paragraph)) : Prop :=
  Forall2 (Forall2 (para_matches rows (d_regions d))) (d_divs d) groups.

(* ---- file level -------------------------------------------------------------------------------------- *)
Definition gsi_of (file : list Z) : gsi := unpack_gsi (firstn 1024 file).
Definition teletext_of (file : list Z) : bool := let g := gsi_of file in (g_dsc g =? 49) || (g_dsc g =? 50).

Fixpoint chunks (fuel : nat) (bs : list Z) : list (list Z) :=
  match fuel with
  | O => []
  | S k => match bs with [] => [] | _ => firstn 128 bs :: chunks k (skipn 128 bs) end
  end.
Definition tti_blocks (file : list Z) : list tti :=
  map unpack_tti (filter (fun c => Nat.eqb (length c) 128) (chunks (S (length file)) (skipn 1024 file))).
(* a block that carries subtitle text: not user data / reserved (EBN F0..FE), not a comment (CF = 1) *)
Definition text_block (t : tti) : bool := negb ((239 <? t_ebn t) && (t_ebn t <? 255)) && negb (t_cf t =? 1).

(* df-23976: 24000/1001 fps and a time address beyond the first minute (the drop-frame compensation is non-zero) *)
Definition beyond_first_minute (l : label) : bool := let '(h, m, _, _) := l in negb ((h =? 0) && (m =? 0)).
Definition is_stl23 (dfc : list Z) : bool := bytes_eqb dfc [83; 84; 76; 50; 51; 46; 48; 49].
Definition trigger_23976 (file : list Z) (cfg : config) : bool :=
  is_stl23 (g_dfc (gsi_of file)) &&
  (existsb (fun t => text_block t && (beyond_first_minute (t_tci t) || beyond_first_minute (t_tco t))) (tti_blocks file) ||
   match cf_start cfg with
   | StNone => false
   | StTCP => let tcp := g_tcp (gsi_of file) in
              match py_int (slice 0 2 tcp), py_int (slice 2 2 tcp), py_int (slice 4 2 tcp), py_int (slice 6 2 tcp) with
              | Some h, Some m, Some s, Some f => beyond_first_minute (h, m, s, f)
              | _, _, _, _ => false
              end
   | StStr t => match parse_tc t r23976 with Some (l, _) => beyond_first_minute l | None => false end
   end).

(* all recorded findings, as a bit mask (bit i = i-th entry of FINDINGS in harness/c09.py) *)
Definition trigger_mask (file : list Z) (cfg : config) : Z := if trigger_23976 file cfg then 1 else 0.
