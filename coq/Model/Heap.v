(* M for C15: ttconv/model.py as a heap machine.  One transcribed operation per public method of
   ContentElement / its subclasses / ContentDocument, with the order of the checks and of the
   field writes of the Python source, so that an exception raised after a partial update leaves
   the partial update in the state (res = ROk h | RErr h exn carries the heap at the raise).
   Loops that Python runs over object links (`while ancestor is not None`, `__iter__`,
   `dfs_iterator`) take fuel; running out of fuel is the outcome EFuel, which stands for
   non-termination and is never produced on a heap whose links form a forest.
   No proofs in this file. *)
From Coq Require Import List Arith Bool.
From TT Require Import Base.HeapTypes.
Import ListNotations.

Inductive exn := ERuntime | EValue | EType | EAttr | EIndex | EFuel.
Inductive outcome := OOk | ORaised (e : exn).
Inductive res := ROk (h : heap) | RErr (h : heap) (e : exn).
Definition bind (r : res) (f : heap -> res) : res := match r with ROk h => f h | RErr h e => RErr h e end.
Notation "r >>= f" := (bind r f) (at level 50, left associativity).
Definition heap_of (r : res) : heap := match r with ROk h => h | RErr h _ => h end.
Definition outcome_of (r : res) : outcome := match r with ROk _ => OOk | RErr _ e => ORaised e end.

(* for x in l: f x   (stops at the first raise) *)
Fixpoint each (f : heap -> nat -> res) (l : list nat) (h : heap) : res :=
  match l with [] => ROk h | x :: t => f h x >>= each f t end.

Definition is_some {A} (o : option A) : bool := match o with Some _ => true | None => false end.
Definition kind_of (h : heap) (i : nat) : kind := n_kind (nd h i).
Definition okind (h : heap) (o : option nat) : option kind := option_map (kind_of h) o.
Definition okind_is (k : kind) (o : option kind) : bool :=
  match o with Some k' => kind_eqb k k' | None => false end.

(* ------------------------------------------------------------------------------------------
   style_properties.py: StyleProperties.<P>.validate, on value shapes                        *)
Inductive vres := VTrue | VFalse | VRaise.       (* VRaise: AttributeError inside validate *)
Definition ret (b : bool) : vres := if b then VTrue else VFalse.
Definition unit_in (u : lunit) (l : list lunit) : bool :=
  existsb (fun x => if lunit_eq_dec x u then true else false) l.
Definition horiz_units := [Upct; Upx; Uc; Urw].
Definition vert_units := [Upct; Upx; Uc; Urh].
(* `isinstance(..) and a.units in (pct, px, c, rw) and b.units in (pct, px, c, rh)` *)
Definition two_axes (a b : option lunit) : vres :=
  match a with
  | None => VRaise
  | Some ua => if unit_in ua horiz_units
               then match b with None => VRaise | Some ub => ret (unit_in ub vert_units) end
               else VFalse
  end.
Definition is_enum (e : enumty) (v : sval) : bool :=
  match v with VEnum e' => if enumty_eq_dec e e' then true else false | _ => false end.
Definition is_len (v : sval) : bool := match v with VLen _ => true | _ => false end.
Definition is_number (v : sval) : bool := match v with VNum | VBool => true | _ => false end.
Definition is_special (s : special) (v : sval) : bool :=
  match v with VSpecial s' => if special_eq_dec s s' then true else false | _ => false end.
Definition item_ok (i : fitem) : bool := match i with FStr | FGeneric => true | FOther => false end.

Definition validate (p : prop) (v : sval) : vres :=
  match p with
  | PBackgroundColor | PColor => ret (match v with VColor => true | _ => false end)
  | PDirection => ret (is_enum EDirection v)
  | PDisparity => ret (is_len v)
  | PDisplay => ret (is_enum EDisplay v)
  | PDisplayAlign => ret (is_enum EDisplayAlign v)
  | PExtent => match v with VExtent hh ww => two_axes ww hh | _ => VFalse end
  | PFillLineGap => ret (match v with VBool => true | _ => false end)
  | PFontFamily => ret (match v with VTuple l => forallb item_ok l | _ => false end)
  | PFontSize => ret (is_len v)
  | PFontStyle => ret (is_enum EFontStyle v)
  | PFontWeight => ret (is_enum EFontWeight v)
  | PLineHeight => ret (is_special SNormal v || is_len v)
  | PLinePadding => ret (match v with VLen u => unit_in u [Uc; Urh; Urw] | _ => false end)
  | PLuminanceGain => ret (is_number v)
  | PMultiRowAlign => ret (is_enum EMultiRowAlign v)
  | POpacity => ret (is_number v)
  | POrigin => match v with VCoord x y => two_axes x y | _ => VFalse end
  | POverflow => ret (is_enum EOverflow v)
  | PPadding => ret (match v with VPadding => true | _ => false end)
  | PPosition => match v with VPos ho vo => two_axes ho vo | _ => VFalse end
  | PRubyAlign => ret (is_enum ERubyAlign v)
  | PRubyPosition => ret (is_enum EAnnotationPosition v)
  | PRubyReserve => ret (is_special SNone v || match v with VRubyReserve => true | _ => false end)
  | PShear => ret (is_number v)
  | PShowBackground => ret (is_enum EShowBackground v)
  | PTextAlign => ret (is_enum ETextAlign v)
  | PTextCombine => ret (is_enum ETextCombine v)
  | PTextDecoration => ret (match v with VTextDec => true | _ => false end)
  | PTextEmphasis => ret (is_special SNone v || match v with VTextEmph => true | _ => false end)
  | PTextOutline => ret (is_special SNone v || match v with VTextOutline => true | _ => false end)
  | PTextShadow => ret (is_special SNone v || match v with VTextShadow => true | _ => false end)
  | PUnicodeBidi => ret (is_enum EUnicodeBidi v)
  | PVisibility => ret (is_enum EVisibility v)
  | PWrapOption => ret (is_enum EWrapOption v)
  | PWritingMode => ret (is_enum EWritingMode v)
  end.

(* Python dict with insertion order: d[k] = v, d.pop(k, None), k in d, d.get(k) *)
Section Dict.
  Context {K V : Type} (eqb : K -> K -> bool).
  Fixpoint dict_has (d : list (K * V)) (k : K) : bool :=
    match d with [] => false | (k', _) :: t => eqb k k' || dict_has t k end.
  Fixpoint dict_get (d : list (K * V)) (k : K) : option V :=
    match d with [] => None | (k', v) :: t => if eqb k k' then Some v else dict_get t k end.
  Fixpoint dict_set (d : list (K * V)) (k : K) (v : V) : list (K * V) :=
    match d with
    | [] => [(k, v)]
    | (k', v') :: t => if eqb k k' then (k', v) :: t else (k', v') :: dict_set t k v
    end.
  Fixpoint dict_del (d : list (K * V)) (k : K) : list (K * V) :=
    match d with [] => [] | (k', v') :: t => if eqb k k' then t else (k', v') :: dict_del t k end.
End Dict.

(* ------------------------------------------------------------------------------------------
   iteration over links                                                                       *)
(* ContentElement.__iter__ / list(self): follow _next_sibling from `cur` *)
Fixpoint walk (h : heap) (fuel : nat) (cur : option nat) : option (list nat) :=
  match cur with
  | None => Some []
  | Some c => match fuel with
              | O => None
              | S k => option_map (cons c) (walk h k (n_next (nd h c)))
              end
  end.
Definition kids (h : heap) (s : nat) : option (list nat) := walk h (S (nnodes h)) (n_first (nd h s)).

(* `ancestor = self; while ancestor is not None: if ancestor is child: raise; ancestor = ancestor.parent()` *)
Fixpoint anc_walk (fuel : nat) (h : heap) (cur : option nat) (c : nat) : option bool :=
  match cur with
  | None => Some false
  | Some a => if Nat.eqb a c then Some true
              else match fuel with O => None | S k => anc_walk k h (n_parent (nd h a)) c end
  end.

(* dfs_iterator *)
Fixpoint dfs (fuel : nat) (h : heap) (i : nat) : option (list nat) :=
  match fuel with
  | O => None
  | S k =>
    match kids h i with
    | None => None
    | Some cs =>
      option_map (cons i)
        ((fix go (l : list nat) : option (list nat) :=
            match l with
            | [] => Some []
            | c :: t => match dfs k h c, go t with Some a, Some b => Some (a ++ b) | _, _ => None end
            end) cs)
    end
  end.

(* ContentElement.root(): `while root.parent() is not None: root = root.parent()` *)
Fixpoint root_walk (fuel : nat) (h : heap) (i : nat) : option nat :=
  match n_parent (nd h i) with
  | None => Some i
  | Some p => match fuel with O => None | S k => root_walk k h p end
  end.

(* ------------------------------------------------------------------------------------------
   ContentElement.push_child and the per-class guards                                         *)
Definition ce_push_child (h : heap) (s c : nat) : res :=
  if is_some (n_parent (nd h c)) then RErr h ERuntime          (* Element already has a parent *)
  else if negb (onat_eqb (n_doc (nd h c)) (n_doc (nd h s))) then RErr h ERuntime   (* different document *)
  else match anc_walk (S (nnodes h)) h (Some s) c with
  | None => RErr h EFuel
  | Some true => RErr h ERuntime                                (* root added to its descendents *)
  | Some false =>
    let h1 := updn h c (fun n => set_next None (set_prev (n_last (nd h s)) (set_parent (Some s) n))) in
    let h2 := match n_last (nd h1 s) with Some l => updn h1 l (set_next (Some c)) | None => h1 end in
    let h3 := match n_first (nd h2 s) with None => updn h2 s (set_first (Some c)) | Some _ => h2 end in
    ROk (updn h3 s (set_last (Some c)))
  end.

Definition kind_in (k : kind) (l : list kind) : bool := existsb (kind_eqb k) l.

(* what `self.push_child(child)` does before reaching ContentElement.push_child: None = guard passed *)
Definition push_guard (h : heap) (s c : nat) : option exn :=
  let kc := kind_of h c in
  match kind_of h s with
  | KBody => if kind_in kc [KDiv] then None else Some EType
  | KDiv => if kind_in kc [KP; KDiv] then None else Some EType
  | KP => if kind_in kc [KSpan; KBr; KRuby] then None else Some EType
  | KSpan => if kind_in kc [KSpan; KBr; KText] then None else Some EType
  | KBr => Some EType
  | KRuby => Some ERuntime
  | KRb | KRt | KRp => if kind_in kc [KSpan] then None else Some EType
  | KRbc => if kind_in kc [KRb] then None else Some EType
  | KRtc =>
    (* `if isinstance(self.first_child(), Rp) or not isinstance(child, Rt): raise ValueError` *)
    if okind_is KRp (okind h (n_first (nd h s))) || negb (kind_in kc [KRt]) then Some EValue else None
  | KText => Some ERuntime
  | KRegion => Some ERuntime
  end.
Definition push_child (h : heap) (s c : nat) : res :=
  match push_guard h s c with Some e => RErr h e | None => ce_push_child h s c end.

(* ContentElement.remove_child *)
Definition ce_remove_child (h : heap) (s c : nat) : res :=
  match kids h s with
  | None => RErr h EFuel
  | Some cs =>
    if negb (existsb (Nat.eqb c) cs) then RErr h EValue
    else
      let h1 := if onat_eqb (n_first (nd h s)) (Some c) then updn h s (set_first (n_next (nd h c))) else h in
      let h2 := if onat_eqb (n_last (nd h1 s)) (Some c) then updn h1 s (set_last (n_prev (nd h1 c))) else h1 in
      let h3 := match n_prev (nd h2 c) with Some pv => updn h2 pv (set_next (n_next (nd h2 c))) | None => h2 end in
      let h4 := match n_next (nd h3 c) with Some nx => updn h3 nx (set_prev (n_prev (nd h3 c))) | None => h3 end in
      ROk (updn h4 c (fun n => set_prev None (set_next None (set_parent None n))))
  end.
Definition remove_child (h : heap) (s c : nat) : res :=
  match kind_of h s with
  | KRuby | KRtc => RErr h ERuntime
  | _ => ce_remove_child h s c
  end.
Definition remove (h : heap) (s : nat) : res :=
  match n_parent (nd h s) with None => ROk h | Some p => remove_child h p s end.
(* `for c in list(self): self.remove_child(c)`; Ruby and Rtc call super().remove_child *)
Definition remove_children (h : heap) (s : nat) : res :=
  match kids h s with
  | None => RErr h EFuel
  | Some cs => each (fun h' c => ce_remove_child h' s c) cs h
  end.

Definition kinds_eqb (a b : list kind) : bool := if list_eq_dec kind_eq_dec a b then true else false.
Definition ruby_patterns : list (list kind) :=
  [[KRb; KRt]; [KRb; KRp; KRt; KRp]; [KRbc; KRtc]; [KRbc; KRtc; KRtc]].
(* Rtc.push_children: strip an Rp at both ends when len > 2, the rest must be Rt *)
Definition rtc_list_ok (ks : list kind) : bool :=
  let inner := match ks with
               | KRp :: rest => if (2 <? length ks) && kind_eqb (last ks KText) KRp then removelast rest else ks
               | _ => ks
               end in
  forallb (kind_eqb KRt) inner.
(* `try: for child in children: super().push_child(child)  except Exception: <undo>; raise` *)
Definition push_all_or_undo (h : heap) (s : nat) (cs : list nat) (undo : heap -> res) : res :=
  match each (fun h' c => ce_push_child h' s c) cs h with
  | ROk h' => ROk h'
  | RErr h' e => match undo h' with ROk h'' => RErr h'' e | RErr h'' e' => RErr h'' e' end
  end.
Definition push_children (h : heap) (s : nat) (cs : list nat) : res :=
  match kind_of h s with
  | KRuby =>
    if is_some (n_first (nd h s)) then RErr h ERuntime
    else if negb (existsb (kinds_eqb (map (kind_of h) cs)) ruby_patterns) then RErr h EValue
    else push_all_or_undo h s cs (fun h' => remove_children h' s)
  | KRtc =>
    if negb (rtc_list_ok (map (kind_of h) cs)) then RErr h EValue
    else if is_some (n_first (nd h s)) then RErr h ERuntime
    else match kids h s with                                   (* count = len(self) *)
         | None => RErr h EFuel
         | Some k0 =>
           push_all_or_undo h s cs
             (fun h' => match kids h' s with                   (* for child in list(self)[count:]: super().remove_child(child) *)
                        | None => RErr h' EFuel
                        | Some k1 => each (fun h'' c => ce_remove_child h'' s c) (skipn (length k0) k1) h'
                        end)
         end
  | _ => each (fun h' c => push_child h' s c) cs h
  end.

(* ------------------------------------------------------------------------------------------
   attribute setters as dispatched on the class of the receiver                               *)
Definition set_begin_m (h : heap) (s : nat) (v : bool) : res :=
  match kind_of h s with
  | KBr => RErr h ERuntime
  | KText => if v then RErr h ERuntime else ROk h
  | _ => ROk (updn h s (set_begin v))
  end.
Definition set_end_m (h : heap) (s : nat) (v : bool) : res :=
  match kind_of h s with
  | KBr => RErr h ERuntime
  | KText => if v then RErr h ERuntime else ROk h
  | _ => ROk (updn h s (set_end v))
  end.
(* the id argument: None, a valid xml:id (numbered), or a string that is not an xml:id *)
Inductive idarg := IdNone | IdOk (k : nat) | IdBad.
Definition idarg_of (o : option nat) : idarg := match o with None => IdNone | Some k => IdOk k end.
Definition set_id_m (h : heap) (s : nat) (v : idarg) : res :=
  match kind_of h s with
  | KText => match v with IdNone => ROk h | _ => RErr h ERuntime end
  | KRegion => match v with
               | IdOk k => if onat_eqb (Some k) (n_id (nd h s)) then ROk h else RErr h ERuntime
               | IdNone => if onat_eqb None (n_id (nd h s)) then ROk h else RErr h ERuntime
               | IdBad => RErr h ERuntime
               end
  | _ => match v with
         | IdNone => ROk (updn h s (set_id None))
         | IdOk k => ROk (updn h s (set_id (Some k)))
         | IdBad => RErr h EType
         end
  end.
Definition set_lang_m (h : heap) (s : nat) (v : bool) : res :=
  match kind_of h s with
  | KText => if v then RErr h ERuntime else ROk h
  | _ => ROk (updn h s (set_lang v))
  end.
Definition set_space_m (h : heap) (s : nat) (v : bool) : res :=
  match kind_of h s with
  | KText => if v then RErr h ERuntime else ROk h
  | _ => ROk (updn h s (set_space v))
  end.
(* Text.set_text: the argument is a string of the pool (numbered) or not a string; other classes have
   no such method *)
Definition set_text_m (h : heap) (s : nat) (v : option nat) : res :=
  match kind_of h s with
  | KText => match v with Some k => ROk (updn h s (set_text k)) | None => RErr h EType end
  | _ => RErr h EAttr
  end.

(* the style_prop argument: a member of StyleProperties.ALL or something else *)
Inductive pref := PValid (p : prop) | PInvalid.
Definition store_value (d : list (prop * sval)) (p : pref) (v : option sval) : list (prop * sval) + exn :=
  match p with
  | PInvalid => inr EValue
  | PValid p =>
    match v with
    | None => inl (dict_del prop_eqb d p)
    | Some v => match validate p v with
                | VRaise => inr EAttr
                | VFalse => inr EValue
                | VTrue => inl (dict_set prop_eqb d p v)
                end
    end
  end.
Definition set_style_m (h : heap) (s : nat) (p : pref) (v : option sval) : res :=
  match kind_of h s with
  | KText => if is_some v then RErr h ERuntime else ROk h
  | _ => match store_value (n_styles (nd h s)) p v with
         | inl d => ROk (updn h s (set_styles d))
         | inr e => RErr h e
         end
  end.
(* DiscreteAnimationStep(p, None, None, v) followed by add_animation_step *)
Definition add_anim_m (h : heap) (s : nat) (p : pref) (v : option sval) : res :=
  match p, v with
  | PInvalid, _ => RErr h EValue
  | _, None => RErr h EValue
  | PValid p, Some v =>
    match validate p v with
    | VRaise => RErr h EAttr
    | VFalse => RErr h EValue
    | VTrue => ROk (updn h s (fun n => set_anims (n_anims n ++ [(p, v)]) n))
    end
  end.
(* remove_animation_step(step): `self._sets.remove(step)` removes the first equal step, ValueError if none *)
Definition pv_eqb (a b : prop * sval) : bool := if pv_eq_dec a b then true else false.
Fixpoint list_remove (x : prop * sval) (l : list (prop * sval)) : option (list (prop * sval)) :=
  match l with
  | [] => None
  | y :: t => if pv_eqb y x then Some t else option_map (cons y) (list_remove x t)
  end.
Definition remove_anim_m (h : heap) (s : nat) (p : prop) (v : sval) : res :=
  match list_remove (p, v) (n_anims (nd h s)) with
  | None => RErr h EValue
  | Some l => ROk (updn h s (set_anims l))
  end.

(* ContentDocument.get_region(region.get_id()) *)
Definition get_region (h : heap) (d : nat) (id : option nat) : option nat :=
  match id with None => None | Some k => dict_get Nat.eqb (d_regions (dc h d)) k end.
(* Region._users is a set; the harness dumps it in ascending order *)
Fixpoint uins (x : nat) (l : list nat) : list nat :=
  match l with
  | [] => [x]
  | y :: t => if x <? y then x :: l else if x =? y then l else y :: uins x t
  end.
Definition udel (x : nat) (l : list nat) : list nat := filter (fun y => negb (y =? x)) l.
(* the end of ContentElement.set_region: `self._region._users.discard(self)`, `region._users.add(self)`,
   `self._region = region` *)
Definition link_region (h : heap) (s : nat) (r : option nat) : heap :=
  let h1 := match n_region (nd h s) with
            | Some r0 => updn h r0 (fun n => set_users (udel s (n_users n)) n)
            | None => h
            end in
  let h2 := match r with
            | Some rr => updn h1 rr (fun n => set_users (uins s (n_users n)) n)
            | None => h1
            end in
  updn h2 s (set_region r).
Definition set_region_m (h : heap) (s : nat) (r : option nat) : res :=
  let generic :=
    match r with
    | None => ROk (link_region h s None)
    | Some rr =>
      match n_doc (nd h s) with
      | None => RErr h EValue
      | Some d => if onat_eqb (get_region h d (n_id (nd h rr))) (Some rr) then ROk (link_region h s r) else RErr h EValue
      end
    end in
  match kind_of h s with
  | KBr => RErr h ERuntime
  | KText => if is_some r then RErr h ERuntime else ROk h
  | KRegion => if is_some r then RErr h ERuntime else generic
  | _ => generic
  end.

(* ContentElement.set_doc: checks, then one pass over dfs_iterator() that clears the regions (when
   detaching) and stores the document.  The pass only writes _doc, _region and _users, so the
   elements it visits are those enumerated before it starts. *)
Definition set_doc_m (h : heap) (s : nat) (d : option nat) : res :=
  if is_some (n_parent (nd h s)) then RErr h ERuntime
  else match dfs (S (nnodes h)) h s with
  | None => RErr h EFuel
  | Some l =>
    if is_some d && existsb (fun e => is_some (n_doc (nd h e))) l then RErr h ERuntime
    else each (fun h' e =>
                 (if negb (is_some d) && is_some (n_region (nd h' e)) then set_region_m h' e None else ROk h')
                 >>= fun h2 => ROk (updn h2 e (HeapTypes.set_doc d))) l h
  end.

(* ------------------------------------------------------------------------------------------
   ContentDocument                                                                            *)
(* `for e in list(region._users): if e.get_doc() is self: e.set_region(to)` *)
Definition retarget (d : nat) (to : option nat) (h' : heap) (e : nat) : res :=
  if onat_eqb (n_doc (nd h' e)) (Some d) then set_region_m h' e to else ROk h'.
Definition put_region (h : heap) (d r : nat) : res :=
  if negb (kind_eqb (kind_of h r) KRegion) then RErr h EType
  else if negb (onat_eqb (n_doc (nd h r)) (Some d)) then RErr h EValue
  else match n_id (nd h r) with
       | None => RErr h EFuel      (* a Region always has an id; not reachable *)
       | Some k =>
         let replaced := dict_get Nat.eqb (d_regions (dc h d)) k in
         let h1 := updd h d (fun x => set_regions (dict_set Nat.eqb (d_regions x) k r) x) in
         match replaced with
         | None => ROk h1
         | Some r0 => if Nat.eqb r0 r then ROk h1 else each (retarget d (Some r)) (n_users (nd h1 r0)) h1
         end
       end.
Definition remove_region (h : heap) (d id : nat) : res :=
  match dict_get Nat.eqb (d_regions (dc h d)) id with
  | None => ROk h
  | Some r0 =>
    each (retarget d None) (n_users (nd h r0)) h
    >>= fun h1 => ROk (updd h1 d (fun x => set_regions (dict_del Nat.eqb (d_regions x) id) x))
  end.
Definition set_body_m (h : heap) (d : nat) (b : option nat) : res :=
  match b with
  | None => ROk (updd h d (HeapTypes.set_body None))
  | Some bb =>
    if negb (kind_eqb (kind_of h bb) KBody) then RErr h EType
    else if is_some (n_parent (nd h bb)) then RErr h EValue
    else if negb (onat_eqb (n_doc (nd h bb)) (Some d)) then RErr h EValue
    else ROk (updd h d (HeapTypes.set_body b))
  end.
Definition put_initial (h : heap) (d : nat) (p : pref) (v : option sval) : res :=
  match store_value (d_initials (dc h d)) p v with
  | inl x => ROk (updd h d (set_initials x))
  | inr e => RErr h e
  end.
(* remove_initial_value(style_prop): `self._initial_values.pop(style_prop, None)`, any key *)
Definition remove_initial (h : heap) (d : nat) (p : pref) : res :=
  match p with
  | PInvalid => ROk h
  | PValid p => ROk (updd h d (fun x => set_initials (dict_del prop_eqb (d_initials x) p) x))
  end.

(* Document parameters.  The argument: None, an instance of the expected class (numbered), or an
   object of another class *)
Inductive darg := DNone | DVal (k : nat) | DBad.
Definition set_active_m (h : heap) (d : nat) (v : darg) : res :=
  match v with
  | DNone => ROk (updd h d (set_active None))
  | DVal k => ROk (updd h d (set_active (Some k)))
  | DBad => RErr h EType
  end.
Definition set_dar_m (h : heap) (d : nat) (v : darg) : res :=
  match v with
  | DNone => ROk (updd h d (set_dar None))
  | DVal k => ROk (updd h d (set_dar (Some k)))
  | DBad => RErr h EType
  end.
Definition set_cell_m (h : heap) (d : nat) (v : darg) : res :=
  match v with DVal k => ROk (updd h d (set_cell k)) | _ => RErr h EType end.
Definition set_px_m (h : heap) (d : nat) (v : darg) : res :=
  match v with DVal k => ROk (updd h d (set_px k)) | _ => RErr h EType end.
Definition set_dlang_m (h : heap) (d : nat) (v : darg) : res :=
  match v with DVal k => ROk (updd h d (set_dlang k)) | _ => RErr h EType end.
Definition darg_of (o : option nat) : darg := match o with None => DNone | Some k => DVal k end.
(* Document.copy_to then ContentDocument.copy_to *)
Definition doc_copy_to (h : heap) (d dst : nat) : res :=
  (if Nat.eqb d dst then ROk h
   else
     set_active_m h dst (darg_of (d_active (dc h d))) >>= fun h => set_cell_m h dst (DVal (d_cell (dc h d))) >>= fun h =>
     set_dar_m h dst (darg_of (d_dar (dc h d))) >>= fun h => set_dlang_m h dst (DVal (d_dlang (dc h d))) >>= fun h =>
     set_px_m h dst (DVal (d_px (dc h d))))
  >>= fun h1 =>
  (fix go (l : list (prop * sval)) (h : heap) : res :=
     match l with [] => ROk h | (p, v) :: t => put_initial h dst (PValid p) (Some v) >>= go t end)
    (d_initials (dc h1 d)) h1.

(* ------------------------------------------------------------------------------------------
   copy_to (ContentElement, Br, Text, Region versions)                                        *)
Definition copy_styles (s dst : nat) (h : heap) : res :=
  (fix go (l : list (prop * sval)) (h : heap) : res :=
     match l with [] => ROk h | (p, v) :: t => set_style_m h dst (PValid p) (Some v) >>= go t end)
    (n_styles (nd h s)) h.
(* `for step in self.iter_animation_steps(): dest.add_animation_step(step)`; if dest were self the
   list would grow while it is iterated and the loop would never end (every copy_to returns early in
   that case) *)
Definition copy_anims (s dst : nat) (h : heap) : res :=
  if Nat.eqb s dst && negb (match n_anims (nd h s) with [] => true | _ => false end) then RErr h EFuel
  else ROk (updn h dst (fun n => set_anims (n_anims n ++ n_anims (nd h s)) n)).
Definition copy_to (h : heap) (s dst : nat) : res :=
  match kind_of h s with
  | KText => set_text_m h dst (Some (n_text (nd h s)))                          (* dest.set_text(self.get_text()) *)
  | KBr =>
    if Nat.eqb s dst then ROk h
    else
    set_id_m h dst (idarg_of (n_id (nd h s))) >>= fun h => set_lang_m h dst (n_lang (nd h s)) >>= fun h =>
    set_space_m h dst (n_space (nd h s)) >>= copy_styles s dst >>= copy_anims s dst
  | KRegion =>
    if Nat.eqb s dst then ROk h
    else
    set_lang_m h dst (n_lang (nd h s)) >>= fun h => set_space_m h dst (n_space (nd h s)) >>= fun h =>
    set_begin_m h dst (n_begin (nd h s)) >>= fun h => set_end_m h dst (n_end (nd h s)) >>=
    copy_styles s dst >>= copy_anims s dst
  | _ =>
    if Nat.eqb s dst then ROk h
    else
    set_begin_m h dst (n_begin (nd h s)) >>= fun h => set_end_m h dst (n_end (nd h s)) >>= fun h =>
    set_id_m h dst (idarg_of (n_id (nd h s))) >>= fun h => set_lang_m h dst (n_lang (nd h s)) >>= fun h =>
    set_space_m h dst (n_space (nd h s)) >>= copy_styles s dst >>= copy_anims s dst
  end.

(* ------------------------------------------------------------------------------------------
   read-only methods: the value they return (or the exception)                                *)
Inductive rval :=
| RNone | RBool (b : bool) | RNat (n : nat) | RONat (o : option nat) | RList (l : list nat)
| RSval (o : option sval) | RRaise (e : exn).
Definition applicable (k : kind) : list prop :=
  match k with
  | KRegion => [PBackgroundColor; PDisparity; PDisplay; PDisplayAlign; PExtent; PLuminanceGain; POpacity; POrigin;
                POverflow; PPadding; PPosition; PShowBackground; PVisibility; PWritingMode]
  | KBody | KDiv => [PBackgroundColor; PDisplay; POpacity; PVisibility]
  | KP => [PBackgroundColor; PDirection; PDisplay; PFillLineGap; PFontFamily; PFontSize; PFontStyle; PFontWeight;
           PLineHeight; PLinePadding; PMultiRowAlign; POpacity; PRubyReserve; PShear; PTextAlign; PUnicodeBidi; PVisibility]
  | KSpan | KRb | KRp => [PBackgroundColor; PColor; PDirection; PDisplay; PFontFamily; PFontSize; PFontStyle; PFontWeight;
                          POpacity; PTextCombine; PTextDecoration; PTextEmphasis; PTextOutline; PTextShadow; PUnicodeBidi;
                          PVisibility; PWrapOption]
  | KRt => [PBackgroundColor; PColor; PDirection; PDisplay; PFontFamily; PFontSize; PFontStyle; PFontWeight; POpacity;
            PRubyPosition; PTextCombine; PTextDecoration; PTextEmphasis; PTextOutline; PTextShadow; PUnicodeBidi;
            PVisibility; PWrapOption]
  | KBr | KText => []
  | KRuby => [PBackgroundColor; PDirection; PDisplay; POpacity; PRubyAlign; PVisibility]
  | KRbc => [PBackgroundColor; PDirection; PDisplay; POpacity; PVisibility]
  | KRtc => [PBackgroundColor; PDirection; PDisplay; POpacity; PRubyPosition; PVisibility]
  end.
Definition of_list (o : option (list nat)) : rval := match o with Some l => RList l | None => RRaise EFuel end.
Inductive query :=
| QIter (s : nat)                         (* list(self) *)
| QLen (s : nat)                          (* len(self) *)
| QGetItem (s k : nat) (neg : bool)       (* self[k], or self[-(k+1)] when neg *)
| QDfs (s : nat)                          (* list(self.dfs_iterator()) *)
| QRoot (s : nat)
| QHasStyle (s : nat) (p : pref)
| QGetStyle (s : nat) (p : pref)
| QApplicable (s : nat) (p : pref)
| QIsAttached (s : nat)
| QGetText (s : nat)
| QHasRegion (d id : nat)
| QGetRegion (d id : nat)
| QHasInitial (d : nat) (p : pref)
| QGetInitial (d : nat) (p : pref).
Definition ask (h : heap) (q : query) : rval :=
  match q with
  | QIter s => of_list (kids h s)
  | QLen s => match kids h s with Some l => RNat (length l) | None => RRaise EFuel end
  | QGetItem s k neg =>
    match kids h s with
    | None => RRaise EFuel
    | Some l => if k <? length l then RONat (Some (nth (if neg then length l - 1 - k else k) l 0)) else RRaise EIndex
    end
  | QDfs s => of_list (dfs (S (nnodes h)) h s)
  | QRoot s => match root_walk (nnodes h) h s with Some r => RNat r | None => RRaise EFuel end
  | QHasStyle s p => RBool (match p with PValid p => dict_has prop_eqb (n_styles (nd h s)) p | PInvalid => false end)
  | QGetStyle s p => RSval (match p with PValid p => dict_get prop_eqb (n_styles (nd h s)) p | PInvalid => None end)
  | QApplicable s p => RBool (match p with PValid p => existsb (prop_eqb p) (applicable (kind_of h s)) | PInvalid => false end)
  | QIsAttached s => RBool (is_some (n_doc (nd h s)))
  | QGetText s => match kind_of h s with KText => RNat (n_text (nd h s)) | _ => RRaise EAttr end
  | QHasRegion d id => RBool (dict_has Nat.eqb (d_regions (dc h d)) id)
  | QGetRegion d id => RONat (dict_get Nat.eqb (d_regions (dc h d)) id)
  | QHasInitial d p => RBool (match p with PValid p => dict_has prop_eqb (d_initials (dc h d)) p | PInvalid => false end)
  | QGetInitial d p => RSval (match p with PValid p => dict_get prop_eqb (d_initials (dc h d)) p | PInvalid => None end)
  end.

(* ------------------------------------------------------------------------------------------
   calls                                                                                      *)
Inductive call :=
| CPushChild (s c : nat)
| CPushChildren (s : nat) (cs : list nat)
| CRemove (s : nat)
| CRemoveChild (s c : nat)
| CRemoveChildren (s : nat)
| CSetDoc (s : nat) (d : option nat)
| CSetRegion (s : nat) (r : option nat)
| CPutRegion (d r : nat)
| CRemoveRegion (d id : nat)
| CSetBody (d : nat) (b : option nat)
| CSetStyle (s : nat) (p : pref) (v : option sval)
| CAddAnim (s : nat) (p : pref) (v : option sval)
| CAddAnimBad (s : nat)                       (* add_animation_step(<not a DiscreteAnimationStep>) *)
| CPutInitial (d : nat) (p : pref) (v : option sval)
| CCopyTo (s dst : nat)
| CSetBegin (s : nat) (v : bool)
| CSetEnd (s : nat) (v : bool)
| CSetId (s : nat) (v : idarg)
| CSetLang (s : nat) (v : bool)
| CSetSpace (s : nat) (v : bool)
| CRemoveAnim (s : nat) (p : prop) (v : sval)
| CRemoveInitial (d : nat) (p : pref)
| CSetText (s : nat) (v : option nat)
| CSetActive (d : nat) (v : darg)
| CSetCell (d : nat) (v : darg)
| CSetPx (d : nat) (v : darg)
| CSetDar (d : nat) (v : darg)
| CSetDocLang (d : nat) (v : darg)
| CDocCopyTo (d dst : nat)
| CQuery (q : query).

Definition node_ok (h : heap) (i : nat) : bool := i <? nnodes h.
Definition onode_ok (h : heap) (o : option nat) : bool := match o with None => true | Some i => node_ok h i end.
Definition doc_ok (h : heap) (d : nat) : bool := d <? ndocs h.
Definition odoc_ok (h : heap) (o : option nat) : bool := match o with None => true | Some i => doc_ok h i end.
Definition query_ok (h : heap) (q : query) : bool :=
  match q with
  | QIter s | QLen s | QGetItem s _ _ | QDfs s | QRoot s | QHasStyle s _ | QGetStyle s _ | QApplicable s _
  | QIsAttached s | QGetText s => node_ok h s
  | QHasRegion d _ | QGetRegion d _ | QHasInitial d _ | QGetInitial d _ => doc_ok h d
  end.
(* the arguments of a call denote objects of the universe *)
Definition call_ok (h : heap) (c : call) : bool :=
  match c with
  | CPushChild s c => node_ok h s && node_ok h c
  | CPushChildren s cs => node_ok h s && forallb (node_ok h) cs
  | CRemove s | CRemoveChildren s | CAddAnimBad s => node_ok h s
  | CRemoveChild s c => node_ok h s && node_ok h c
  | CSetDoc s d => node_ok h s && odoc_ok h d
  | CSetRegion s r => node_ok h s && onode_ok h r
  | CPutRegion d r => doc_ok h d && node_ok h r
  | CRemoveRegion d _ => doc_ok h d
  | CSetBody d b => doc_ok h d && onode_ok h b
  | CSetStyle s _ _ | CAddAnim s _ _ | CRemoveAnim s _ _ | CSetText s _ => node_ok h s
  | CPutInitial d _ _ | CRemoveInitial d _ => doc_ok h d
  | CCopyTo s dst => node_ok h s && node_ok h dst
  | CSetBegin s _ | CSetEnd s _ | CSetId s _ | CSetLang s _ | CSetSpace s _ => node_ok h s
  | CSetActive d _ | CSetCell d _ | CSetPx d _ | CSetDar d _ | CSetDocLang d _ => doc_ok h d
  | CDocCopyTo d dst => doc_ok h d && doc_ok h dst
  | CQuery q => query_ok h q
  end.

Definition exec (h : heap) (c : call) : res :=
  match c with
  | CPushChild s c => push_child h s c
  | CPushChildren s cs => push_children h s cs
  | CRemove s => remove h s
  | CRemoveChild s c => remove_child h s c
  | CRemoveChildren s => remove_children h s
  | CSetDoc s d => set_doc_m h s d
  | CSetRegion s r => set_region_m h s r
  | CPutRegion d r => put_region h d r
  | CRemoveRegion d id => remove_region h d id
  | CSetBody d b => set_body_m h d b
  | CSetStyle s p v => set_style_m h s p v
  | CAddAnim s p v => add_anim_m h s p v
  | CAddAnimBad s => RErr h EType
  | CPutInitial d p v => put_initial h d p v
  | CCopyTo s dst => copy_to h s dst
  | CSetBegin s v => set_begin_m h s v
  | CSetEnd s v => set_end_m h s v
  | CSetId s v => set_id_m h s v
  | CSetLang s v => set_lang_m h s v
  | CSetSpace s v => set_space_m h s v
  | CRemoveAnim s p v => remove_anim_m h s p v
  | CRemoveInitial d p => remove_initial h d p
  | CSetText s v => set_text_m h s v
  | CSetActive d v => set_active_m h d v
  | CSetCell d v => set_cell_m h d v
  | CSetPx d v => set_px_m h d v
  | CSetDar d v => set_dar_m h d v
  | CSetDocLang d v => set_dlang_m h d v
  | CDocCopyTo d dst => doc_copy_to h d dst
  | CQuery q => match ask h q with RRaise e => RErr h e | _ => ROk h end
  end.
(* the value a call returns: None for every method except the read-only ones *)
Definition result (h : heap) (c : call) : rval := match c with CQuery q => ask h q | _ => RNone end.

Definition step (h : heap) (c : call) : heap * outcome :=
  if call_ok h c then let r := exec h c in (heap_of r, outcome_of r) else (h, ORaised EType).
Definition run (h : heap) (cs : list call) : heap := fold_left (fun h c => fst (step h c)) cs h.

(* the containers whose children are added as one ordered list (push_children validates the whole list and
   undoes a partial push) *)
Definition ordered_kind (k : kind) : bool := match k with KRuby | KRtc => true | _ => false end.

(* "single-element operations": those that the property requires to be atomic when rejected
   (everything but the methods that loop over several elements or values) *)
Definition single_element (c : call) : bool :=
  match c with
  | CPushChildren _ _ | CRemoveChildren _ | CCopyTo _ _ | CDocCopyTo _ _ => false
  | _ => true
  end.

(* the initial universe: freshly constructed, unlinked elements (kind, owner document, id) and
   empty documents *)
Definition fresh (x : kind * option nat * option nat) : node :=
  let '(k, d, i) := x in mkNode k d None None None None None None false false i false false [] [] [] 0.
Definition init (elems : list (kind * option nat * option nat)) (ndoc : nat) : heap :=
  mkHeap (map fresh elems) (repeat ddoc ndoc).
