(* M for C01/C02/C03/C13/C14: transcription of ttconv/isd.py — ISD._make_absolute, ISD._process_element,
   ISD._compute_styles, StyleProcessors.*, _compute_length, _get_writing_mode, _construct_text_list,
   _process_lwsp, _prune_empty_spans and ISD.from_model (uncached).  The statement order of the Python code
   is kept (animation, specified, direction, inheritance, initial, compute, display pruning, children,
   white space, inapplicable styles, keep/drop).  No proofs here. *)
From TT Require Import Model.Doc Gen.StyleTables.

Definition applicable (k : kind) (p : Z) : bool :=
  match assoc_z applicable_table (kind_num k) with Some l => existsb (Z.eqb p) l | None => false end.
Definition is_inherited (p : Z) : bool := existsb (Z.eqb p) inherited_props.

(* ---- ISD._make_absolute ---------------------------------------------------------------------- *)
Definition make_absolute (b e : option Q) (pb pe : option Q) : Q * option Q :=
  let pb0 := match pb with Some x => x | None => 0%Q end in
  let bt := Qplus pb0 (match b with Some x => x | None => 0%Q end) in
  let et := match e with Some x => Some (Qplus pb0 x) | None => None end in
  let et := match et with
            | None => pe
            | Some x => match pe with Some y => Some (Qmin x y) | None => Some x end
            end in
  (bt, et).

(* inactive iff begin > t or (end is not None and end <= t) *)
Definition active_at (t : Q) (iv : Q * option Q) : bool :=
  negb (Qltb t (fst iv)) && match snd iv with Some e => Qltb t e | None => true end.

(* ---- _compute_length --------------------------------------------------------------------------- *)
Definition compute_length (src : len) (pct em c px : option len) : res len :=
  match lu src with
  | Upct => match pct with Some r => Ok (mkLen (Qdiv (Qmult (lv src) (lv r)) (qz 100)) (lu r)) | None => Err errCompute end
  | Uem => match em with Some r => Ok (mkLen (Qmult (lv src) (lv r)) (lu r)) | None => Err errCompute end
  | Uc => match c with Some r => Ok (mkLen (Qmult (lv src) (lv r)) (lu r)) | None => Err errCompute end
  | Upx => match px with Some r => Ok (mkLen (Qmult (lv src) (lv r)) (lu r)) | None => Err errCompute end
  | _ => Ok src
  end.
Definition rh (q : Q) : len := mkLen q Urh.
Definition rw (q : Q) : len := mkLen q Urw.
Definition c_h (d : doc) : len := rh (Qdiv (qz 100) (qz (d_rows d))).
Definition c_w (d : doc) : len := rw (Qdiv (qz 100) (qz (d_cols d))).
Definition px_h (d : doc) : len := rh (Qdiv (qz 100) (qz (d_pxh d))).
Definition px_w (d : doc) : len := rw (Qdiv (qz 100) (qz (d_pxw d))).

Definition get_len (m : smap) (p : Z) : option len :=
  match sget m p with Some (VLen l) => Some l | _ => None end.
Definition get_color (m : smap) (p : Z) : option Z :=
  match sget m p with Some (VColor c) => Some c | _ => None end.

(* the four reference lengths used by LineHeight, LinePadding, RubyReserve, TextOutline, TextShadow *)
Definition font_relative (d : doc) (st : smap) (l : len) : res len :=
  compute_length l (get_len st p_FontSize) (get_len st p_FontSize) (Some (c_h d)) (Some (px_h d)).

(* ---- StyleProcessors.*.compute: one property, on the element's current style map -------------- *)
(* par = the ISD parent (kind and its style map at this moment), None for regions *)
Definition is_vertical (wm : option value) : bool :=
  match wm with
  | Some (VEnum w) => (w =? e_WritingModeType_tblr) || (w =? e_WritingModeType_tbrl)
  | _ => false
  end.

Fixpoint compute_shadows (d : doc) (st : smap) (ss : list (len * len * option len * option Z))
  : res (list (len * len * option len * option Z)) :=
  match ss with
  | [] => Ok []
  | (x, y, blur, col) :: ss' =>
      bind (font_relative d st x) (fun x' =>
      bind (font_relative d st y) (fun y' =>
      bind (match blur with None => Ok None | Some b => bind (font_relative d st b) (fun b' => Ok (Some b')) end) (fun blur' =>
      bind (compute_shadows d st ss') (fun rest =>
      Ok ((x', y', blur', match col with Some c => Some c | None => get_color st p_Color end) :: rest)))))
  end.

Definition compute_prop (d : doc) (par : option (kind * smap)) (st : smap) (p : Z) : res smap :=
  if p =? p_FontSize then
    match sget st p with
    | Some (VLen v) =>
        let pv := match par with Some (_, pst) => get_len pst p_FontSize | None => None end in
        let ref := match pv with Some l => l | None => c_h d end in
        bind (compute_length v (Some ref) (Some ref) (Some (c_h d)) (Some (px_h d))) (fun l => Ok (sset st p (VLen l)))
    | _ => Err errCompute
    end
  else if p =? p_Extent then
    match sget st p with
    | Some (VExtent h w) =>
        bind (compute_length h (Some (rh (qz 100))) (get_len st p_FontSize) (Some (c_h d)) (Some (px_h d))) (fun h' =>
        bind (compute_length w (Some (rw (qz 100))) (get_len st p_FontSize) (Some (c_w d)) (Some (px_w d))) (fun w' =>
        Ok (sset st p (VExtent h' w'))))
    | _ => Err errCompute
    end
  else if p =? p_Origin then
    match sget st p with
    | Some (VCoord x y) =>
        bind (compute_length y (Some (rh (qz 100))) None (Some (c_h d)) (Some (px_h d))) (fun y' =>
        bind (compute_length x (Some (rw (qz 100))) None (Some (c_w d)) (Some (px_w d))) (fun x' =>
        Ok (sset st p (VCoord x' y'))))
    | _ => Err errCompute
    end
  else if p =? p_Position then
    match sget st p with
    | None =>
        match sget st p_Origin with
        | Some (VCoord x y) => Ok (sset st p (VPos x e_PositionType_HEdge_left y e_PositionType_VEdge_top))
        | _ => Err errCompute
        end
    | Some (VPos ho he vo ve) =>
        match sget st p_Extent with
        | Some (VExtent eh ew) =>
            if negb (unit_eqb (lu eh) Urh && unit_eqb (lu ew) Urw) then Err errCompute   (* the two asserts *)
            else
            bind (compute_length vo (Some (rh (Qminus (qz 100) (lv eh)))) None (Some (c_h d)) (Some (px_h d))) (fun v1 =>
            let v2 := if ve =? e_PositionType_VEdge_bottom
                      then mkLen (Qminus (Qminus (qz 100) (lv eh)) (lv v1)) (lu v1) else v1 in
            bind (compute_length ho (Some (rw (Qminus (qz 100) (lv ew)))) None (Some (c_w d)) (Some (px_w d))) (fun h1 =>
            let h2 := if he =? e_PositionType_HEdge_right
                      then mkLen (Qminus (Qminus (qz 100) (lv ew)) (lv h1)) (lu h1) else h1 in
            Ok (sset (sset st p_Origin (VCoord h2 v2)) p (VPos h2 e_PositionType_HEdge_left v2 e_PositionType_VEdge_top))))
        | _ => Err errCompute
        end
    | _ => Err errCompute
    end
  else if p =? p_LineHeight then
    match sget st p with
    | Some (VSpecial s) => Ok st
    | Some (VLen l) => bind (font_relative d st l) (fun l' => Ok (sset st p (VLen l')))
    | _ => Err errCompute
    end
  else if p =? p_LinePadding then
    match sget st p with
    | Some (VLen l) => bind (font_relative d st l) (fun l' => Ok (sset st p (VLen l')))
    | _ => Err errCompute
    end
  else if p =? p_RubyReserve then
    match sget st p with
    | Some (VSpecial s) => Ok st
    | Some (VReserve pos (Some l)) => bind (font_relative d st l) (fun l' => Ok (sset st p (VReserve pos (Some l'))))
    | Some (VReserve pos None) =>
        match get_len st p_FontSize with
        | Some fs => Ok (sset st p (VReserve pos (Some (mkLen (Qdiv (lv fs) (qz 2)) (lu fs)))))
        | None => Err errCompute
        end
    | _ => Err errCompute
    end
  else if p =? p_TextOutline then
    match sget st p with
    | Some (VSpecial s) => Ok st
    | Some (VOutline col t) =>
        bind (font_relative d st t) (fun t' =>
        Ok (sset st p (VOutline (match col with Some c => Some c | None => get_color st p_Color end) t')))
    | _ => Err errCompute
    end
  else if p =? p_TextShadow then
    match sget st p with
    | Some (VSpecial s) => Ok st
    | Some (VShadow ss) => bind (compute_shadows d st ss) (fun ss' => Ok (sset st p (VShadow ss')))
    | _ => Err errCompute
    end
  else if p =? p_TextEmphasis then
    match sget st p with
    | Some (VSpecial s) => Ok st
    | Some (VEmph style col pos) =>
        let col' := match col with Some c => Some c | None => get_color st p_Color end in
        (* _get_writing_mode: ISD elements are not linked to their parents yet, so the walk stops at the
           immediate parent (or at the element itself for a region); the parent's map carries the region's
           writing mode (see inherit_prop) *)
        let wm := match par with Some (_, pst) => sget pst p_WritingMode | None => sget st p_WritingMode end in
        let style' := if style =? e_TextEmphasisType_Style_auto
                      then (if is_vertical wm then e_TextEmphasisType_Style_filled_sesame else e_TextEmphasisType_Style_filled_circle)
                      else style in
        Ok (sset st p (VEmph style' col' pos))
    | _ => Err errCompute
    end
  else if p =? p_Padding then
    match sget st p, sget st p_Extent with
    | Some (VPad b e a s), Some (VExtent eh ew) =>
        let vert := is_vertical (sget st p_WritingMode) in
        let fs := get_len st p_FontSize in
        let ba_pct := if vert then ew else eh in  let ba_c := if vert then c_w d else c_h d in
        let ba_px := if vert then px_w d else px_h d in
        let se_pct := if vert then eh else ew in  let se_c := if vert then c_h d else c_w d in
        let se_px := if vert then px_h d else px_w d in
        bind (compute_length b (Some ba_pct) fs (Some ba_c) (Some ba_px)) (fun b' =>
        bind (compute_length a (Some ba_pct) fs (Some ba_c) (Some ba_px)) (fun a' =>
        bind (compute_length s (Some se_pct) fs (Some se_c) (Some se_px)) (fun s' =>
        bind (compute_length e (Some se_pct) fs (Some se_c) (Some se_px)) (fun e' =>
        Ok (sset st p (VPad b' e' a' s'))))))
    | _, _ => Err errCompute
    end
  else if p =? p_Disparity then
    match sget st p with
    | Some (VLen l) =>
        bind (compute_length l (Some (rw (qz 100))) (get_len st p_FontSize) (Some (c_w d)) (Some (px_w d))) (fun l' =>
        Ok (sset st p (VLen l')))
    | _ => Err errCompute
    end
  else Ok st.

(* ISD._compute_styles: the ordered properties that are in the to-be-computed set *)
Fixpoint compute_styles (d : doc) (par : option (kind * smap)) (todo : list Z) (order : list Z) (st : smap) : res smap :=
  match order with
  | [] => Ok st
  | p :: order' =>
      if existsb (Z.eqb p) todo then bind (compute_prop d par st p) (fun st' => compute_styles d par todo order' st')
      else compute_styles d par todo order' st
  end.

(* ---- the style phase of _process_element ---------------------------------------------------------- *)
(* animation steps, in list order; later active steps overwrite earlier ones *)
Fixpoint apply_anims (t : Q) (iv : Q * option Q) (l : list anim) (st : smap) (todo : list Z) : smap * list Z :=
  match l with
  | [] => (st, todo)
  | a :: l' =>
      if active_at t (make_absolute (a_begin a) (a_end a) (Some (fst iv)) (snd iv))
      then apply_anims t iv l' (sset st (a_prop a) (a_val a)) (a_prop a :: todo)
      else apply_anims t iv l' st todo
  end.
Fixpoint apply_specified (l : smap) (st : smap) (todo : list Z) : smap * list Z :=
  match l with
  | [] => (st, todo)
  | (p, v) :: l' => if shas st p then apply_specified l' st todo else apply_specified l' (sset st p v) (p :: todo)
  end.
(* StyleProcessor.inherit for one property of the parent *)
Definition inherit_prop (k : kind) (pk : kind) (pst : smap) (st : smap) (p : Z) : smap :=
  if p =? p_FontSize then
    if shas st p then st
    else match sget pst p with
         | Some (VLen pv) =>
             let halve := match k with KRtc => true | KRt => negb (kind_eqb pk KRtc) | _ => false end in
             sset st p (VLen (if halve then mkLen (Qdiv (lv pv) (qz 2)) (lu pv) else pv))
         | _ => st
         end
  else if p =? p_TextDecoration then
    match sget pst p with
    | Some (VTextDec pu pl po) =>
        match sget st p with
        | None => sset st p (VTextDec pu pl po)
        | Some (VTextDec u l o) =>
            sset st p (VTextDec (if u =? -1 then pu else u) (if l =? -1 then pl else l) (if o =? -1 then po else o))
        | Some _ => st
        end
    | _ => st
    end
  else if p =? p_WritingMode then
    (* StyleProcessors.WritingMode.inherit: the (region's) writing mode is carried down unconditionally, for
       _get_writing_mode; it is stripped again as not applicable *)
    match sget pst p with Some v => sset st p v | None => st end
  else if is_inherited p && negb (shas st p) then
    match sget pst p with Some v => sset st p v | None => st end
  else st.
Fixpoint apply_inherit (k pk : kind) (pst : smap) (keys : list Z) (st : smap) : smap :=
  match keys with [] => st | p :: keys' => apply_inherit k pk pst keys' (inherit_prop k pk pst st p) end.
Fixpoint apply_initial (d : doc) (props : list Z) (st : smap) (todo : list Z) : smap * list Z :=
  match props with
  | [] => (st, todo)
  | p :: props' =>
      if shas st p then apply_initial d props' st todo
      else match sget (d_initials d) p with
           | Some v => apply_initial d props' (sset st p v) (p :: todo)
           | None =>
               if p =? p_Position then apply_initial d props' st (p :: todo)
               else match sget initial_values p with
                    | Some v => apply_initial d props' (sset st p v) (p :: todo)
                    | None => apply_initial d props' st (p :: todo)
                    end
           end
  end.

Definition is_leaf_kind (k : kind) : bool := match k with KBr | KText => true | _ => false end.

Definition style_phase (d : doc) (t : Q) (a : attrs) (par : option (kind * smap)) (iv : Q * option Q) : res smap :=
  let k := e_kind a in
  let '(st, todo) := apply_anims t iv (e_anims a) [] [] in
  let '(st, todo) := apply_specified (e_styles a) st todo in
  let '(st, todo) :=
    match k with
    | KRegion =>
        if negb (shas (e_styles a) p_Direction) then
          match sget (e_styles a) p_WritingMode with
          | Some (VEnum w) =>
              if w =? e_WritingModeType_lrtb then (sset st p_Direction (VEnum e_DirectionType_ltr), p_Direction :: todo)
              else if w =? e_WritingModeType_rltb then (sset st p_Direction (VEnum e_DirectionType_rtl), p_Direction :: todo)
              else (st, todo)
          | _ => (st, todo)
          end
        else (st, todo)
    | _ => (st, todo)
    end in
  let st := match k, par with
            | KBr, _ | KText, _ | KRegion, _ => st
            | _, Some (pk, pst) => apply_inherit k pk pst (skeys pst) st
            | _, None => st
            end in
  let '(st, todo) := if is_leaf_kind k then (st, todo) else apply_initial d all_props st todo in
  compute_styles d par todo ordered_style_props st.

Definition display_none (st : smap) : bool :=
  match sget st p_Display with Some (VEnum x) => x =? e_DisplayType_none | _ => false end.

(* ---- white space ------------------------------------------------------------------------------------ *)
Record titem := mkT { ti_br : bool ; ti_pre : bool ; ti_text : text }.
Definition is_nonempty (t : text) : bool := match t with [] => false | _ => true end.
Definition skips_text_list (k : kind) : bool := match k with KRt | KRtc | KRp => true | _ => false end.

(* _construct_text_list: Br and non-empty Text in DFS order, not descending into rt, rtc, rp;
   pre = xml:space=preserve of the node's parent *)
Fixpoint collect_texts (pre : bool) (e : elem) : list titem :=
  match e with
  | Elem a cs =>
      match e_kind a with
      | KBr => [mkT true pre []]
      | KText => if is_nonempty (e_text a) then [mkT false pre (e_text a)] else []
      | k => if skips_text_list k then []
             else (fix go (l : list elem) : list titem :=
                     match l with [] => [] | c :: l' => collect_texts (e_preserve a) c ++ go l' end) cs
      end
  end.
Definition collect_children (a : attrs) (cs : list elem) : list titem :=
  flat_map (collect_texts (e_preserve a)) cs.

Definition is_ws (c : Z) : bool := (c =? 9) || (c =? 13) || (c =? 10) || (c =? 32).
(* re.sub(r"[\t\r\n ]+", " ", s) *)
Fixpoint collapse (in_ws : bool) (t : text) : text :=
  match t with
  | [] => []
  | c :: t' => if is_ws c then (if in_ws then collapse true t' else 32 :: collapse true t') else c :: collapse false t'
  end.
Definition last_is (f : Z -> bool) (t : text) : bool := match rev t with c :: _ => f c | [] => false end.
Definition prev_char_lwsp (x : titem) : bool := ti_br x || last_is is_ws (ti_text x).
Definition next_char_lwsp (x : titem) : bool :=
  ti_br x || match ti_text x with c :: _ => (c =? 13) || (c =? 10) | [] => false end.

(* first pass; prev = last kept node; result: each node with its new text and whether it stays in the list *)
Fixpoint lwsp_pass1 (prev : option titem) (l : list titem) : list (titem * bool) :=
  match l with
  | [] => []
  | x :: l' =>
      if ti_br x || ti_pre x then (x, true) :: lwsp_pass1 (Some x) l'
      else
        let t := collapse false (ti_text x) in
        let t := match t with
                 | 32 :: t' => if match prev with None => true | Some p => prev_char_lwsp p end then t' else t
                 | _ => t
                 end in
        let x' := mkT false false t in
        if is_nonempty t then (x', true) :: lwsp_pass1 (Some x') l' else (x', false) :: lwsp_pass1 prev l'
  end.
(* second pass; returns the final texts and the first kept node to the right *)
Fixpoint lwsp_pass2 (l : list (titem * bool)) : list text * option titem :=
  match l with
  | [] => ([], None)
  | (x, kept) :: l' =>
      let '(rest, next) := lwsp_pass2 l' in
      if negb kept then (ti_text x :: rest, next)
      else if ti_br x || ti_pre x then (ti_text x :: rest, Some x)
      else
        let t := ti_text x in
        let t' := if last_is (Z.eqb 32) t && match next with None => true | Some n => next_char_lwsp n end
                  then removelast t else t in
        (t' :: rest, Some x)
  end.
Definition process_lwsp (l : list titem) : list text := fst (lwsp_pass2 (lwsp_pass1 None l)).

(* write the new texts back, in the traversal order of collect_texts *)
Fixpoint assign_texts (e : elem) (ts : list text) : elem * list text :=
  match e with
  | Elem a cs =>
      match e_kind a with
      | KBr => (e, tl ts)
      | KText => if is_nonempty (e_text a)
                 then (Elem (mkAttrs (e_kind a) (e_id a) (e_begin a) (e_end a) (e_region a) (e_styles a) (e_anims a)
                                     (e_preserve a) (e_lang a) (hd [] ts)) cs, tl ts)
                 else (e, ts)
      | k => if skips_text_list k then (e, ts)
             else let '(cs', ts') :=
                    (fix go (l : list elem) (ts : list text) : list elem * list text :=
                       match l with
                       | [] => ([], ts)
                       | c :: l' => let '(c', ts1) := assign_texts c ts in
                                    let '(l'', ts2) := go l' ts1 in (c' :: l'', ts2)
                       end) cs ts in
                  (Elem a cs', ts')
      end
  end.
Fixpoint assign_children (cs : list elem) (ts : list text) : list elem :=
  match cs with
  | [] => []
  | c :: cs' => let '(c', ts') := assign_texts c ts in c' :: assign_children cs' ts'
  end.

(* _prune_empty_spans (applied to the children of the element, recursively) *)
Fixpoint prune_empty (e : elem) : elem :=
  match e with
  | Elem a cs =>
      Elem a ((fix go (l : list elem) : list elem :=
                 match l with
                 | [] => []
                 | c :: l' =>
                     let c' := prune_empty c in
                     let drop := match e_kind (eattrs c') with
                                 | KText => negb (is_nonempty (e_text (eattrs c')))
                                 | KSpan => match echildren c' with [] => true | _ => false end
                                 | _ => false
                                 end in
                     if drop then go l' else c' :: go l'
                 end) cs)
  end.

Definition lwsp_children (a : attrs) (cs : list elem) : list elem :=
  echildren (prune_empty (Elem a (assign_children cs (process_lwsp (collect_children a cs))))).

(* ---- push_children pattern checks --------------------------------------------------------------- *)
Definition kinds_of (cs : list elem) : list kind := map (fun c => e_kind (eattrs c)) cs.
Fixpoint kinds_eqb (a b : list kind) : bool :=
  match a, b with
  | [], [] => true
  | x :: a', y :: b' => kind_eqb x y && kinds_eqb a' b'
  | _, _ => false
  end.
Definition ruby_children_ok (cs : list elem) : bool :=
  let ks := kinds_of cs in
  kinds_eqb ks [KRb; KRt] || kinds_eqb ks [KRb; KRp; KRt; KRp] || kinds_eqb ks [KRbc; KRtc] || kinds_eqb ks [KRbc; KRtc; KRtc].
Definition rtc_children_ok (cs : list elem) : bool :=
  let ks := kinds_of cs in
  let ks' := if (2 <? Z.of_nat (length ks)) && kind_eqb (hd KBody ks) KRp && kind_eqb (last ks KBody) KRp
             then removelast (tl ks) else ks in
  forallb (fun k => kind_eqb k KRt) ks'.
Definition push_children_ok (k : kind) (cs : list elem) : bool :=
  match k with KRuby => ruby_children_ok cs | KRtc => rtc_children_ok cs | _ => true end.

(* ---- ISD._process_element ------------------------------------------------------------------------- *)
Definition oid_eqb (a b : option text) : bool :=
  match a, b with Some x, Some y => text_eqb x y | None, None => true | _, _ => false end.

Definition isd_attrs (a : attrs) (st : smap) : attrs :=
  let leaf := is_leaf_kind (e_kind a) in
  mkAttrs (e_kind a) (e_id a) None None None st [] (if leaf then false else e_preserve a) (if leaf then [] else e_lang a) (e_text a).

Definition strip_inapplicable (k : kind) (st : smap) : smap := filter (fun kv => applicable k (fst kv)) st.

Definition keep_always (k : kind) : bool := match k with KBr | KText | KRb | KRbc => true | _ => false end.

Definition finish_element (a : attrs) (st : smap) (children : list elem) : res (option elem) :=
  let k := e_kind a in
  if negb (push_children_ok k children) && is_nonempty_l children then Err errRubyChildren
  else
    let children := match k with
                    | KP | KRt | KRtc | KRp => match children with [] => [] | _ => lwsp_children (isd_attrs a st) children end
                    | _ => children
                    end in
    let st' := strip_inapplicable k st in
    let e' := Elem (isd_attrs a st') children in
    if keep_always k then Ok (Some e')
    else match children with
         | _ :: _ => Ok (Some e')
         | [] =>
             match k, sget st' p_ShowBackground with
             | KRegion, Some (VEnum x) => if x =? e_ShowBackgroundType_always then Ok (Some e') else Ok None
             | _, _ => Ok None
             end
         end.

(* content elements (everything but regions); sel = selected region, inh = inherited region,
   par = ISD parent (kind, styles), pb/pe = parent computed interval *)
Fixpoint proc (d : doc) (t : Q) (sel inh : option text) (par : option (kind * smap)) (pb pe : option Q) (e : elem)
  : res (option elem) :=
  match e with
  | Elem a cs =>
      let iv := make_absolute (e_begin a) (e_end a) pb pe in
      if negb (active_at t iv) then Ok None
      else
        let assoc := match e_region a with Some r => Some r | None => inh end in
        let has_children := match cs with [] => false | _ => true end in
        if negb (oid_eqb assoc sel) && (negb has_children || match assoc with Some _ => true | None => false end) then Ok None
        else
          bind (style_phase d t a par iv) (fun st =>
          if display_none st then Ok None
          else
            bind ((fix go (l : list elem) : res (list elem) :=
                     match l with
                     | [] => Ok []
                     | c :: l' =>
                         bind (proc d t sel assoc (Some (e_kind a, st)) (Some (fst iv)) (snd iv) c) (fun r =>
                         bind (go l') (fun rs => Ok (match r with Some x => x :: rs | None => rs end)))
                     end) cs) (fun children =>
            finish_element a st children))
  end.

(* a region element: same phases, its only child is the body processed with no parent interval *)
Definition proc_region (d : doc) (t : Q) (sel : option text) (r : elem) : res (option elem) :=
  let a := eattrs r in
  let iv := make_absolute (e_begin a) (e_end a) None None in
  if negb (active_at t iv) then Ok None
  else
    bind (style_phase d t a None iv) (fun st =>
    if display_none st then Ok None
    else
      bind (match d_body d with
            | None => Ok []
            | Some b => bind (proc d t sel None (Some (KRegion, st)) None None b)
                             (fun r => Ok (match r with Some x => [x] | None => [] end))
            end) (fun children =>
      finish_element a st children)).

Definition default_region : elem :=
  Elem (mkAttrs KRegion (Some default_region_id) None None None [] [] false [] []) [].

Fixpoint collect_regions (l : list (res (option elem))) : res (list elem) :=
  match l with
  | [] => Ok []
  | r :: l' => bind r (fun x => bind (collect_regions l') (fun xs => Ok (match x with Some e => e :: xs | None => xs end)))
  end.

(* ISD.from_model without the significant-times cache *)
Definition isd (d : doc) (t : Q) : res (list elem) :=
  match d_regions d with
  | [] => collect_regions [proc_region d t None default_region]
  | rs => collect_regions (map (fun r => proc_region d t (e_id (eattrs r)) r) rs)
  end.
