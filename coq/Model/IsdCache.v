(* M for C14, the caches as explicit state: ISD._process_element reads and WRITES two dictionaries keyed by element
   object — interval_cache (lives in the SignificantTimes object, survives from call to call; a fresh {} for a call
   without sig_times) and activity_cache (a fresh {} per cached document per call, shared by the regions processed in
   that call).  A dictionary keyed by the identity of the elements of one tree is a partial labelling of that tree, so
   the caches are modelled as a tree of labels of the same shape as the document (`cnode`; a missing child = no entry).
   `proc_st` is ISD._process_element with the cache protocol transcribed statement by statement (look up activity;
   look up / compute and store the interval; compute and store activity when absent; then as Model/Isd.v `proc`);
   an exception leaves the entries written so far in place, so a state is returned on Err too.
   Not modelled: the fresh default Region object that ISD.from_model creates per call when the document has no region
   (its interval_cache entry is written under a key that no later call can look up — it only accumulates).
   No proofs here. *)
From TT Require Import Model.Doc Gen.StyleTables Model.Isd Model.SigTimes.

Definition ivl := (Q * option Q)%type.
Inductive cnode := CN (civ : option ivl) (cact : option bool) (kids : list cnode).
Definition cn_empty : cnode := CN None None [].
Definition kid_hd (ks : list cnode) : cnode := match ks with k :: _ => k | [] => cn_empty end.

Definition region_test (sel assoc : option text) (has_children : bool) : bool :=
  negb (oid_eqb assoc sel) && (negb has_children || match assoc with Some _ => true | None => false end).

(* the loop over the children, with the label trees of the children threaded through; an exception stops the loop *)
Definition kids_st (f : elem -> cnode -> res (option elem) * cnode) : list elem -> list cnode -> res (list elem) * list cnode :=
  fix go (l : list elem) (ks : list cnode) {struct l} : res (list elem) * list cnode :=
    match l with
    | [] => (Ok [], ks)
    | c :: l' =>
        let '(r, k') := f c (kid_hd ks) in
        match r with
        | Err code => (Err code, k' :: tl ks)
        | Ok o =>
            let '(rs, ks') := go l' (tl ks) in
            (match rs with Ok xs => Ok (match o with Some x => x :: xs | None => xs end) | Err code => Err code end, k' :: ks')
        end
    end.

Fixpoint proc_st (d : doc) (t : Q) (sel inh : option text) (par : option (kind * smap)) (pb pe : option Q) (e : elem) (cn : cnode) {struct e}
  : res (option elem) * cnode :=
  match e, cn with
  | Elem a cs, CN civ cact kids =>
      match cact with
      | Some false => (Ok None, cn)                       (* is_active is False: return None *)
      | _ =>
          (* element_interval = interval_cache.get(element) or _make_absolute(...), stored *)
          let iv := match civ with Some x => x | None => make_absolute (e_begin a) (e_end a) pb pe end in
          let inactive := negb (active_at t iv) in
          match cact, inactive with
          | None, true => (Ok None, CN (Some iv) (Some false) kids)
          | _, _ =>
              let cact' := match cact with None => Some true | x => x end in
              let assoc := match e_region a with Some r => Some r | None => inh end in
              if region_test sel assoc (match cs with [] => false | _ => true end) then (Ok None, CN (Some iv) cact' kids)
              else
                match style_phase d t a par iv with
                | Err code => (Err code, CN (Some iv) cact' kids)
                | Ok st =>
                    if display_none st then (Ok None, CN (Some iv) cact' kids)
                    else
                      let '(rch, kids') := kids_st (proc_st d t sel assoc (Some (e_kind a, st)) (Some (fst iv)) (snd iv)) cs kids in
                      (bind rch (fun children => finish_element a st children), CN (Some iv) cact' kids')
                end
          end
      end
  end.

(* a region element: its own two cache entries, and the label tree of the body *)
Definition lab := (option ivl * option bool)%type.
Definition lab_empty : lab := (None, None).
Definition lab_hd (l : list lab) : lab := match l with x :: _ => x | [] => lab_empty end.

Definition proc_region_st (d : doc) (t : Q) (sel : option text) (r : elem) (lb : lab) (bc : cnode)
  : res (option elem) * (lab * cnode) :=
  let a := eattrs r in
  match snd lb with
  | Some false => (Ok None, (lb, bc))
  | _ =>
      let iv := match fst lb with Some x => x | None => make_absolute (e_begin a) (e_end a) None None end in
      let inactive := negb (active_at t iv) in
      match snd lb, inactive with
      | None, true => (Ok None, ((Some iv, Some false), bc))
      | _, _ =>
          let lb' : lab := (Some iv, match snd lb with None => Some true | x => x end) in
          match style_phase d t a None iv with
          | Err code => (Err code, (lb', bc))
          | Ok st =>
              if display_none st then (Ok None, (lb', bc))
              else
                match d_body d with
                | None => (finish_element a st [], (lb', bc))
                | Some b =>
                    let '(rb, bc') := proc_st d t sel None (Some (KRegion, st)) None None b bc in
                    (bind rb (fun o => finish_element a st (match o with Some x => [x] | None => [] end)), (lb', bc'))
                end
          end
      end
  end.

(* the caches that go with one (cached) document *)
Record dcache := mkDC { dc_regions : list lab ; dc_body : cnode }.
Definition dc_empty : dcache := mkDC [] cn_empty.

Fixpoint regions_st (c : doc) (t : Q) (rs : list elem) (labs : list lab) (bc : cnode) : res (list elem) * (list lab * cnode) :=
  match rs with
  | [] => (Ok [], (labs, bc))
  | r :: rs' =>
      let '(o, (lb', bc')) := proc_region_st c t (e_id (eattrs r)) r (lab_hd labs) bc in
      match o with
      | Err code => (Err code, (lb' :: tl labs, bc'))
      | Ok x =>
          let '(rest, (labs', bc'')) := regions_st c t rs' (tl labs) bc' in
          (match rest with Ok xs => Ok (match x with Some e => e :: xs | None => xs end) | Err code => Err code end, (lb' :: labs', bc''))
      end
  end.

(* one cached document at time t: the body of the loop of ISD.from_model *)
Definition isd_st (c : doc) (t : Q) (dc : dcache) : res (list elem) * dcache :=
  match d_regions c with
  | [] =>
      let '(o, (_, bc')) := proc_region_st c t None default_region lab_empty (dc_body dc) in
      (bind o (fun x => Ok (match x with Some e => [e] | None => [] end)), mkDC (dc_regions dc) bc')
  | rs => let '(o, (labs, bc)) := regions_st c t rs (dc_regions dc) (dc_body dc) in (o, mkDC labs bc)
  end.

(* ISD.from_model(doc, t) without sig_times: one entry with empty caches, dropped afterwards *)
Definition from_model_plain (d : doc) (t : Q) : res (list elem) := fst (isd_st d t dc_empty).

(* activity_cache = {} at the start of each cached document of each call *)
Fixpoint reset_act (cn : cnode) : cnode :=
  match cn with CN civ _ kids => CN civ None ((fix go (l : list cnode) : list cnode := match l with [] => [] | k :: l' => reset_act k :: go l' end) kids) end.
Definition dc_reset (dc : dcache) : dcache := mkDC (map (fun l => (fst l, None)) (dc_regions dc)) (reset_act (dc_body dc)).

(* the state of a SignificantTimes object: its cached documents with their interval caches *)
Definition sig_state := list (doc * dcache).

(* ISD.from_model(doc, t, sig_times) *)
Fixpoint from_model_st (t : Q) (s : sig_state) : res (list elem) * sig_state :=
  match s with
  | [] => (Ok [], [])
  | (c, dc) :: s' =>
      if skip_cached t (content_interval c) then let '(r, s'') := from_model_st t s' in (r, (c, dc) :: s'')
      else
        let '(r, dc') := isd_st c t (dc_reset dc) in
        match r with
        | Err code => (Err code, (c, dc') :: s')
        | Ok rs =>
            let '(r', s'') := from_model_st t s' in
            (match r' with Ok rest => Ok (rs ++ rest) | Err code => Err code end, (c, dc') :: s'')
        end
  end.

(* what compute_sig_times leaves in interval_cache: every element of the cached document, its absolute interval *)
Fixpoint built_cn (pb pe : option Q) (e : elem) : cnode :=
  match e with
  | Elem a cs =>
      let iv := make_absolute (e_begin a) (e_end a) pb pe in
      CN (Some iv) None ((fix go (l : list elem) : list cnode := match l with [] => [] | c :: l' => built_cn (Some (fst iv)) (snd iv) c :: go l' end) cs)
  end.
Definition built_dc (c : doc) : dcache :=
  mkDC (map (fun r => (Some (make_absolute (e_begin (eattrs r)) (e_end (eattrs r)) None None), None)) (d_regions c))
       (match d_body c with Some b => built_cn None None b | None => cn_empty end).
Definition built_state (ds : list doc) : sig_state := map (fun c => (c, built_dc c)) ds.

(* any list of calls on one SignificantTimes object *)
Fixpoint run_history (ts : list Q) (s : sig_state) : list (res (list elem)) * sig_state :=
  match ts with
  | [] => ([], s)
  | t :: ts' => let '(r, s') := from_model_st t s in let '(rs, s'') := run_history ts' s' in (r :: rs, s'')
  end.
