(* C18 — guard models of the line-level state machines of the readers.

   Each model transcribes, statement by statement, the control flow of one reader entry point down to (and excluding)
   the sub-parser it hands text to; which variables are bound when, and what every dereference does, is explicit.
   A sub-parser (SRT/WebVTT cue-text parser, SccLine.process, stl tf.to_model) is represented by an oracle list of
   [sub_result]s, one per invocation, so that the models can be run against the real readers (the harness records the
   result of every invocation) and so that the theorems can say "an internal outcome can only come from the oracle".
   The two cue-text parsers are transcribed one level further, as cursor machines over the callback / token sequence that
   html.parser / the WebVTT tokenizer deliver (tag names as integers: the code only compares them).

     1. srt/reader.py  to_model            — [srt_run]      + _TextParser: self.parent, self.open_tags — [srt_cursor_run]
     2. vtt/reader.py  to_model            — [vtt_run]      + _TextCueParser: self.parent, self.open_tags, ruby_rbc/rtc — [vtt_cursor_run]
     3. scc/line.py SccLine.from_str, scc/word.py SccWord.from_str, scc/reader.py loop — [scc_run]
     4. stl/datafile.py DataFile.__init__ / process_tti_block, stl/reader.py loop — [stl_run]

   State of the code transcribed: repository commit cde187e plus the laboratory commits 654d3f5 (WebVTT end tags), cb365b8
   (WebVTT percentage), 02aa1c0 (SRT <font color>), 7e042d3 (STL row count), and repository commit 4d63802 (SRT hour fields of
   two or more digits; int() of a field beyond the interpreter's digit limit is a ValueError).

   No proofs here (Proofs/C18/*.v).  Character classes come from Gen/GuardTables.v (regenerated from CPython). *)
From TT Require Import Base.Prelude Model.Outcome Gen.GuardTables.

(* ------------------------------------------------------------------------------------------------ text helpers *)
Definition in_ranges (rs : list (Z * Z)) (c : Z) : bool :=
  existsb (fun r => (fst r <=? c) && (c <=? snd r)) rs.
Definition re_space (c : Z) : bool := in_ranges re_space_ranges c.          (* \s *)
Definition re_digit (c : Z) : bool := in_ranges re_digit_ranges c.          (* \d *)
Definition str_space (c : Z) : bool := in_ranges str_isspace_ranges c.      (* str.isspace *)
Definition line_break (c : Z) : bool := in_ranges splitlines_break_ranges c.
Definition int_strip (c : Z) : bool := in_ranges int_strip_ranges c.        (* stripped by int(str, base) *)
Definition ascii_digit (c : Z) : bool := (48 <=? c) && (c <=? 57).          (* [0-9] *)
Definition mem_z (c : Z) (l : list Z) : bool := existsb (Z.eqb c) l.

(* re.compile(r"\s+").fullmatch(line) *)
Definition is_blank (l : text) : bool := is_nonempty_l l && forallb re_space l.

Fixpoint starts_with (p s : text) : bool :=
  match p, s with
  | [], _ => true
  | a :: p', b :: s' => (a =? b) && starts_with p' s'
  | _ :: _, [] => false
  end.
Fixpoint contains (p s : text) : bool :=
  starts_with p s || match s with [] => false | _ :: s' => contains p s' end.

(* file.readlines(): split after every LF, terminators kept (universal-newline translation is done by TextIOWrapper) *)
Fixpoint readlines_aux (cur s : text) : list text :=
  match s with
  | [] => match cur with [] => [] | _ => [rev cur] end
  | c :: s' => if c =? 10 then rev (c :: cur) :: readlines_aux [] s' else readlines_aux (c :: cur) s'
  end.
Definition readlines (s : text) : list text := readlines_aux [] s.

(* generic split on a separator predicate, keeping empty pieces (str.split(sep)) *)
Fixpoint split_aux (sep : Z -> bool) (cur s : text) : list text :=
  match s with
  | [] => [rev cur]
  | c :: s' => if sep c then rev cur :: split_aux sep [] s' else split_aux sep (c :: cur) s'
  end.
Definition split_on (sep : Z -> bool) (s : text) : list text := split_aux sep [] s.
(* str.split(): runs of white space separate, no empty pieces *)
Definition split_ws (s : text) : list text := filter is_nonempty_l (split_on str_space s).

Definition obind {A B} (o : option A) (f : A -> option B) : option B :=
  match o with Some x => f x | None => None end.
Notation "o >>= f" := (obind o f) (at level 50, left associativity).

Definition eat (c : Z) (s : text) : option text :=
  match s with x :: r => if x =? c then Some r else None | [] => None end.
Definition eat_d2 (s : text) : option text :=
  match s with a :: b :: r => if ascii_digit a && ascii_digit b then Some r else None | _ => None end.
Definition eat_d3 (s : text) : option text :=
  match s with a :: b :: c :: r => if ascii_digit a && ascii_digit b && ascii_digit c then Some r else None | _ => None end.
(* [0-9]{2,} : the whole run of digits (greedy; giving digits back can never help because the pattern continues with ':'),
   at least two; the number of digits taken is returned with the rest (repository commit 4d63802: both hour fields of
   _TIMECODE_RE are [0-9]{2,}, no longer [0-9]{2,3}) *)
Fixpoint span_digits (n : Z) (s : text) : Z * text :=
  match s with
  | c :: r => if ascii_digit c then span_digits (n + 1) r else (n, s)
  | [] => (n, [])
  end.
Definition eat_d2p (s : text) : option (Z * text) :=
  let (n, r) := span_digits 0 s in if 2 <=? n then Some (n, r) else None.
Fixpoint drop_while (f : Z -> bool) (s : text) : text :=
  match s with [] => [] | c :: r => if f c then drop_while f r else s end.
Definition eat_spaces1 (s : text) : option text :=
  match s with c :: r => if re_space c then Some (drop_while re_space r) else None | [] => None end.
Definition eat_arrow (s : text) : option text := eat 45 s >>= eat 45 >>= eat 62.

(* ------------------------------------------------------------------------------------------------ 1. SRT reader *)
(* _TIMECODE_RE = D{2,}:DD:DD,DDD \s+ --> \s+ D{2,}:DD:DD,DDD  (D = [0-9]).  [srt_ts] matches one time code at the start of s
   and returns the number of digits of its hour field with the rest *)
Definition srt_ts (s : text) : option (Z * text) :=
  match eat_d2p s with
  | None => None
  | Some (n, r) => match eat 58 r >>= eat_d2 >>= eat 58 >>= eat_d2 >>= eat 44 >>= eat_d3 with Some r' => Some (n, r') | None => None end
  end.
(* _TIMECODE_RE.match at one position: the digit counts of begin_h and end_h.  At one position the pattern has at most one
   match (every quantifier is followed by a character outside its class) *)
Definition srt_tc_at (s : text) : option (Z * Z) :=
  match srt_ts s with
  | None => None
  | Some (nb, r) => match eat_spaces1 r >>= eat_arrow >>= eat_spaces1 with
                    | None => None
                    | Some r' => match srt_ts r' with Some (ne, _) => Some (nb, ne) | None => None end
                    end
  end.
(* _TIMECODE_RE.search(line): the leftmost match *)
Fixpoint srt_tc_search (s : text) : option (Z * Z) :=
  match srt_tc_at s with
  | Some m => Some m
  | None => match s with [] => None | _ :: r => srt_tc_search r end
  end.
(* int(m.group('begin_h')) / int(m.group('end_h')) raise ValueError when the field has more than sys.get_int_max_str_digits()
   digits ("Exceeds the limit (4300 digits) for integer string conversion"); the other six fields have two or three digits *)
Definition srt_hours_too_long (m : Z * Z) : bool := (int_max_str_digits <? fst m) || (int_max_str_digits <? snd m).

(* what the machine looks at in a line *)
(* sv_tc: _TIMECODE_RE.search(line) is not None; sv_tc_long: ... and int() of one of its hour fields raises ValueError *)
Record srt_view := { sv_blank : bool; sv_counter : bool; sv_tc : bool; sv_tc_long : bool }.
Definition srt_classify (l : text) : srt_view :=
  let m := srt_tc_search l in
  {| sv_blank := is_blank l; sv_counter := existsb re_digit l (* _COUNTER_RE.search *);
     sv_tc := match m with Some _ => true | None => false end;
     sv_tc_long := match m with Some h => srt_hours_too_long h | None => false end |}.

Inductive srt_state := S_COUNTER | S_TC | S_TEXT | S_TEXT_MORE.

(* Python locals: current_p is None | a P that is / is not yet a child of the div; subtitle_text bound or not;
   [calls] records, newest first, whether the paragraph handed to each _TextParser was attached *)
Record srt_vars := { s_state : srt_state; s_p : option bool; s_text_bound : bool; s_oracle : list sub_result; s_calls : list bool }.

Definition srt_init (text_bound : bool) (oracle : list sub_result) : srt_vars :=
  {| s_state := S_COUNTER; s_p := None; s_text_bound := text_bound; s_oracle := oracle; s_calls := [] |}.

(* the `if line is None or _EMPTY_RE.fullmatch(line)` branch of TEXT / TEXT_MORE *)
Definition flush (next : srt_state) (v : srt_vars) : srt_vars + outcome :=
  if negb (s_text_bound v) then inr (Internal UnboundLocalErr)        (* subtitle_text read before assignment *)
  else match s_p v with
       | None => inr (Internal AttributeErr)                           (* _TextParser(None, ..): self.parent.get_doc() *)
       | Some attached =>
           let (r, o') := next_sub (s_oracle v) in
           match outcome_of_sub r with
           | Some o => inr o
           | None => inl {| s_state := next; s_p := s_p v; s_text_bound := true; s_oracle := o'; s_calls := attached :: s_calls v |}
           end
       end.

(* `if state is TEXT: div.push_child(current_p); subtitle_text = ""` then `subtitle_text += line; state = TEXT_MORE` *)
Definition text_line (st : srt_state) (v : srt_vars) : srt_vars + outcome :=
  match st with
  | S_TEXT =>
      match s_p v with
      | None => inr (Internal TypeErr)                                (* Div.push_child(None) *)
      | Some true => inr (Internal RuntimeErr)                        (* "Element already has a parent" *)
      | Some false => inl {| s_state := S_TEXT_MORE; s_p := Some true; s_text_bound := true; s_oracle := s_oracle v; s_calls := s_calls v |}
      end
  | _ =>
      if negb (s_text_bound v) then inr (Internal UnboundLocalErr)    (* subtitle_text += line *)
      else inl {| s_state := S_TEXT_MORE; s_p := s_p v; s_text_bound := s_text_bound v; s_oracle := s_oracle v; s_calls := s_calls v |}
  end.

Definition set_state (st : srt_state) (v : srt_vars) : srt_vars :=
  {| s_state := st; s_p := s_p v; s_text_bound := s_text_bound v; s_oracle := s_oracle v; s_calls := s_calls v |}.

(* one iteration of `for line_index, line in enumerate(_none_terminated(lines))`; None = the terminator.
   inr o = the function returned / raised *)
Definition srt_step (v : srt_vars) (item : option srt_view) : srt_vars + outcome :=
  match s_state v with
  | S_COUNTER =>
      match item with
      | None => inr OkDoc                                              (* break; return doc *)
      | Some l => if sv_blank l then inl v
                  else if negb (sv_counter l) then inr OkNone          (* LOGGER.fatal; return None *)
                  else inl (set_state S_TC v)
      end
  | S_TC =>
      match item with
      | None => inr OkDoc
      | Some l => if negb (sv_tc l) then inr OkNone
                  else if sv_tc_long l then inr (FormatError ValueErr)   (* current_p.set_begin(int(m.group('begin_h')) * 3600 + ...) *)
                  else inl {| s_state := S_TEXT; s_p := Some false (* current_p = model.P(doc) *); s_text_bound := s_text_bound v;
                              s_oracle := s_oracle v; s_calls := s_calls v |}
      end
  | st =>
      match item with
      | None => flush S_COUNTER v
      | Some l => if sv_blank l then flush S_COUNTER v else text_line st v
      end
  end.

Fixpoint srt_loop (v : srt_vars) (items : list srt_view) : srt_vars + outcome :=
  match items with
  | [] => match srt_step v None with
          | inr o => inr o
          | inl v' => inl v'                                           (* the generator is exhausted: falls out of the loop *)
          end
  | l :: rest => match srt_step v (Some l) with
                 | inr o => inr o
                 | inl v' => srt_loop v' rest
                 end
  end.

(* outcome and the attachment flags of the parser calls (oldest first); falling out of the loop returns doc *)
Definition srt_views (text_bound : bool) (oracle : list sub_result) (items : list srt_view) : outcome :=
  match srt_loop (srt_init text_bound oracle) items with inr o => o | inl _ => OkDoc end.
Definition srt_run (oracle : list sub_result) (content : text) : outcome :=
  srt_views true oracle (map srt_classify (readlines content)).
(* the code before commit 76afcc4 (subtitle_text not initialised): kept as a variant to show that the model can express the failure *)
Definition srt_run_unbound (oracle : list sub_result) (content : text) : outcome :=
  srt_views false oracle (map srt_classify (readlines content)).

(* number of parser invocations and their attachment flags, for the correspondence *)
Fixpoint srt_trace (v : srt_vars) (items : list srt_view) : list bool :=
  match items with
  | [] => match srt_step v None with inl v' => rev (s_calls v') | inr _ => rev (s_calls v) end
  | l :: rest => match srt_step v (Some l) with inl v' => srt_trace v' rest | inr _ => rev (s_calls v) end
  end.
Definition srt_calls (oracle : list sub_result) (content : text) : list bool :=
  srt_trace (srt_init true oracle) (map srt_classify (readlines content)).

(* ---- the cursor of _TextParser: self.parent walks the tree built so far; self.open_tags holds the names of the tags
   that opened the spans between the paragraph and self.parent (repository commit 818e997) ----------------------- *)
Inductive srt_cursor := CSpan (depth : nat) (* depth+1 spans below the paragraph *) | CP | CDiv | CBody | CNone.

(* the first color attribute that has a value: absent (ColorNoValue: there is a color attribute, but none with a value), rejected
   or accepted by utils.parse_color *)
Inductive font_color := ColorAbsent | ColorNoValue | ColorBad | ColorGood.
(* tag names are represented by integers: the harness numbers the distinct (lower-cased, as html.parser delivers them) names
   of one cue; the only operation of the code on them that matters here is `self.open_tags[-1] != tag` *)
Inductive srt_event :=
  | EvStart (tag : Z) (font : option font_color)   (* None: any tag but <font>;  Some c: <font>, c describes its color attribute *)
  | EvEnd (tag : Z)
  | EvData.

Record srt_cur := { sc_parent : srt_cursor; sc_open : list Z (* newest first *) }.

Definition up (attached : bool) (c : srt_cursor) : srt_cursor + outcome :=      (* self.parent = self.parent.parent() *)
  match c with
  | CSpan O => inl CP
  | CSpan (S d) => inl (CSpan d)
  | CP => inl (if attached then CDiv else CNone)
  | CDiv => inl CBody
  | CBody => inl CNone
  | CNone => inr (Internal AttributeErr)
  end.

(* parent.push_child(span) / push_child(br) for the element kinds _TextParser creates *)
Definition accepts_inline (c : srt_cursor) : option outcome :=
  match c with
  | CSpan _ | CP => None
  | CDiv | CBody => Some (Internal TypeErr)
  | CNone => Some (Internal AttributeErr)                                        (* self.parent.get_doc() *)
  end.

Definition srt_cursor_step (attached : bool) (c : srt_cur) (e : srt_event) : srt_cur + outcome :=
  match e with
  | EvStart tag f =>
      match accepts_inline (sc_parent c) with
      | Some o => inr o
      | None =>
          (* self.parent = span; self.open_tags.append(tag) *)
          let c' := {| sc_parent := match sc_parent c with CSpan d => CSpan (S d) | _ => CSpan O end; sc_open := tag :: sc_open c |} in
          match f with
          | Some ColorBad => inr (FormatError ValueErr)                          (* parse_color raises ValueError("Bad Syntax") *)
          | _ => inl c'       (* `attr[0] == "color" and attr[1] is not None`: a color attribute without value is skipped (lab commit 02aa1c0) *)
          end
      end
  | EvEnd tag =>
      (* if len(self.open_tags) == 0 or self.open_tags[-1] != tag: warning; return *)
      match sc_open c with
      | [] => inl c
      | top :: rest =>
          if negb (top =? tag) then inl c
          else match up attached (sc_parent c) with                              (* self.open_tags.pop(); self.parent = self.parent.parent() *)
               | inr o => inr o
               | inl p => inl {| sc_parent := p; sc_open := rest |}
               end
      end
  | EvData => match accepts_inline (sc_parent c) with Some o => inr o | None => inl c end
  end.

Fixpoint srt_cursor_loop (attached : bool) (c : srt_cur) (es : list srt_event) : outcome :=
  match es with
  | [] => OkDoc
  | e :: rest => match srt_cursor_step attached c e with inr o => o | inl c' => srt_cursor_loop attached c' rest end
  end.
Definition srt_cursor_run (attached : bool) (es : list srt_event) : outcome :=
  srt_cursor_loop attached {| sc_parent := CP; sc_open := [] |} es.

(* ------------------------------------------------------------------------------------------------ 2. WebVTT reader *)
(* _VTT_TS_RE.fullmatch:  (D{2,}:)?DD:DD.DDD *)
Definition vtt_ts_ok (s : text) : bool :=
  match rev s with
  | m3 :: m2 :: m1 :: dot :: s2 :: s1 :: c1 :: n2 :: n1 :: hh =>
      ascii_digit m3 && ascii_digit m2 && ascii_digit m1 && (dot =? 46) && ascii_digit s2 && ascii_digit s1 && (c1 =? 58)
      && ascii_digit n2 && ascii_digit n1
      && match hh with
         | [] => true
         | c0 :: hd => (c0 =? 58) && forallb ascii_digit hd && (2 <=? Z.of_nat (length hd))
         end
  | _ => false
  end.

(* value of a decimal digit character (int()/float() accept every Nd digit) *)
Definition digit_value (c : Z) : option Z :=
  match filter (fun z => (z <=? c) && (c <=? z + 9)) nd_zeros with z :: _ => Some (c - z) | [] => None end.
(* _get_or_make_region has no failure point left on any list of settings: parse_vtt_pct rejects a number that reads as float
   infinity (lab commit cb365b8; round(inf) raised OverflowError before), parse_vtt_int is limited to 20 digits, every other
   setting is compared with literals.  It is therefore not transcribed; the outcome-class correspondence (vtt_case) would show any
   exception it raised as a disagreement. *)

Definition s_note : text := [78; 79; 84; 69; 32].       (* "NOTE " *)
Definition s_style : text := [83; 84; 89; 76; 69].      (* "STYLE" *)
Definition s_arrow : text := [45; 45; 62].              (* "-->" *)

Record vtt_view := { vv_blank : bool; vv_note : bool; vv_style : bool; vv_arrow : bool; vv_cue : bool }.
Definition vtt_classify (l : text) : vtt_view :=
  let ps := split_ws l in
  let cue := match ps with
             | a :: _ :: c :: _ => vtt_ts_ok a && vtt_ts_ok c        (* len(cue_params) >= 3, both timestamps parse *)
             | _ => false
             end in
  {| vv_blank := is_blank l; vv_note := starts_with s_note l; vv_style := starts_with s_style l; vv_arrow := contains s_arrow l;
     vv_cue := cue |}.

Inductive vtt_state := V_START | V_LOOKING | V_NOTE | V_STYLE | V_TEXT | V_TEXT_MORE.
Record vtt_vars := { v_state : vtt_state; v_p : option bool; v_text_bound : bool; v_oracle : list sub_result; v_calls : list bool }.
Definition vtt_init (oracle : list sub_result) : vtt_vars :=
  {| v_state := V_START; v_p := None; v_text_bound := false (* subtitle_text is bound when a cue's paragraph is created *); v_oracle := oracle; v_calls := [] |}.
Definition vset (st : vtt_state) (v : vtt_vars) : vtt_vars :=
  {| v_state := st; v_p := v_p v; v_text_bound := v_text_bound v; v_oracle := v_oracle v; v_calls := v_calls v |}.

Definition vtt_flush (v : vtt_vars) : vtt_vars + outcome :=
  if negb (v_text_bound v) then inr (Internal UnboundLocalErr)
  else match v_p v with
       | None => inr (Internal AttributeErr)
       | Some attached =>
           let (r, o') := next_sub (v_oracle v) in
           match outcome_of_sub r with
           | Some o => inr o
           | None => inl {| v_state := V_LOOKING; v_p := v_p v; v_text_bound := true; v_oracle := o'; v_calls := attached :: v_calls v |}
           end
       end.

Definition vtt_text_line (st : vtt_state) (v : vtt_vars) : vtt_vars + outcome :=
  match st with
  | V_TEXT =>
      match v_p v with
      | None => inr (Internal TypeErr)
      | Some true => inr (Internal RuntimeErr)
      | Some false => inl {| v_state := V_TEXT_MORE; v_p := Some true; v_text_bound := true; v_oracle := v_oracle v; v_calls := v_calls v |}
      end
  | _ => if negb (v_text_bound v) then inr (Internal UnboundLocalErr) else inl (vset V_TEXT_MORE v)
  end.

Definition vtt_looking (v : vtt_vars) (l : vtt_view) : vtt_vars + outcome :=
  if vv_blank l then inl v
  else if vv_note l then inl (vset V_NOTE v)
  else if vv_style l then inl (vset V_STYLE v)
  else if negb (vv_arrow l) then inl v                                  (* cue identifier *)
  else if negb (vv_cue l) then inl v                                    (* LOGGER.warning; continue *)
  else inl {| v_state := V_TEXT; v_p := Some false (* current_p = model.P(doc) *); v_text_bound := true (* subtitle_text = "" *);
              v_oracle := v_oracle v; v_calls := v_calls v |}.

Definition vtt_step (v : vtt_vars) (item : option vtt_view) : vtt_vars + outcome :=
  match v_state v with
  | V_START =>
      match item with
      | None => inr OkDoc                                               (* if line is None: break (empty file) *)
      | Some _ => inl (vset V_LOOKING v)
      end
  | V_NOTE | V_STYLE =>
      match item with
      | None => inr OkDoc
      | Some l => if vv_blank l then inl (vset V_LOOKING v) else inl v
      end
  | V_LOOKING =>
      match item with
      | None => inr OkDoc
      | Some l => vtt_looking v l
      end
  | st =>
      match item with
      | None => vtt_flush v
      | Some l => if vv_blank l then vtt_flush v else vtt_text_line st v
      end
  end.

Fixpoint vtt_loop (v : vtt_vars) (items : list vtt_view) : vtt_vars + outcome :=
  match items with
  | [] => vtt_step v None
  | l :: rest => match vtt_step v (Some l) with inr o => inr o | inl v' => vtt_loop v' rest end
  end.
Definition vtt_views (oracle : list sub_result) (items : list vtt_view) : outcome :=
  match vtt_loop (vtt_init oracle) items with inr o => o | inl _ => OkDoc end.
Definition vtt_run (oracle : list sub_result) (content : text) : outcome :=
  vtt_views oracle (map vtt_classify (readlines content)).

Fixpoint vtt_trace (v : vtt_vars) (items : list vtt_view) : list bool :=
  match items with
  | [] => match vtt_step v None with inl v' => rev (v_calls v') | inr _ => rev (v_calls v) end
  | l :: rest => match vtt_step v (Some l) with inl v' => vtt_trace v' rest | inr _ => rev (v_calls v) end
  end.
Definition vtt_calls (oracle : list sub_result) (content : text) : list bool :=
  vtt_trace (vtt_init oracle) (map vtt_classify (readlines content)).

(* ---- the cursor of _TextCueParser ------------------------------------------------------------------------------- *)
Inductive vkind := KSpan | KRuby | KRt | KP | KDiv | KBody.
(* tag names are represented by integers (the harness numbers the distinct lower-cased names of one cue); which of the three
   kinds a start tag is (tag.startswith("ruby"), tag.startswith("rt"), anything else) is decided by the harness *)
Inductive vtt_event := TStartRuby (tag : Z) | TStartRt (tag : Z) | TStartSpan (tag : Z) | TTimestamp | TEnd (tag : Z) | TData (breaks : nat).

(* c_path = path from self.parent up to the root ([] = None); c_ruby = the path at the open Ruby element while
   self.ruby_rbc / self.ruby_rtc are not None; c_open = self.open_tags, newest first: the name of every open tag with the path
   of the element to return to when it is closed (lab commit 654d3f5).  An Rt sits on an Rtc below the Ruby; the Rtc never
   becomes the cursor, so KRt is stored directly above KRuby. *)
Record vcur := { c_path : list vkind; c_ruby : option (list vkind); c_open : list (Z * list vkind) }.

(* parent.push_child(child) for the child kinds the parser creates: span, br, ruby *)
Inductive child_kind := ChSpan | ChBr | ChRuby.
Definition push_result (parent : list vkind) (ch : child_kind) : option outcome :=
  match parent with
  | [] => Some (Internal AttributeErr)
  | KP :: _ => None                                                     (* P accepts Span, Br, Ruby *)
  | KSpan :: _ => match ch with ChRuby => Some (Internal TypeErr) | _ => None end
  | KRuby :: _ => Some (Internal RuntimeErr)                            (* Ruby.push_child always raises *)
  | KRt :: _ => match ch with ChSpan => None | _ => Some (Internal TypeErr) end
  | KDiv :: _ | KBody :: _ => Some (Internal TypeErr)
  end.

Fixpoint data_lines (path : list vkind) (rbc : bool) (i : nat) (n : nat) : option outcome :=
  (* lines i .. of _handle_string; n = lines left; rbc = self.ruby_rbc is not None *)
  match n with
  | O => None
  | S n' =>
      match (if Nat.eqb i 0 then None else push_result path ChBr) with
      | Some o => Some o
      | None =>
          match path with
          | [] => Some (Internal AttributeErr)                          (* _make_span: self.parent.get_doc() *)
          | KRuby :: _ => if rbc then data_lines path rbc (S i) n'      (* rb.push_child(span); self.ruby_rbc.push_child(rb) *)
                          else Some (Internal AttributeErr)             (* None.push_child *)
          | _ => match push_result path ChSpan with Some o => Some o | None => data_lines path rbc (S i) n' end
          end
      end
  end.

Definition is_ruby_path (p : list vkind) : bool := match p with KRuby :: _ => true | _ => false end.
Definition is_rt_path (p : list vkind) : bool := match p with KRt :: _ => true | _ => false end.

(* one iteration of the loop of _handle_endtag: `if isinstance(self.parent, model.Ruby): self.ruby_rbc = self.ruby_rtc = None`;
   `self.parent = self.open_tags.pop()[1]` *)
Definition vtt_close (c : vcur) : vcur :=
  match c_open c with
  | [] => c                                                             (* not reached: the count is at most len(open_tags) *)
  | (_, saved) :: rest => {| c_path := saved; c_ruby := if is_ruby_path (c_path c) then None else c_ruby c; c_open := rest |}
  end.

Definition vtt_cursor_step (c : vcur) (e : vtt_event) : vcur + outcome :=
  (* every start tag: self.open_tags.append((tag, self.parent)) before anything else *)
  let opened tag := (tag, c_path c) :: c_open c in
  match e with
  | TStartRuby tag =>
      match c_ruby c with
      | Some _ => inr (Internal RuntimeErr)                             (* "Nested ruby tags are not allowed." *)
      | None =>
          match c_path c with
          | [] => inr (Internal AttributeErr)
          | p => match push_result p ChRuby with
                 | Some o => inr o
                 | None => inl {| c_path := KRuby :: p; c_ruby := Some (KRuby :: p); c_open := opened tag |}
                 end
          end
      end
  | TStartRt tag =>
      (* `if tag.startswith("rt") and self.ruby_rtc is not None`; otherwise handled like any other tag (commit 15db449) *)
      match c_ruby c with
      | Some rp =>
          match c_path c with
          | [] => inr (Internal AttributeErr)                           (* model.Rt(self.parent.get_doc()) *)
          | _ => inl {| c_path := KRt :: rp; c_ruby := c_ruby c; c_open := opened tag |}
          end
      | None =>
          match push_result (c_path c) ChSpan with
          | Some o => inr o
          | None => inl {| c_path := KSpan :: c_path c; c_ruby := c_ruby c; c_open := opened tag |}
          end
      end
  | TStartSpan tag =>
      match push_result (c_path c) ChSpan with
      | Some o => inr o
      | None => inl {| c_path := KSpan :: c_path c; c_ruby := c_ruby c; c_open := opened tag |}
      end
  | TTimestamp => inl c          (* _handle_ts only records self.begin (commit 8eaaab8); self.paragraph is the cue's P, never None *)
  | TEnd tag =>
      match c_open c with
      | [] => inl c                                                     (* unmatched: warning, return *)
      | (top, saved) :: rest =>
          if top =? tag then inl (vtt_close c)
          else match rest with
               | (second, _) :: _ =>
                   (* the end tag of a ruby element also closes its open <rt> *)
                   if (second =? tag) && is_rt_path (c_path c) && is_ruby_path saved then inl (vtt_close (vtt_close c))
                   else inl c
               | [] => inl c
               end
      end
  | TData breaks =>
      match data_lines (c_path c) (match c_ruby c with Some _ => true | None => false end) 0 (S breaks) with
      | Some o => inr o
      | None => inl c
      end
  end.

Fixpoint vtt_cursor_loop (c : vcur) (es : list vtt_event) : outcome :=
  match es with
  | [] => OkDoc
  | e :: rest => match vtt_cursor_step c e with inr o => o | inl c' => vtt_cursor_loop c' rest end
  end.
Definition vtt_cursor_run (attached : bool) (es : list vtt_event) : outcome :=
  vtt_cursor_loop {| c_path := KP :: (if attached then [KDiv; KBody] else []); c_ruby := None; c_open := [] |} es.

(* <rt> without an open <ruby> is an ordinary tag: only <ruby> itself leads to the structures of finding vtt-ruby-structure *)
Definition vtt_has_ruby (es : list vtt_event) : bool :=
  existsb (fun e => match e with TStartRuby _ => true | _ => false end) es.

(* ------------------------------------------------------------------------------------------------ 3. SCC reader *)
Definition ascii_hex (c : Z) : bool :=
  ascii_digit c || ((65 <=? c) && (c <=? 70)) || ((97 <=? c) && (c <=? 102)).
Definition hex_value (c : Z) : Z :=
  if ascii_digit c then c - 48 else if (65 <=? c) && (c <=? 70) then c - 55 else c - 87.

(* int(word, 16) succeeds?  strip white space, optional sign, optional 0x/0X, digits (any Nd digit or a-f) with single
   underscores between digits (one is also allowed right after the prefix) *)
Definition int16_digit (c : Z) : bool := ascii_hex c || re_digit c.
Fixpoint int_body (digit : Z -> bool) (prev_digit : bool) (s : text) : bool :=
  match s with
  | [] => prev_digit
  | c :: r => if digit c then int_body digit true r
              else if (c =? 95) && prev_digit then match r with [] => false | _ => int_body digit false r end
              else false
  end.
Definition strip_ws (f : Z -> bool) (s : text) : text := rev (drop_while f (rev (drop_while f s))).
Definition int16_ok (w : text) : bool :=
  let s := strip_ws int_strip w in
  let s := match s with c :: r => if (c =? 43) || (c =? 45) then r else s | [] => s end in
  match s with
  | z :: x :: r => if (match digit_value z with Some 0 => true | _ => false end) && ((x =? 120) || (x =? 88))   (* any Nd zero, then x / X *)
                   then match r with u :: r' => if u =? 95 then int_body int16_digit false r' else int_body int16_digit false r | [] => false end
                   else int_body int16_digit false s
  | _ => int_body int16_digit false s
  end.

(* bytes.fromhex(word): ASCII white space is skipped between bytes; None = ValueError, Some n = n bytes *)
Fixpoint fromhex_len (s : text) : option nat :=
  match s with
  | [] => Some O
  | c :: r => if mem_z c fromhex_skip_set then fromhex_len r
              else match r with
                   | b :: r' => if ascii_hex c && ascii_hex b then option_map S (fromhex_len r') else None
                   | [] => None
                   end
  end.

(* SccWord.from_str: outcome of one word *)
Definition scc_word_from_str (w : text) : outcome :=
  if negb ((Z.of_nat (length w) =? 4) && int16_ok w) then FormatError ValueErr         (* _is_hex_word *)
  else match fromhex_len w with
       | None => FormatError ValueErr                                                  (* bytes.fromhex raises ValueError *)
       | Some n => if Nat.ltb n 2 then Internal IndexErr else OkDoc                    (* data[0], data[1] *)
       end.

(* SCC_LINE_PATTERN.match(line): ((DD:DD:DD:DD)|(DD.DD.DD.DD))\t.*  — '.' is any character but LF *)
Definition scc_line_matches (l : text) : bool :=
  match l with
  | a :: b :: x :: c :: d :: y :: e :: f :: z :: g :: h :: t :: _ =>
      ascii_digit a && ascii_digit b && ascii_digit c && ascii_digit d && ascii_digit e && ascii_digit f && ascii_digit g && ascii_digit h
      && negb (x =? 10) && negb (y =? 10) && negb (z =? 10) && (t =? 9)
  | _ => false
  end.

Inductive scc_line_result := LineNone | LineErr (o : outcome) | LineOk (words : nat).

Fixpoint scc_words (ws : list text) (n : nat) : scc_line_result :=
  match ws with
  | [] => LineOk n
  | w :: r => match scc_word_from_str w with OkDoc => scc_words r (S n) | o => LineErr o end
  end.

(* SccLine.from_str *)
Definition scc_line_from_str (l : text) : scc_line_result :=
  match l with
  | [] => LineNone
  | _ =>
      if negb (scc_line_matches l) then LineNone
      else match split_on (Z.eqb 9) l with
           | _ :: p1 :: _ => scc_words (filter is_nonempty_l (split_on (Z.eqb 32) p1)) O
           | _ => LineErr (Internal IndexErr)                                          (* line.split('\t')[1] *)
           end
  end.

(* str.splitlines(): every boundary character ends a line; CR LF counts once.  Empty lines are dropped here because
   from_str returns None for them anyway *)
Definition splitlines (s : text) : list text := filter is_nonempty_l (split_on line_break s).

Fixpoint scc_loop (oracle : list sub_result) (ls : list text) : outcome :=
  match ls with
  | [] => OkDoc                                                                         (* context.flush(); return document *)
  | l :: rest =>
      match scc_line_from_str l with
      | LineNone => scc_loop oracle rest
      | LineErr o => o
      | LineOk _ => let (r, o') := next_sub oracle in                                   (* scc_line.process(context) *)
                    match outcome_of_sub r with Some o => o | None => scc_loop o' rest end
      end
  end.
Definition scc_run (oracle : list sub_result) (content : text) : outcome := scc_loop oracle (splitlines content).

(* ------------------------------------------------------------------------------------------------ 4. EBU STL reader *)
Definition bytes_space (c : Z) : bool := mem_z c bytes_isspace_set.
(* int(b"..") in base 10: ASCII only *)
Definition bytes_int (s : list Z) : option Z :=
  let s := strip_ws bytes_space s in
  let '(neg, s) := match s with c :: r => if c =? 45 then (true, r) else if c =? 43 then (false, r) else (false, s) | [] => (false, s) end in
  if int_body ascii_digit false s
  then let v := fold_left (fun acc c => if ascii_digit c then acc * 10 + (c - 48) else acc) s 0 in Some (if neg then - v else v)
  else None.

Definition slice (off len : nat) (l : list Z) : list Z := firstn len (skipn off l).

Inductive stl_start := StartNone | StartTCP | StartTimecode (df : bool) (h m s f : Z).    (* program_start_tc; df = not in HH:MM:SS:FF form *)
Inductive stl_rows := RowsNone | RowsMNR | RowsInt (n : Z).                   (* max_row_count *)
Record stl_cfg := { cfg_start : stl_start; cfg_rows : stl_rows }.

(* _DFC_FRACTION_MAP: numerator / denominator; unknown -> 25 *)
Definition dfc_fps (dfc : list Z) : Z * Z :=
  if text_eqb dfc [83;84;76;50;51;46;48;49] then (24000, 1001)
  else if text_eqb dfc [83;84;76;50;52;46;48;49] then (24, 1)
  else if text_eqb dfc [83;84;76;50;53;46;48;49] then (25, 1)
  else if text_eqb dfc [83;84;76;51;48;46;48;49] then (30000, 1001)
  else if text_eqb dfc [83;84;76;53;48;46;48;49] then (50, 1)
  else (25, 1).

(* SmpteTimeCode(h, m, s, f, fps).to_frames() for the five STL rates: integer arithmetic throughout
   (drop-frame rates multiply by ceil(fps), an int; the others have denominator 1) *)
Definition tc_frames (fps : Z * Z) (h m s f : Z) : Z :=
  let (fn, fd) := fps in
  if fd =? 1001 then
    let ndf := ceil_div fn fd in
    let drop := round_he (60 * (ndf * fd - fn)) fd in
    let tens := h * 6 + m / 10 in
    (h * 3600 + m * 60 + s) * ndf + f - (drop * 9 * tens + drop * (m mod 10))
  else (h * 3600 + m * 60 + s) * fn + f.

(* instance state of DataFile that matters for the outcome *)
Record stl_vars := {
  t_fps : Z * Z;
  t_count : Z;                       (* tti_count *)
  t_offset : Z * Z;                  (* start_offset as numerator / denominator (seconds) *)
  t_rows : option Z;                 (* max_row_count; None = attribute never assigned (cannot happen since repository commit 41b1329);
                                        at least 1 since lab commit 7e042d3 *)
  t_teletext : bool;
  t_last_sn : option Z;
  t_have_p : bool;                   (* cur_p_element is not None *)
  t_index : Z;                       (* i of itertools.count() *)
  t_oracle : list sub_result
}.

Definition maxsize : Z := 9223372036854775807.

(* DataFile.__init__ on the 1024-byte GSI block: what it leaves in the instance *)
Record stl_hdr := { h_fps : Z * Z; h_count : Z; h_offset : Z * Z; h_rows : option Z; h_teletext : bool }.

Definition gsi_teletext (gsi : list Z) : bool := let d := nth 11 gsi 0 in (d =? 49) || (d =? 50).      (* ord(DSC) in (0x31, 0x32) *)
Definition gsi_tcp_ints (gsi : list Z) : option (Z * Z * Z * Z) :=
  let tcp := slice 256 8 gsi in
  match bytes_int (slice 0 2 tcp), bytes_int (slice 2 2 tcp), bytes_int (slice 4 2 tcp), bytes_int (slice 6 2 tcp) with
  | Some h, Some m, Some s, Some f => Some (h, m, s, f)
  | _, _, _, _ => None
  end.

Definition stl_header (cfg : stl_cfg) (gsi : list Z) : stl_hdr + outcome :=
  if negb (Z.of_nat (length gsi) =? 1024) then inr (FormatError StructErr)           (* struct.unpack *)
  else
    let fps := dfc_fps (slice 3 8 gsi) in
    let teletext := gsi_teletext gsi in
    let count := match bytes_int (slice 238 5 gsi) with Some n => n | None => maxsize end in      (* TNB *)
    let start :=
      match cfg_start cfg with
      | StartNone => inl (0, 1)
      | StartTCP =>
          match gsi_tcp_ints gsi with
          | Some (h, m, s, f) => inl (tc_frames fps h m s f * snd fps, fst fps)
          | None => inl (0, 1)                                                       (* except ValueError: logged; self.start_offset = 0 *)
          end
      | StartTimecode df h m s f =>
          (* SmpteTimeCode.parse: a time code that does not match the non-drop pattern switches a rate whose denominator is not 1001
             to rate * 1000/1001 *)
          let fps' := if df && negb (snd fps =? 1001) then (fst fps * 1000, snd fps * 1001) else fps in
          inl (tc_frames fps' h m s f * snd fps', fst fps')
      end in
    match start with
    | inr o => inr o
    | inl off =>
        let '(rows, off) :=
          match cfg_rows cfg with
          | RowsNone => (Some 23, off)
          | RowsMNR => if teletext then (Some 23, off)
                       else match bytes_int (slice 253 2 gsi) with
                            | Some n => (Some n, off)
                            | None => (Some 23, off)                                  (* except ValueError: self.max_row_count = DEFAULT_TELETEXT_ROWS *)
                            end
          | RowsInt n => if teletext then (Some 23, off) else (Some n, off)
          end in
        (* `if self.max_row_count < 1: LOGGER.error(..); self.max_row_count = DEFAULT_TELETEXT_ROWS` (lab commit 7e042d3) *)
        let rows := match rows with Some n => if n <? 1 then Some 23 else Some n | None => None end in
        inl {| h_fps := fps; h_count := count; h_offset := off; h_rows := rows; h_teletext := teletext |}
    end.

Definition stl_vars_of (h : stl_hdr) (oracle : list sub_result) : stl_vars :=
  {| t_fps := h_fps h; t_count := h_count h; t_offset := h_offset h; t_rows := h_rows h; t_teletext := h_teletext h; t_last_sn := None;
     t_have_p := false; t_index := 0; t_oracle := oracle |}.

Definition stl_init (cfg : stl_cfg) (gsi : list Z) (oracle : list sub_result) : stl_vars + outcome :=
  match stl_header cfg gsi with inr o => inr o | inl h => inl (stl_vars_of h oracle) end.

(* a / b < c / d for positive denominators *)
Definition q_lt (a : Z * Z) (c : Z * Z) : bool := fst a * snd c <? fst c * snd a.

Definition with_block_done (v : stl_vars) (last_sn : option Z) (have_p : bool) (oracle : list sub_result) : stl_vars + outcome :=
  (* back in stl/reader.py: `if m.get_tti_count() > 0: progress_callback(i / m.get_tti_count())` (commit c08d0ef) *)
  (* the division is guarded by the test: nothing can fail here any more *)
  inl {| t_fps := t_fps v; t_count := t_count v; t_offset := t_offset v; t_rows := t_rows v; t_teletext := t_teletext v;
              t_last_sn := last_sn; t_have_p := have_p; t_index := t_index v + 1; t_oracle := oracle |}.

(* the block reaches the paragraph code: it is a complete block (EBN = 0xFF; user data 0xF0..0xFE and extension blocks return
   early) that is not a translator's comment (CF = 1 returns early, commit 2e8a66f) and whose times pass `begin_time < 0` and
   `end_time < begin_time` *)
Definition block_tin (fps : Z * Z) (b : list Z) : Z * Z :=
  (tc_frames fps (nth 5 b 0) (nth 6 b 0) (nth 7 b 0) (nth 8 b 0) * snd fps, fst fps).
Definition block_tout (fps : Z * Z) (b : list Z) : Z * Z :=
  (tc_frames fps (nth 9 b 0) (nth 10 b 0) (nth 11 b 0) (nth 12 b 0) * snd fps, fst fps).
Definition block_effective (fps offset : Z * Z) (b : list Z) : bool :=
  (nth 3 b 0 =? 255) && negb (nth 15 b 0 =? 1) && negb (q_lt (block_tin fps b) offset) && negb (q_lt (block_tout fps b) (block_tin fps b)).
Definition cs_starts (cs : Z) : bool := (cs =? 0) || (cs =? 1).

(* process_tti_block on one chunk returned by read(128) *)
Definition stl_block (v : stl_vars) (b : list Z) : stl_vars + outcome :=
  if negb (Z.of_nat (length b) =? 128) then inr (FormatError StructErr)
  else if negb (block_effective (t_fps v) (t_offset v) b) then with_block_done v (t_last_sn v) (t_have_p v) (t_oracle v)
  else
    let sn := nth 1 b 0 + 256 * nth 2 b 0 in
    let cs := nth 4 b 0 in
    let vp := Z.max (nth 13 b 0) 1 in                                (* vp = max(tti.VP, 1), commit 4cdd6b5 *)
    (* `(tti.SN != self.last_sn and tti.CS in (0x00, 0x01)) or self.cur_p_element is None` (commit 8f4f9e5) *)
    let same := match t_last_sn v with Some l => l =? sn | None => false end in
    let fresh := (negb same && cs_starts cs) || negb (t_have_p v) in
    let geometry : option outcome :=
      if fresh then
        match t_rows v with
        | None => Some (Internal AttributeErr)                       (* get_max_row_count(): attribute missing *)
        | Some rows => if vp <? rows / 2 then None                   (* rows >= 2 here *)
                       else if rows =? 0 then Some (Internal ZeroDivisionErr)
                       else None
        end
      else None in
    match geometry with
    | Some o => inr o
    | None =>
        let have_p := t_have_p v || fresh in
        let last := if fresh then Some sn else t_last_sn v in
        if negb have_p then inr (Internal AttributeErr)              (* None.push_child / None.set_begin *)
        else
          let (r, o') := next_sub (t_oracle v) in                    (* tf.to_model(sub_element, ...) *)
          match outcome_of_sub r with
          | Some o => inr o
          | None => with_block_done v last have_p o'
          end
    end.

Fixpoint chunks (fuel : nat) (n : nat) (l : list Z) : list (list Z) :=
  match fuel with
  | O => []
  | S k => match l with [] => [] | _ => firstn n l :: chunks k n (skipn n l) end
  end.

Fixpoint stl_loop (v : stl_vars) (bs : list (list Z)) : outcome :=
  match bs with
  | [] => OkDoc
  | b :: rest => match stl_block v b with inr o => o | inl v' => stl_loop v' rest end
  end.

Definition stl_blocks (file : list Z) : list (list Z) := chunks (length file) 128 (skipn 1024 file).

Definition stl_run (cfg : stl_cfg) (oracle : list sub_result) (file : list Z) : outcome :=
  match stl_init cfg (firstn 1024 file) oracle with
  | inr o => o
  | inl v => stl_loop v (stl_blocks file)
  end.
