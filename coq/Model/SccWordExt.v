(* C17, source tie: the vocabulary of calls that ttconv/scc/word.py makes into OTHER modules
   (ttconv/scc/codes/*.py), as the generated model Gen/SccWordSrc.v (harness/pytrans_scc.py) uses them.
   Hand-written; they are the table look-ups of Model/SccWord.v (transcriptions of SccCode.find /
   contains_value / get_channel and of SccPreambleAddressCode) over the tables regenerated from the source
   (Gen/SccTables.v), re-packaged with Python-valued arguments.  These functions stay tied to the code by the
   exhaustive differential run of harness/c17.py only; what the translation adds is word.py itself. *)
From TT Require Import Base.Prelude Base.PyNum Base.SccTypes Gen.SccTables Model.SccWord.

(* an SccCode enum member of one of the five enums (its table row), or an SccPreambleAddressCode object *)
Inductive scc_code :=
| KControl (e : Z * (Z * Z * Z * Z))
| KAttr (e : Z * Z * (Z * bool * bool))
| KMidRow (e : Z * Z * (Z * bool * bool))
| KPac (d : dec)
| KSpecial (e : Z * Z * Z)
| KExtended (e : Z * Z * Z).

(* <Enum>.find(value): first member (definition order) one of whose values is value; PAC.find(byte_1, byte_2) *)
Definition ext_SccControlCode_find (v : num) : option scc_code := option_map KControl (find_control control_codes (floor_z v)).
Definition ext_SccAttributeCode_find (v : num) : option scc_code := option_map KAttr (find2 attribute_codes (floor_z v)).
Definition ext_SccMidRowCode_find (v : num) : option scc_code := option_map KMidRow (find2 mid_row_codes (floor_z v)).
Definition ext_SccPreambleAddressCode_find (b1 b2 : num) : option scc_code := option_map KPac (find_pac (floor_z b1) (floor_z b2)).
Definition ext_SccSpecialCharacter_find (v : num) : option scc_code := option_map KSpecial (find2 special_chars (floor_z v)).
Definition ext_SccExtendedCharacter_find (v : num) : option scc_code := option_map KExtended (find2 extended_chars (floor_z v)).

(* isinstance(code, SccPreambleAddressCode) *)
Definition ext_isinstance_SccPreambleAddressCode (c : scc_code) : bool := match c with KPac _ => true | _ => false end.
(* a caption channel: SccChannel.CHANNEL_1 / CHANNEL_2 as 1 / 2; None = no channel *)
Definition chan_opt (k : Z) : option num := if k =? 0 then None else Some (inj k).
(* SccPreambleAddressCode.get_channel() (no argument; only reached for a PAC) *)
Definition ext_code_get_channel_0 (c : scc_code) : option num := match c with KPac d => chan_opt (d_chan d) | _ => None end.
(* SccCode.get_channel(value) (only reached for enum members) *)
Definition ext_code_get_channel_1 (c : scc_code) (v : num) : option num :=
  match c with
  | KControl (_, (a, b, _, _)) => chan_opt (channel_of a b (floor_z v))
  | KAttr (a, b, _) | KMidRow (a, b, _) | KSpecial (a, b, _) | KExtended (a, b, _) => chan_opt (channel_of a b (floor_z v))
  | KPac _ => None
  end.
(* SCC_STANDARD_CHARACTERS_MAPPING.get(byte, default) *)
Definition ext_SCC_STANDARD_CHARACTERS_MAPPING_get (k : num) (default : text) : text :=
  match assoc std_chars (floor_z k) with Some c => [c] | None => default end.
