(* Evaluation helpers: S of C03 (Spec/StyleSpec.v) applied to the implementation's snapshots.  Snapshot elements
   are traced back to source elements by xml:id (the generator gives every element a unique id). *)
From TT Require Import Model.Doc Gen.StyleTables Model.Isd Model.IsdCases Spec.IsdSpec Spec.IsdShape Spec.StyleSpec.

Fixpoint find_chain (id : option text) (parent_iv : interval) (acc : list link) (e : elem) : option (list link) :=
  match e with
  | Elem a cs =>
      let iv := resolve parent_iv (e_begin a) (e_end a) in
      let acc' := (a, iv) :: acc in
      if oid_eqb (e_id a) id then Some acc'
      else (fix go (l : list elem) : option (list link) :=
              match l with [] => None | c :: l' => match find_chain id iv acc' c with Some r => Some r | None => go l' end end) cs
  end.

Definition elem_styles_ok (skip : list Z) (d : doc) (t : Q) (chain : list link) (x : elem) : bool :=
  forallb (fun p => existsb (Z.eqb p) skip ||
                    match sget (e_styles (eattrs x)) p, computed_spec d t chain p with
                    | Some v, Some w => value_close v w
                    | _, _ => false
                    end) (applicable_to (kind_of x)).

(* all styled elements below x (x included) *)
Definition region_styles_ok (skip : list Z) (d : doc) (t : Q) (src_region : elem) (x : elem) : bool :=
  let rl := (eattrs src_region, resolve root_interval (e_begin (eattrs src_region)) (e_end (eattrs src_region))) in
  elem_styles_ok skip d t [rl] x &&
  forallb (fun y => match kind_of y with
                    | KBr | KText | KRegion => true
                    | _ => match d_body d with
                           | Some b => match find_chain (e_id (eattrs y)) root_interval [rl] b with
                                       | Some chain => elem_styles_ok skip d t chain y
                                       | None => false
                                       end
                           | None => false
                           end
                    end) (all_elems x).

Definition src_regions (d : doc) : list elem := match d_regions d with [] => [default_region] | l => l end.
Definition snapshot_styles_ok (skip : list Z) (d : doc) (t : Q) (py : list elem) : bool :=
  forallb (fun x => match find (fun r => oid_eqb (e_id (eattrs r)) (e_id (eattrs x))) (src_regions d) with
                    | Some r => region_styles_ok skip d t r x
                    | None => false
                    end) py.
Definition cases_styles (skip : list Z) (d : doc) (qs : list (Q * option (list elem))) : list bool :=
  map (fun q => match snd q with Some py => snapshot_styles_ok skip d (fst q) py | None => true end) qs.

(* the hypotheses of C03_snapshot_values / C03_all_properties on a generated document: content model and typed
   tts:textDecoration values along every ancestor chain *)
Definition hyp_ok (d : doc) (t : Q) : bool :=
  styles_wf d && forallb (fun r => forallb (td_typed d t) (doc_chains d r)) (source_regions d).
Definition cases_hyp (d : doc) (qs : list (Q * option (list elem))) : list bool := map (fun q => hyp_ok d (fst q)) qs.
