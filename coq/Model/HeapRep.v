(* Representation invariant of the private state of ttconv/model.py that the specification (Spec/ModelWF.v)
   does not mention but the methods rely on: Region._users is exactly the set of elements whose _region is
   that region, and every Region has an id (Region.__init__ refuses None).  It holds of freshly constructed
   objects and every method maintains it (Proofs/C15/Step.v); remove_region and put_region are only correct
   under it.  `rep_b` is its executable form, evaluated by the harness on every dumped object graph.
   Definitions only. *)
From Coq Require Import List Arith Bool.
From TT Require Import Base.HeapTypes Model.Heap.
Import ListNotations.

Definition UsersOK (h : heap) : Prop :=
  forall r i, r < nnodes h -> (In i (n_users (nd h r)) <-> i < nnodes h /\ n_region (nd h i) = Some r).
Definition RegionIds (h : heap) : Prop :=
  forall i, i < nnodes h -> n_kind (nd h i) = KRegion -> n_id (nd h i) <> None.
Definition Rep (h : heap) : Prop := UsersOK h /\ RegionIds h.

Definition users_b (h : heap) : bool :=
  forallb (fun r =>
    forallb (fun i => (i <? nnodes h) && onat_eqb (n_region (nd h i)) (Some r)) (n_users (nd h r)) &&
    forallb (fun i => negb (onat_eqb (n_region (nd h i)) (Some r)) || existsb (Nat.eqb i) (n_users (nd h r)))
            (seq 0 (nnodes h))) (seq 0 (nnodes h)).
Definition region_ids_b (h : heap) : bool :=
  forallb (fun i => negb (kind_eqb (n_kind (nd h i)) KRegion) || is_some (n_id (nd h i))) (seq 0 (nnodes h)).
Definition rep_b (h : heap) : bool := users_b h && region_ids_b h.
