(* M for C08: transcription of the SCC reader
     ttconv/scc/line.py            SccLine.from_str / process
     ttconv/scc/context.py         SccContext (all of it)
     ttconv/scc/caption_paragraph.py  SccCaptionParagraph, _SccParagraphRegion
     ttconv/scc/caption_line.py    SccCaptionLine
     ttconv/scc/caption_text.py    SccCaptionText
     ttconv/scc/reader.py          to_model
     ttconv/scc/utils.py           cell -> percentage conversions
   over the word decoder of C17 (Model/SccWord.v) and the time-code arithmetic of C12 (Model/TimeCode.v).

   Conventions.
   * Python object identity is made explicit: a line's `_current_text` is an index into `_texts`; a
     paragraph's `_current_line` is either attached to the row dictionary (`Att row`: the very object stored
     under that key) or a detached object (`Det line`: an object that is no longer / not yet in the dictionary).
     No line or text object is ever shared between two live paragraphs (copy_lines creates new objects; the
     lines handed over by get_last_caption_lines belong to a paragraph that is dropped in the same statement).
   * dict = association list in insertion order (`dset` keeps the position of an existing key).
   * None is -1 for colours / PAC indents, false for the italic / underline flags (the only values these
     properties take are FontStyleType.italic and TextDecorationType(underline=True)).
   * A time code is a pair (label, rate), copied by value exactly where the code calls copy.copy.
   * to_paragraph is evaluated when the paragraph is pushed, as in the code; only the pure conversion
     label -> Fraction (to_temporal_offset) is postponed to `finish`, so that the pushed paragraphs still
     carry time codes (the theorems about stamps are stated on those).
   * An uncaught Python exception is the absorbing flag c_err.  The only one left is the ValueError of
     SccWord.from_str on a malformed word (process_line); since the repair of context.py (backspace, extended
     character or tab offset while no caption is being processed: the code is ignored) no word raises.
   No proofs in this file. *)
From Coq Require Import QArith.
From TT Require Import Base.Prelude Base.SccTypes Base.SccDoc Gen.SccTables Model.SccWord Model.TimeCode.
Open Scope Z_scope.

(* ------------------------------------------------------------------ Python list / str helpers *)
Definition zlen {A} (l : list A) : Z := Z.of_nat (length l).
(* l[:k] and l[k:] with Python's treatment of negative and out-of-range indices *)
Definition py_to {A} (l : list A) (k : Z) : list A :=
  if 0 <=? k then firstn (Z.to_nat k) l else firstn (Z.to_nat (zlen l + k)) l.
Definition py_from {A} (l : list A) (k : Z) : list A :=
  if 0 <=? k then skipn (Z.to_nat k) l else skipn (Z.to_nat (zlen l + k)) l.
Definition spaces (n : Z) : text := repeat 32 (Z.to_nat n).
Fixpoint upd_nth {A} (i : nat) (f : A -> A) (l : list A) : list A :=
  match l, i with
  | [], _ => []
  | x :: l', O => f x :: l'
  | x :: l', S k => x :: upd_nth k f l'
  end.
Definition is_nil {A} (l : list A) : bool := match l with [] => true | _ => false end.
(* str.isspace on one code point (Unicode White_Space plus the C0 separators 0x1C-0x1F) *)
Definition is_space (c : Z) : bool :=
  ((9 <=? c) && (c <=? 13)) || ((28 <=? c) && (c <=? 32)) || (c =? 133) || (c =? 160) || (c =? 5760) ||
  ((8192 <=? c) && (c <=? 8202)) || (c =? 8232) || (c =? 8233) || (c =? 8239) || (c =? 8287) || (c =? 12288).
(* s.isspace(): non-empty and all white space *)
Definition str_isspace (s : text) : bool := negb (is_nil s) && forallb is_space s.
Fixpoint lstrip (s : text) : text := match s with c :: s' => if is_space c then lstrip s' else s | [] => [] end.
Definition rstrip (s : text) : text := rev (lstrip (rev s)).

(* dictionaries in insertion order *)
Fixpoint dget {A} (k : Z) (d : list (Z * A)) : option A :=
  match d with [] => None | (k', v) :: d' => if k =? k' then Some v else dget k d' end.
Fixpoint dset {A} (k : Z) (v : A) (d : list (Z * A)) : list (Z * A) :=
  match d with [] => [(k, v)] | (k', v') :: d' => if k =? k' then (k, v) :: d' else (k', v') :: dset k v d' end.
Fixpoint ddel {A} (k : Z) (d : list (Z * A)) : list (Z * A) :=
  match d with [] => [] | (k', v') :: d' => if k =? k' then d' else (k', v') :: ddel k d' end.
(* sorted(d.items()) for distinct keys: insertion sort on the key *)
Fixpoint kinsert {A} (kv : Z * A) (l : list (Z * A)) : list (Z * A) :=
  match l with [] => [kv] | x :: l' => if fst kv <=? fst x then kv :: l else x :: kinsert kv l' end.
Definition ksort {A} (l : list (Z * A)) : list (Z * A) := fold_right kinsert [] l.
Fixpoint zmin_list (d : Z) (l : list Z) : Z := match l with [] => d | x :: l' => Z.min x (zmin_list x l') end.
Fixpoint zmax_list (d : Z) (l : list Z) : Z := match l with [] => d | x :: l' => Z.max x (zmax_list x l') end.
Definition min_of (l : list Z) : Z := match l with [] => 0 | x :: l' => zmin_list x l end.
Definition max_of (l : list Z) : Z := match l with [] => 0 | x :: l' => zmax_list x l end.

(* ------------------------------------------------------------------ constants of reader.py / caption_paragraph.py *)
Definition safe_rows := 15.  Definition safe_cols := 32.
Definition root_rows := 19.  (* ceil(15 / 0.80) *)
Definition root_cols := 40.  (* ceil(32 / 0.80) *)
Definition safe_x := 4.      (* int((40 - 32) / 2) *)
Definition safe_y := 2.      (* int((19 - 15) / 2) *)
Definition roll_up_base_row := 15.
(* SccCaptionStyle *)
Definition sUnknown := 0.  Definition sRollUp := 1.  Definition sPaintOn := 2.  Definition sPopOn := 3.
(* TextAlignType values used: start 0, center 1, end 2;  TextAlignment configuration: auto 0, left 1, center 2, right 3 *)
Definition aStart := 0.  Definition aCenter := 1.  Definition aEnd := 2.
(* control code identities (Gen/SccTables.v control_codes, harness/gen_tables.py CONTROL_IDS) *)
Definition kRCL := 0.  Definition kBS := 1.  Definition kDER := 4.  Definition kRU2 := 5.  Definition kRU3 := 6.
Definition kRU4 := 7.  Definition kRDC := 9.  Definition kEDM := 12.  Definition kCR := 13.  Definition kENM := 14.
Definition kEOC := 15.  Definition kTO1 := 16.  Definition kTO2 := 17.  Definition kTO3 := 18.
Definition black := 255.     (* NamedColors.black: rgba 0 0 0 255 packed *)

(* ------------------------------------------------------------------ time codes *)
Definition tcv := (label * rate)%type.
Definition tc_next (t : tcv) : tcv := (add_frames (snd t) 1 (fst t), snd t).     (* time_code.add_frames() *)
Definition tc_frames (t : tcv) : Z := to_frames (snd t) (fst t).
(* to_temporal_offset: Fraction(to_frames, frame_rate) *)
Definition tc_offset (t : tcv) : Q := Qmake (tc_frames t * rd (snd t)) (Z.to_pos (rn (snd t))).

(* ------------------------------------------------------------------ SccCaptionText *)
Definition ts0 := mkTS (-1) false false (-1).
(* add_style_property ignores None *)
Definition sty_color (s : tstyle) (c : Z) := if c =? -1 then s else mkTS c (ts_italic s) (ts_under s) (ts_bg s).
Definition sty_bg (s : tstyle) (c : Z) := if c =? -1 then s else mkTS (ts_color s) (ts_italic s) (ts_under s) c.
Definition sty_italic (s : tstyle) (b : bool) := if b then mkTS (ts_color s) true (ts_under s) (ts_bg s) else s.
Definition sty_under (s : tstyle) (b : bool) := if b then mkTS (ts_color s) (ts_italic s) true (ts_bg s) else s.

Record ctext := mkT { t_begin : option tcv ; t_text : text ; t_cur : Z ; t_sty : tstyle }.
Definition text_new : ctext := mkT None [] 0 ts0.
(* append: pad on a negative cursor, then overwrite at the cursor *)
Definition text_append (t : ctext) (s : text) : ctext :=
  let tx := if t_cur t <? 0 then spaces (- t_cur t) ++ t_text t else t_text t in
  let c := if t_cur t <? 0 then 0 else t_cur t in
  mkT (t_begin t) (py_to tx c ++ s ++ py_from tx (c + zlen s)) (c + zlen s) (t_sty t).
(* SccCaptionText(text) *)
Definition text_of (s : text) : ctext := if is_nil s then text_new else text_append text_new s.
Definition text_backspace (t : ctext) : ctext :=
  mkT (t_begin t) (removelast (t_text t)) (Z.max (t_cur t - 1) 0) (t_sty t).
Definition text_set_begin (t : ctext) (b : tcv) : ctext := mkT (Some b) (t_text t) (t_cur t) (t_sty t).
Definition text_set_cur (t : ctext) (c : Z) : ctext := mkT (t_begin t) (t_text t) c (t_sty t).
Definition text_set_sty (t : ctext) (s : tstyle) : ctext := mkT (t_begin t) (t_text t) (t_cur t) s.
Definition text_len (t : ctext) : Z := zlen (t_text t).

(* ------------------------------------------------------------------ SccCaptionLine *)
Record cline := mkL { l_row : Z ; l_indent : Z ; l_cursor : Z ; l_texts : list ctext ; l_cur : nat }.
Definition line_new (r i : Z) : cline := mkL r i 0 [text_new] 0.
Definition line_length (l : cline) : Z := fold_right (fun t a => text_len t + a) 0 (l_texts l).
Definition line_is_empty (l : cline) : bool := line_length l =? 0.
Definition line_cur_text (l : cline) : ctext := nth (l_cur l) (l_texts l) text_new.
Definition line_upd_cur_text (l : cline) (f : ctext -> ctext) : cline :=
  mkL (l_row l) (l_indent l) (l_cursor l) (upd_nth (l_cur l) f (l_texts l)) (l_cur l).
Definition line_cur_is_last (l : cline) : bool := Nat.eqb (S (l_cur l)) (length (l_texts l)).

(* the loop of set_cursor: the text holding column diff; None when the loop falls through *)
Fixpoint sel_text (ts : list ctext) (idx : nat) (diff : Z) : option (nat * Z) :=
  match ts with
  | [] => None
  | t :: ts' =>
      if (text_len t <? diff) || ((diff =? text_len t) && negb (is_nil ts'))
      then sel_text ts' (S idx) (diff - text_len t) else Some (idx, diff)
  end.
Definition line_set_cursor (l : cline) (column : Z) : cline :=
  let column := if line_length l <? column then line_length l else column in
  match sel_text (l_texts l) 0 column with
  | Some (i, d) => mkL (l_row l) (l_indent l) column (upd_nth i (fun t => text_set_cur t d) (l_texts l)) i
  | None => mkL (l_row l) (l_indent l) column (l_texts l) (l_cur l)
  end.
(* _append_text *)
Definition line_append_raw (l : cline) (s : text) : cline :=
  let l1 := line_upd_cur_text l (fun t => text_append t s) in
  let c := if l_cursor l1 <? 0 then 0 else l_cursor l1 in
  line_set_cursor (mkL (l_row l1) (l_indent l1) c (l_texts l1) (l_cur l1)) (c + zlen s).
(* add_text(str): the while loop (fuel 2*len+4 is never exhausted, see Proofs) then the remainder *)
Fixpoint line_add_loop (fuel : nat) (l : cline) (rem : text) : cline * text :=
  match fuel with
  | O => (l, rem)
  | S k =>
      if line_cur_is_last l || is_nil rem then (l, rem)
      else let available := text_len (line_cur_text l) - t_cur (line_cur_text l) in
           line_add_loop k (line_append_raw l (py_to rem available)) (py_from rem available)
  end.
Definition line_add_str (l : cline) (s : text) : cline :=
  let '(l1, rem) := line_add_loop (2 * length s + 4) l s in
  if is_nil rem then l1 else line_append_raw l1 rem.
(* add_text(SccCaptionText) *)
Definition line_add_obj (l : cline) (t : ctext) : cline :=
  let ts := l_texts l ++ [t] in
  mkL (l_row l) (l_indent l) (fold_right (fun t a => text_len t + a) 0 ts) ts (length (l_texts l)).
Definition line_indent (l : cline) (n : Z) : cline := mkL (l_row l) (l_indent l + n) (l_cursor l) (l_texts l) (l_cur l).
Definition line_set_row (l : cline) (r : Z) : cline := mkL r (l_indent l) (l_cursor l) (l_texts l) (l_cur l).
Definition line_clear (l : cline) : cline := line_set_cursor (mkL (l_row l) (l_indent l) (l_cursor l) [text_new] 0) 0.
(* SccCaptionText.truncate / SccCaptionLine.delete_to_end (Delete to End of Row): the texts after the current one are
   removed and the current one is cut at its cursor *)
Definition text_truncate (t : ctext) : ctext := mkT (t_begin t) (py_to (t_text t) (Z.max (t_cur t) 0)) (t_cur t) (t_sty t).
Definition line_delete_to_end (l : cline) : cline :=
  mkL (l_row l) (l_indent l) (l_cursor l) (upd_nth (l_cur l) text_truncate (firstn (S (l_cur l)) (l_texts l))) (l_cur l).
(* get_leading_spaces / get_trailing_spaces (with their double counting when every text is blank) *)
Fixpoint lead_loop (ts : list ctext) (first : text) (acc : Z) : Z * text :=
  match ts with
  | [] => (acc, first)
  | t :: ts' => if str_isspace (t_text t) then lead_loop ts' (t_text t) (acc + text_len t) else (acc, t_text t)
  end.
Definition line_leading_spaces (l : cline) : Z :=
  let '(acc, first) := lead_loop (l_texts l) [] 0 in acc + zlen first - zlen (lstrip first).
(* index = 1; last = texts[-1]; while last.isspace() and index < len: acc += len(last); index += 1; last = texts[-index] *)
Fixpoint trail_loop (rts : list ctext) (last : text) (acc : Z) : Z * text :=
  match rts with
  | [] => (acc, last)
  | t :: rts' => if str_isspace last then trail_loop rts' (t_text t) (acc + zlen last) else (acc, last)
  end.
Definition line_trailing_spaces (l : cline) : Z :=
  match rev (l_texts l) with
  | [] => 0
  | t :: rts => let '(acc, last) := trail_loop rts (t_text t) 0 in acc + zlen last - zlen (rstrip last)
  end.

(* ------------------------------------------------------------------ SccCaptionParagraph *)
Inductive curline := Att (row : Z) | Det (l : cline).
Record para := mkP { p_id : option Z ; p_begin : option tcv ; p_end : option tcv ; p_cursor : Z * Z ;
                     p_cur : curline ; p_lines : list (Z * cline) ; p_style : Z ; p_align : option Z }.
(* __init__: cursor (0,0), new_caption_line() *)
Definition para_new (style : Z) : para :=
  mkP None None None (0, 0) (Att 0) [(0, line_new 0 0)] style None.
Definition set_id p x := mkP x (p_begin p) (p_end p) (p_cursor p) (p_cur p) (p_lines p) (p_style p) (p_align p).
Definition set_begin p x := mkP (p_id p) x (p_end p) (p_cursor p) (p_cur p) (p_lines p) (p_style p) (p_align p).
Definition set_end p x := mkP (p_id p) (p_begin p) x (p_cursor p) (p_cur p) (p_lines p) (p_style p) (p_align p).
Definition set_cursor p x := mkP (p_id p) (p_begin p) (p_end p) x (p_cur p) (p_lines p) (p_style p) (p_align p).
Definition set_cur p x := mkP (p_id p) (p_begin p) (p_end p) (p_cursor p) x (p_lines p) (p_style p) (p_align p).
Definition set_plines p x := mkP (p_id p) (p_begin p) (p_end p) (p_cursor p) (p_cur p) x (p_style p) (p_align p).
Definition set_pstyle p x := mkP (p_id p) (p_begin p) (p_end p) (p_cursor p) (p_cur p) (p_lines p) x (p_align p).
Definition set_align p x := mkP (p_id p) (p_begin p) (p_end p) (p_cursor p) (p_cur p) (p_lines p) (p_style p) x.

Definition cur_line (p : para) : cline :=
  match p_cur p with
  | Att r => match dget r (p_lines p) with Some l => l | None => line_new r 0 end
  | Det l => l
  end.
Definition upd_cur_line (p : para) (f : cline -> cline) : para :=
  match p_cur p with
  | Att r => match dget r (p_lines p) with Some l => set_plines p (dset r (f l) (p_lines p)) | None => p end
  | Det l => set_cur p (Det (f l))
  end.
Definition cur_text (p : para) : ctext := line_cur_text (cur_line p).
Definition upd_cur_text (p : para) (f : ctext -> ctext) : para := upd_cur_line p (fun l => line_upd_cur_text l f).

(* new_caption_line: dict[cursor.row] = SccCaptionLine(cursor.row, cursor.indent); current = it *)
Definition new_caption_line (p : para) : para :=
  let '(r, i) := p_cursor p in
  set_cur (set_plines p (dset r (line_new r i) (p_lines p))) (Att r).
(* new_caption_text *)
Definition new_caption_text (p : para) : para := upd_cur_line p (fun l => line_add_obj l text_new).
(* _update_current_line_cursor *)
(* the gap between the end of the line and the new cursor position is filled with a text element of spaces *)
Definition update_line_cursor (p : para) : para :=
  let np := snd (p_cursor p) - l_indent (cur_line p) in
  let p1 := if np <? 0 then upd_cur_line p (fun l => line_indent l np) else p in
  let gap := np - line_length (cur_line p1) in
  let p2 := if 0 <? gap then upd_cur_line p1 (fun l => line_add_obj l (text_of (spaces gap))) else p1 in
  upd_cur_line p2 (fun l => line_set_cursor l np).
(* indent_cursor *)
Definition indent_cursor (p : para) (n : Z) : para :=
  let p1 := set_cursor p (fst (p_cursor p), snd (p_cursor p) + n) in
  if line_is_empty (cur_line p1) then upd_cur_line p1 (fun l => line_indent l n) else update_line_cursor p1.
(* append_text *)
Definition append_text (p : para) (s : text) : para :=
  indent_cursor (upd_cur_line p (fun l => line_add_str l s)) (zlen s).
(* set_cursor_at(row, indent) with indent = -1 for None *)
Definition set_cursor_at (p : para) (row indent : Z) : para :=
  let clr := l_row (cur_line p) in
  let p1 := match dget clr (p_lines p) with
            | Some l =>
                (* the object stored under the current line's row becomes the current line ... *)
                let p' := set_cur p (Att clr) in
                (* ... and is removed when empty (the current line is then a detached object) *)
                if line_is_empty l then set_cur (set_plines p' (ddel clr (p_lines p'))) (Det l) else p'
            | None => p
            end in
  let p2 := set_cursor p1 (row, if indent =? -1 then 0 else indent) in
  let p3 := match dget row (p_lines p2) with None => new_caption_line p2 | Some _ => p2 end in
  let p4 := set_cur p3 (Att row) in
  if indent =? -1 then p4 else update_line_cursor p4.
Definition para_length (p : para) : Z := fold_right (fun kv a => line_length (snd kv) + a) 0 (p_lines p).
Definition para_is_empty (p : para) : bool := para_length p =? 0.
(* copy_lines *)
Definition copy_line (l : cline) : cline :=
  fold_left (fun nl t => line_add_obj nl (text_set_sty (text_of (t_text t)) (t_sty t))) (l_texts l)
            (line_new (l_row l) (l_indent l)).
Definition copy_lines (p : para) : list (Z * cline) := map (fun kv => (fst kv, copy_line (snd kv))) (p_lines p).
(* the current line as a value, used when the dictionary is replaced under it *)
Definition detach (p : para) : para := set_cur p (Det (cur_line p)).
(* set_lines(dict) *)
Definition set_lines_dict (p : para) (d : list (Z * cline)) : para := set_plines (detach p) d.
(* set_lines(list): dict[line.row] = line, in order *)
Definition set_lines_list (p : para) (ls : list cline) : para :=
  fold_left (fun q l =>
               let q1 := match p_cur q with Att r => if r =? l_row l then detach q else q | Det _ => q end in
               set_plines q1 (dset (l_row l) l (p_lines q1))) ls p.
(* roll_up: rows in increasing order are popped and re-inserted one row higher; row 0 is dropped *)
Definition roll_up (p : para) : para :=
  let p0 := detach p in
  let d := fold_left (fun d kv => let d1 := ddel (fst kv) d in
                                  if fst kv =? 0 then d1 else dset (fst kv - 1) (line_set_row (snd kv) (fst kv - 1)) d1)
                     (ksort (p_lines p0)) (p_lines p0) in
  set_plines p0 d.
(* get_last_caption_lines *)
Definition last_lines (p : para) (n : Z) : list cline :=
  if n <=? 0 then [] else
  let s := map snd (ksort (p_lines p)) in py_from s (- n).
(* get_origin / get_extent in cells *)
Definition para_origin (p : para) : Z * Z :=
  if para_is_empty p then (safe_x, safe_y)
  else (min_of (map (fun kv => l_indent (snd kv)) (p_lines p)) + safe_x,
        min_of (map (fun kv => l_row (snd kv) - 1) (p_lines p)) + safe_y).
Definition para_extent (p : para) : Z * Z :=      (* width, height *)
  if para_is_empty p then (0, 0)
  else let rows := map fst (p_lines p) in
       (max_of (map (fun kv => line_length (snd kv)) (p_lines p)), max_of rows - min_of rows + 1).
(* guess_text_alignment *)
Definition right_offset (l : cline) : Z := root_cols - (l_indent l + line_length l).
Fixpoint longest_line (d : list (Z * cline)) (best : cline) : cline :=
  match d with [] => best | (_, l) :: d' => longest_line d' (if line_length best <? line_length l then l else best) end.
Definition guess_text_alignment (p : para) : Z :=
  if para_is_empty p then aStart else
  match p_lines p with
  | [] => aStart
  | (_, l0) :: d' =>
      let ll := longest_line d' l0 in
      let left := l_indent ll + line_leading_spaces ll in
      let right := right_offset ll + line_trailing_spaces ll in
      let ls := map snd (p_lines p) in
      if forallb (fun l => l_indent l + line_leading_spaces l - left =? 0) ls then aStart
      else if forallb (fun l => right_offset l + line_trailing_spaces l - right =? 0) ls then aEnd
      else if forallb (fun l => Z.abs (l_indent l + line_leading_spaces l - left -
                                       (right_offset l + line_trailing_spaces l - right)) <? 2) ls then aCenter
      else aStart
  end.

(* ------------------------------------------------------------------ regions (_SccParagraphRegion, utils) *)
(* Base/SccDoc.v region: kind = the caption style (its id prefix), origin and extent in percent (integers:
   every value is produced by round()) *)
Definition pct_x (cells : Z) : Z := round_he (cells * 100) root_cols.
Definition pct_y (cells : Z) : Z := round_he (cells * 100) root_rows.
Definition reg_right := root_cols - safe_x.            (* 36 *)
Definition reg_bottom := root_rows - safe_y + 1.        (* 18 *)
Definition has_same_origin (p : para) (r : region) : bool :=
  let '(px, py) := para_origin p in
  if (p_style p =? sRollUp) || (p_style p =? sPaintOn)
  then (r_ox r =? pct_x px) && (r_oy r <=? pct_y py)
  else (r_ox r =? pct_x px) && (r_oy r =? pct_y py).
Fixpoint find_region (p : para) (rs : list region) : option region :=
  match rs with
  | [] => None
  | r :: rs' => if has_same_origin p r && (r_kind r =? p_style p) then Some r else find_region p rs'
  end.
Definition extend_region (p : para) (r : region) : region :=
  let pw := pct_x (fst (para_extent p)) in
  if r_ew r <? pw then
    let available := reg_right * 100 / root_cols - r_ox r in     (* 90.0 - x *)
    mkR (r_kind r) (r_num r) (r_ox r) (r_oy r) (Z.min pw available) (r_eh r) (r_after r)
  else r.
Definition create_region (p : para) (n : Z) : region :=
  let '(px, py) := para_origin p in
  let roll := p_style p =? sRollUp in
  let w := Z.min (fst (para_extent p)) (reg_right - px) in
  let h := if roll then reg_bottom - (safe_y + 1) else reg_bottom - py - 1 in
  mkR (p_style p) n (pct_x px) (pct_y (if roll then safe_y else py)) (pct_x w) (pct_y h) roll.
Fixpoint replace_region (r : region) (rs : list region) : list region :=
  match rs with
  | [] => []
  | x :: rs' => if (r_kind x =? r_kind r) && (r_num x =? r_num r) then r :: rs' else x :: replace_region r rs'
  end.
(* get_region: returns the region list and the identity (kind, num) of the paragraph's region *)
Definition get_region (p : para) (rs : list region) : list region * (Z * Z) :=
  match find_region p rs with
  | Some r => (replace_region (extend_region p r) rs, (r_kind r, r_num r))
  | None => let r := create_region p (zlen rs + 1) in (rs ++ [r], (r_kind r, r_num r))
  end.

(* ------------------------------------------------------------------ to_paragraph *)
Inductive child := CBr | CSpan (b : option tcv) (st : tstyle) (tx : text).
(* a pushed paragraph; o_paint records whether span begins are made relative (caption style PaintOn);
   o_origin is a ghost field (not part of the document): the paragraph's own origin in cells at the moment it
   was pushed, from which the trigger of the finding "attached to a region above" is computed *)
Record outp := mkO { o_id : option Z ; o_begin : option tcv ; o_end : option tcv ; o_region : Z * Z ;
                     o_align : option Z ; o_paint : bool ; o_children : list child ; o_origin : Z * Z }.
Fixpoint brs (n : nat) : list child := match n with O => [] | S k => CBr :: brs k end.
Definition line_spans (l : cline) : list child :=
  flat_map (fun t => if is_nil (t_text t) then [] else
                     [CSpan (t_begin t) (if ts_bg (t_sty t) =? -1 then sty_bg (t_sty t) black else t_sty t) (t_text t)])
           (l_texts l).
Fixpoint para_children (d : list (Z * cline)) (last : option Z) : list child :=
  match d with
  | [] => []
  | (row, l) :: d' =>
      (match last with Some lr => brs (Z.to_nat (Z.abs (lr - row))) | None => [] end) ++ line_spans l ++ para_children d' (Some row)
  end.
Definition to_paragraph (p : para) (rs : list region) : list region * outp :=
  let '(rs', rid) := get_region p rs in
  (rs', mkO (p_id p) (p_begin p) (p_end p) rid (p_align p) (p_style p =? sPaintOn) (para_children (ksort (p_lines p)) None)
            (para_origin p)).

(* ------------------------------------------------------------------ SccContext *)
Record ctx := mkC {
  c_count : Z ;
  c_prev : option Z ;          (* previous_word (its value) *)
  c_prev_type : Z ;            (* previous_word_type: class of the code, cChars for str, -1 for None *)
  c_style : Z ;                (* current_style *)
  c_buf : para ;               (* buffered_caption *)
  c_act : option para ;        (* active_caption *)
  c_chan : Z ;                 (* current_channel: 1, 2, 0 = None *)
  c_depth : Z ;                (* roll_up_depth *)
  c_acur : Z * Z ;             (* active_cursor *)
  c_under : bool ;             (* current_text_decoration *)
  c_color : Z ;                (* current_color *)
  c_italic : bool ;            (* current_font_style *)
  c_talign : Z ;               (* configuration: 0 auto, 1 left, 2 center, 3 right *)
  c_out : list outp ;          (* children of the div, most recent first *)
  c_regions : list region ;    (* document regions in insertion order *)
  c_tc : tcv ;                 (* the time code of the line being processed *)
  c_err : bool }.
Definition ctx_init (talign : Z) : ctx :=
  mkC 0 None (-1) sPopOn (para_new sPopOn) None 1 0 (0, 0) false (-1) false talign [] [] ((0, 0, 0, 0), r30) false.
Definition with_count c x := mkC x (c_prev c) (c_prev_type c) (c_style c) (c_buf c) (c_act c) (c_chan c) (c_depth c) (c_acur c) (c_under c) (c_color c) (c_italic c) (c_talign c) (c_out c) (c_regions c) (c_tc c) (c_err c).
Definition with_prev c x := mkC (c_count c) x (c_prev_type c) (c_style c) (c_buf c) (c_act c) (c_chan c) (c_depth c) (c_acur c) (c_under c) (c_color c) (c_italic c) (c_talign c) (c_out c) (c_regions c) (c_tc c) (c_err c).
Definition with_prev_type c x := mkC (c_count c) (c_prev c) x (c_style c) (c_buf c) (c_act c) (c_chan c) (c_depth c) (c_acur c) (c_under c) (c_color c) (c_italic c) (c_talign c) (c_out c) (c_regions c) (c_tc c) (c_err c).
Definition with_style c x := mkC (c_count c) (c_prev c) (c_prev_type c) x (c_buf c) (c_act c) (c_chan c) (c_depth c) (c_acur c) (c_under c) (c_color c) (c_italic c) (c_talign c) (c_out c) (c_regions c) (c_tc c) (c_err c).
Definition with_buf c x := mkC (c_count c) (c_prev c) (c_prev_type c) (c_style c) x (c_act c) (c_chan c) (c_depth c) (c_acur c) (c_under c) (c_color c) (c_italic c) (c_talign c) (c_out c) (c_regions c) (c_tc c) (c_err c).
Definition with_act c x := mkC (c_count c) (c_prev c) (c_prev_type c) (c_style c) (c_buf c) x (c_chan c) (c_depth c) (c_acur c) (c_under c) (c_color c) (c_italic c) (c_talign c) (c_out c) (c_regions c) (c_tc c) (c_err c).
Definition with_chan c x := mkC (c_count c) (c_prev c) (c_prev_type c) (c_style c) (c_buf c) (c_act c) x (c_depth c) (c_acur c) (c_under c) (c_color c) (c_italic c) (c_talign c) (c_out c) (c_regions c) (c_tc c) (c_err c).
Definition with_depth c x := mkC (c_count c) (c_prev c) (c_prev_type c) (c_style c) (c_buf c) (c_act c) (c_chan c) x (c_acur c) (c_under c) (c_color c) (c_italic c) (c_talign c) (c_out c) (c_regions c) (c_tc c) (c_err c).
Definition with_acur c x := mkC (c_count c) (c_prev c) (c_prev_type c) (c_style c) (c_buf c) (c_act c) (c_chan c) (c_depth c) x (c_under c) (c_color c) (c_italic c) (c_talign c) (c_out c) (c_regions c) (c_tc c) (c_err c).
Definition with_attrs c col ita und := mkC (c_count c) (c_prev c) (c_prev_type c) (c_style c) (c_buf c) (c_act c) (c_chan c) (c_depth c) (c_acur c) und col ita (c_talign c) (c_out c) (c_regions c) (c_tc c) (c_err c).
Definition with_out c o rs := mkC (c_count c) (c_prev c) (c_prev_type c) (c_style c) (c_buf c) (c_act c) (c_chan c) (c_depth c) (c_acur c) (c_under c) (c_color c) (c_italic c) (c_talign c) o rs (c_tc c) (c_err c).
Definition with_tc c x := mkC (c_count c) (c_prev c) (c_prev_type c) (c_style c) (c_buf c) (c_act c) (c_chan c) (c_depth c) (c_acur c) (c_under c) (c_color c) (c_italic c) (c_talign c) (c_out c) (c_regions c) x (c_err c).
Definition with_err c := mkC (c_count c) (c_prev c) (c_prev_type c) (c_style c) (c_buf c) (c_act c) (c_chan c) (c_depth c) (c_acur c) (c_under c) (c_color c) (c_italic c) (c_talign c) (c_out c) (c_regions c) (c_tc c) true.

(* new_active_caption(begin, style) *)
Definition new_active_caption (c : ctx) (b : tcv) (style : Z) : ctx :=
  let n := c_count c + 1 in
  with_act (with_count c n) (Some (set_begin (set_id (para_new style) (Some n)) (Some b))).
Definition new_buffered_caption (c : ctx) : ctx := with_buf c (para_new sPopOn).
(* on the active caption, when there is one *)
Definition upd_act (c : ctx) (f : para -> para) : ctx :=
  match c_act c with Some a => with_act c (Some (f a)) | None => c end.
(* active_cursor = active_caption.get_cursor() when there is an active caption *)
Definition sync_acur (c : ctx) : ctx := match c_act c with Some a => with_acur c (p_cursor a) | None => c end.
(* get_caption_to_process(): the buffer in pop-on style, the active caption otherwise (may be None) *)
Definition cap_to_process (c : ctx) : option para := if c_style c =? sPopOn then Some (c_buf c) else c_act c.
Definition upd_cap (c : ctx) (f : para -> para) : ctx :=
  if c_style c =? sPopOn then with_buf c (f (c_buf c)) else upd_act c f.

(* push_active_caption_to_model(time_code, clear_active_caption) *)
Definition push_active (c : ctx) (e : option tcv) (clear : bool) : ctx :=
  match c_act c with
  | None => c
  | Some a =>
      let c1 := with_acur c (p_cursor a) in
      let prev := set_end a e in
      let c2 := with_act c1 (if clear then None else Some prev) in
      if para_is_empty prev then c2
      else let '(rs, o) := to_paragraph prev (c_regions c2) in with_out c2 (o :: c_out c2) rs
  end.
(* flip_buffered_to_active_captions(time_code), time_code not None *)
Definition flip (c : ctx) (t : tcv) : ctx :=
  let temp := match c_act c with Some a => Some (set_end a (Some t)) | None => None end in
  let c1 := push_active c (Some t) true in
  let c2 := match p_id (c_buf c1) with
            | Some _ => c1
            | None => let n := c_count c1 + 1 in with_buf (with_count c1 n) (set_id (c_buf c1) (Some n))
            end in
  let c3 := with_act c2 (Some (c_buf c2)) in
  match temp with Some tp => with_buf c3 tp | None => new_buffered_caption c3 end.
(* backspace(): when no caption is being processed (caption style undefined, or roll-up / paint-on style without an
   active caption) the code is ignored (since the repair; it was: AttributeError) *)
Definition backspace (c : ctx) : ctx :=
  match cap_to_process c with
  | None => c
  | Some _ =>
      upd_cap c (fun p => let p1 := upd_cur_text p text_backspace in
                          set_cursor_at p1 (fst (p_cursor p1)) (Z.max (snd (p_cursor p1) - 1) 0))
  end.
(* paint_on_active_caption *)
Definition paint_on_active_caption (c : ctx) (t : tcv) : ctx :=
  let '(style, cursor, copied, c1) :=
    match c_act c with
    | Some a => (p_style a, p_cursor a, copy_lines a, push_active c (Some t) true)
    | None => (sPaintOn, c_acur c, [], c)
    end in
  let c2 := new_active_caption c1 t style in
  let c3 := if is_nil copied then c2 else upd_act c2 (fun a => set_lines_dict a copied) in
  upd_act c3 (fun a => set_cursor_at a (fst cursor) (snd cursor)).

(* process_preamble_address_code *)
Definition process_pac (c : ctx) (d : dec) : ctx :=
  let t := c_tc c in
  let row := d_row d in let ind := d_indent d in
  let attrs c' := sync_acur (with_attrs c' (d_color d) (d_italic d) (d_under d)) in
  if c_style c =? sPaintOn then
    let c1 := paint_on_active_caption c t in
    let c2 := upd_act c1 (fun a =>
                if p_style a =? sPaintOn then
                  match dget row (p_lines a) with
                  | Some l => set_plines a (dset row (line_clear l) (p_lines a))
                  | None => a
                  end
                else a) in
    attrs (upd_act c2 (fun a => set_cursor_at a row ind))
  else if c_style c =? sRollUp then
    let c1 := match c_act c with None => new_active_caption c t sRollUp | Some _ => c end in
    let c2 := upd_act c1 (fun a => match p_begin a with None => set_begin a (Some t) | Some _ => a end) in
    if (5 <=? row) && (row <? 12) then
      upd_act c2 (fun a => new_caption_text (set_cursor_at a roll_up_base_row (-1)))
    else
      attrs (upd_act c2 (fun a => new_caption_text (set_cursor_at a roll_up_base_row ind)))
  else if c_style c =? sPopOn then
    attrs (with_buf c (set_cursor_at (c_buf c) row ind))
  else attrs c.

(* process_mid_row_code *)
Definition process_mid_row (c : ctx) (d : dec) : ctx :=
  let t := c_tc c in
  let color := d_color d in let ita := d_italic d in let und := d_under d in
  let c1 :=
    if negb (c_prev_type c =? cMidRow) then
      let c' :=
        match cap_to_process c with
        | Some p =>
            if negb (is_nil (t_text (cur_text p))) then
              if (c_style c =? sPaintOn) && (l_cursor (cur_line p) <? line_length (cur_line p))
              then upd_cap c (fun p => append_text p [32])
              else if negb und
                   then upd_cap c (fun p => append_text (new_caption_text p) [32])
                   else upd_cap c (fun p => new_caption_text (append_text p [32]))
            else upd_cap c (fun p => append_text p [32])
        | None => c
        end in
      (* the italics codes carry no colour: the current colour remains *)
      with_attrs c' (if color =? -1 then c_color c else color) ita und
    else
      (* a mid-row code directly after another one: the attributes are set as for the first one (since the repair of
         consecutive-midrow-codes-merge), the space is appended and a new text element follows *)
      let c' := with_attrs c (if color =? -1 then c_color c else color) ita und in
      upd_cap c' (fun p => new_caption_text (append_text p [32])) in
  match cap_to_process c1 with
  | Some p => if p_style p =? sPaintOn then upd_cap c1 (fun p => upd_cur_text p (fun x => text_set_begin x t)) else c1
  | None => c1
  end.

(* process_attribute_code *)
Definition process_attribute (c : ctx) (d : dec) : ctx :=
  match cap_to_process c with
  | None => c
  | Some _ =>
      upd_cap c (fun p =>
        let p1 := if negb (is_nil (t_text (cur_text p))) then new_caption_text p else p in
        upd_cur_text p1 (fun x =>
          let s1 := if d_bg d then sty_bg (t_sty x) (d_color d) else sty_color (t_sty x) (d_color d) in
          text_set_sty x (sty_under s1 (d_under d))))
  end.

Definition style_cur_text (c : ctx) (p : para) : para :=
  upd_cur_text p (fun x => text_set_sty x (sty_under (sty_italic (sty_color (t_sty x) (c_color c)) (c_italic c)) (c_under c))).
Definition starts_with_space (s : text) : bool := match s with c :: _ => c =? 32 | [] => false end.
Definition ends_with_space (s : text) : bool := starts_with_space (rev s).

(* process_text *)
Definition process_text (c : ctx) (word : text) : ctx :=
  let t := c_tc c in
  let c1 :=
    if c_style c =? sPaintOn then
      let c1 := match c_act c with None => paint_on_active_caption c t | Some _ => c end in
      let act_is_paint c' := match c_act c' with Some a => p_style a =? sPaintOn | None => false end in
      let c2 :=
        if starts_with_space word then
          if negb (act_is_paint c1)
          then upd_act (paint_on_active_caption c1 t) (fun a => append_text a word)
          else upd_act c1 (fun a => upd_cur_text (append_text (new_caption_text a) word) (fun x => text_set_begin x t))
        else if ends_with_space word then
          let c' := upd_act c1 (fun a => style_cur_text c1 (append_text a word)) in
          if negb (act_is_paint c')
          then paint_on_active_caption c' t
          else upd_act c' (fun a => upd_cur_text (new_caption_text a) (fun x => text_set_begin x t))
        else upd_act c1 (fun a => append_text a word) in
      upd_act c2 (style_cur_text c2)
    else if c_style c =? sRollUp then
      let c1 := match c_act c with None => new_active_caption c t sRollUp | Some _ => c end in
      upd_act c1 (fun a => style_cur_text c1 (append_text a word))
    else if c_style c =? sPopOn then
      with_buf c (style_cur_text c (append_text (c_buf c) word))
    else c in
  sync_acur c1.

(* process_control_code (the method always returns normally) *)
Definition process_control (c : ctx) (code : Z) : ctx :=
  let t := c_tc c in
  if code =? kRCL then with_style c sPopOn
  else if code =? kRDC then with_style c sPaintOn
  else if (code =? kRU2) || (code =? kRU3) || (code =? kRU4) then
    let c1 := with_depth (with_style c sRollUp) (if code =? kRU2 then 2 else if code =? kRU3 then 3 else 4) in
    match c_act c1 with
    | Some _ => c1
    | None =>
        let c2 := new_active_caption c1 t sRollUp in
        sync_acur (upd_act c2 (fun a =>
          new_caption_text (new_caption_line (set_cursor_at (set_pstyle a sRollUp) roll_up_base_row 0))))
    end
  else if code =? kEOC then
    let c1 := flip (with_buf c (set_begin (c_buf c) (Some t))) t in
    upd_act c1 (fun a =>
      let al := if c_talign c1 =? 0 then guess_text_alignment a
                else if c_talign c1 =? 1 then aStart else if c_talign c1 =? 2 then aCenter else aEnd in
      set_align a (Some al))
  else if code =? kEDM then
    match c_act c with Some _ => push_active c (Some (tc_next t)) true | None => c end
  else if code =? kENM then new_buffered_caption c
  else if (code =? kTO1) || (code =? kTO2) || (code =? kTO3) then
    (* Tab Offset: ignored when no caption is being processed (since the repair; it was: AttributeError) *)
    match cap_to_process c with
    | None => c
    | Some _ => upd_cap c (fun p => indent_cursor p (code - kTO1 + 1))
    end
  else if code =? kCR then
    match c_act c with
    | None => c
    | Some a =>
        if negb (p_style a =? sRollUp) then push_active c (Some t) true
        else
          let '(c1, previous_lines) :=
            (* the displayed caption holds no text at all (since the repair of rollup-blank-line-drops-rows; it was: the current text is empty) *)
            if para_is_empty a then (with_count c (c_count c - 1), [])
            else
              let c1 := upd_act (push_active c (Some t) false) roll_up in
              (c1, match c_act c1 with Some a1 => last_lines a1 (c_depth c1 - 1) | None => [] end) in
          let c2 := new_active_caption c1 t sRollUp in
          upd_act c2 (fun a => set_cursor_at (set_lines_list a previous_lines) roll_up_base_row (-1))
    end
  else if code =? kDER then
    match cap_to_process c with
    | None => c
    | Some _ => upd_cap c (fun p => upd_cur_line p line_delete_to_end)
    end
  else if code =? kBS then backspace c
  else c.

(* ------------------------------------------------------------------ SccLine.process: one word *)
Definition step (c : ctx) (w : Z) : ctx :=
  if c_err c then c else
  let v := value w in
  let dup := match c_prev c with Some pv => (pv =? v) && is_code (pv / 256) | None => false end in
  if dup then with_prev c None else
  let c := with_tc c (tc_next (c_tc c)) in
  if v =? 0 then with_prev c None else
  if byte1 w <? 32 then
    let d := decode w in
    if negb (d_chan d =? 1) then with_prev (with_chan c (d_chan d)) None else
    let c := with_chan c 1 in
    let c :=
      if d_cls d =? cPac then with_prev_type (process_pac c d) cPac
      else if d_cls d =? cAttr then with_prev_type (process_attribute c d) cAttr
      else if d_cls d =? cMidRow then with_prev_type (process_mid_row c d) cMidRow
      else if d_cls d =? cControl then with_prev_type (process_control c (d_code d)) cControl
      else if d_cls d =? cSpecial then with_prev_type (process_text c [d_t1 d]) cSpecial
      else if d_cls d =? cExtended then with_prev_type (process_text (backspace c) [d_t1 d]) cExtended
      else with_prev_type c (-1) in
    with_prev c (Some v)
  else
    if negb (c_chan c =? 1) then with_prev c None else
    with_prev (with_prev_type (process_text c (to_text w)) cChars) (Some v).

(* ------------------------------------------------------------------ SccLine.from_str *)
Definition hexval (c : Z) : option Z :=
  if (48 <=? c) && (c <=? 57) then Some (c - 48)
  else if (97 <=? c) && (c <=? 102) then Some (c - 87)
  else if (65 <=? c) && (c <=? 70) then Some (c - 55) else None.
(* SccWord.from_str: exactly four hexadecimal digits (anything else raises ValueError in _is_hex_word or
   in bytes.fromhex) *)
Definition word_of_hex (t : text) : option Z :=
  match t with
  | [a; b; c; d] =>
      match hexval a, hexval b, hexval c, hexval d with
      | Some a, Some b, Some c, Some d => Some (((a * 16 + b) * 16 + c) * 16 + d)
      | _, _, _, _ => None
      end
  | _ => None
  end.
(* str.split(sep) *)
Fixpoint split_on (sep : Z) (t : text) : list text :=
  match t with
  | [] => [[]]
  | c :: t' => let r := split_on sep t' in
               if c =? sep then [] :: r else match r with f :: fs => (c :: f) :: fs | [] => [[c]] end
  end.
Fixpoint words_of (fs : list text) : option (list Z) :=
  match fs with
  | [] => Some []
  | f :: fs' => if is_nil f then words_of fs'
                else match word_of_hex f, words_of fs' with Some w, Some ws => Some (w :: ws) | _, _ => None end
  end.
Inductive parsed := LNone | LErr | LOk (t : tcv) (ws : list Z).
Definition from_str (line : text) : parsed :=
  if is_nil line then LNone else
  match parse_tc line r30 with
  | None => LNone
  | Some (lab, r) =>
      (* the pattern requires a tab after the eleven characters of the time code *)
      if negb (nth 11 line 0 =? 9) then LNone else
      match words_of (split_on 32 (nth 1 (split_on 9 line) [])) with
      | Some ws => LOk (lab, r) ws
      | None => LErr
      end
  end.

(* SccLine.get_style: the caption style announced by the first style-selecting control code of the line (SccControlCode.find
   knows the codes of both channels and both fields) *)
Fixpoint line_style (ws : list Z) : Z :=
  match ws with
  | [] => sUnknown
  | w :: ws' =>
      match find_control control_codes (value w) with
      | Some (id, _) => if (id =? kRU2) || (id =? kRU3) || (id =? kRU4) then sRollUp
                        else if id =? kRDC then sPaintOn else if id =? kRCL then sPopOn else line_style ws'
      | None => line_style ws'
      end
  end.
(* scc/config.py TextAlignment.from_value on a str: the label is compared after str.lower().  Only the ASCII letters are
   lowered here: no other code point is lowered by Python to one of the letters of "left", "center", "right", "auto", so a
   string with such a code point matches no label on either side.  Result: the configuration index used by ctx_init
   (auto 0, left 1, center 2, right 3); None where Python raises ValueError. *)
Definition lower_ascii (c : Z) : Z := if (65 <=? c) && (c <=? 90) then c + 32 else c.
Definition text_align_of (s : text) : option Z :=
  let l := map lower_ascii s in
  if text_eqb l [108; 101; 102; 116] then Some 1
  else if text_eqb l [99; 101; 110; 116; 101; 114] then Some 2
  else if text_eqb l [114; 105; 103; 104; 116] then Some 3
  else if text_eqb l [97; 117; 116; 111] then Some 0 else None.

(* ------------------------------------------------------------------ reader.to_model *)
Definition process_line (c : ctx) (line : text) : ctx :=
  if c_err c then c else
  match from_str line with
  | LNone => c
  | LErr => with_err c
  | LOk t ws => fold_left step ws (with_tc c t)
  end.
(* flush(): push the active caption with end None, reset the buffer *)
Definition flush (c : ctx) : ctx := new_buffered_caption (push_active c None true).

(* the document, with times as Fractions *)
Definition omap {A B} (f : A -> B) (o : option A) : option B := match o with Some x => Some (f x) | None => None end.
(* max(x, 0) on Fractions *)
Definition qmax0 (x : Q) : Q := if Qle_bool 0 x then x else 0%Q.
(* a paint-on span begin is made relative to the paragraph: begin = max(begin - p_begin, 0) (since the repair: text painted
   before its paragraph begins - a paint-on caption that went through the buffer and was flipped back by a later EOC - is
   shown from the beginning of the paragraph; it was: begin - p_begin, negative) *)
Definition finish_child (paint : bool) (pb : option tcv) (ch : child) : childq :=
  match ch with
  | CBr => QBr
  | CSpan b st tx =>
      QSpan (match b with
             | Some bt => Some (if paint then match pb with Some pbt => qmax0 (Qminus (tc_offset bt) (tc_offset pbt)) | None => tc_offset bt end
                                else tc_offset bt)
             | None => None
             end) st tx
  end.
Definition finish_p (o : outp) : pq :=
  mkPQ (o_id o) (omap tc_offset (o_begin o)) (omap tc_offset (o_end o)) (o_region o) (o_align o)
       (map (finish_child (o_paint o) (o_begin o)) (o_children o)).
Definition finish (c : ctx) : doc := if c_err c then DocErr else Doc (c_regions c) (map finish_p (rev (c_out c))).

Definition run_lines (talign : Z) (lines : list text) : ctx := flush (fold_left process_line lines (ctx_init talign)).
Definition to_model (talign : Z) (lines : list text) : doc := finish (run_lines talign lines).
