(* Executable trigger predicates of the recorded C04 findings (findings_proposed/C04.txt).  A trigger
   characterises, narrowly, the inputs on which the defect can show; the `_partial` theorems of
   Properties/C04.v quantify over the inputs on which it is false, and the check excuses a disagreement
   between the code and the specification only on inputs on which it is true. *)
From TT Require Import Base.Prelude Base.ImscXml Spec.TtmlTimingSpec.
From Coq Require Import QArith.
Local Open Scope Z_scope.

Section Seq.
  Variable tv : text -> option Q.

  Definition known (c : xml) : bool := match s_kind (x_tag c) (x_attrs c) with Some _ => true | None => false end.

  (* some timed child with an indefinite end is followed by another timed child *)
  Fixpoint indefinite_then_more (l : list xml) (cursor : Q) : bool :=
    match l with
    | [] => false
    | c :: l' =>
        if known c then
          match snd (interval tv true cursor c) with
          | Some ce => indefinite_then_more l' ce
          | None => existsb known l'
          end
        else indefinite_then_more l' cursor
    end.

  (* seq-indefinite-sibling: a sequential container in which a child would have to begin at an unresolved time:
     a child that follows a sibling of indefinite duration, or any child of a seq br / set / region that itself
     sits in a parallel container (its own implicit end is indefinite from the start) *)
  Fixpoint trigger_seq (pseq : bool) (x : xml) {struct x} : bool :=
    match x with
    | X tag attrs txt tail cs =>
        match s_kind tag attrs with
        | None => false
        | Some k =>
            let seq := s_is_seq attrs in
            (seq && ((s_atomic k && negb pseq && existsb known cs) || indefinite_then_more cs 0%Q))
            || (fix any (l : list xml) : bool :=
                  match l with [] => false | c :: l' => trigger_seq seq c || any l' end) cs
        end
    end.
End Seq.

(* the whole document: the regions of the layout and the body *)
Definition trigger_seq_doc (tv : text -> option Q) (tt : xml) : bool :=
  existsb (trigger_seq tv false) (doc_regions tt) ||
  match first_child (x_children tt) T_body with Some b => trigger_seq tv false b | None => false end.

(* tickrate-default: ttp:tickRate is not given, ttp:frameRate is, the effective frame rate is not 1, and a
   tick-metric time expression occurs *)
Definition uses_ticks (tab : list (text * texpr)) : bool :=
  existsb (fun p => match snd p with TOffset _ _ Mt => true | _ => false end) tab.
Definition trigger_tick (tt : xml) (tab : list (text * texpr)) : bool :=
  let attrs := x_attrs tt in
  match (match get_attr attrs A_tickRate with Some s => pos_int s | None => None end), spec_frame_rate_attr attrs with
  | None, Some _ => negb (Qeq_bool (spec_frame_rate attrs) 1%Q) && uses_ticks tab
  | _, _ => false
  end.
