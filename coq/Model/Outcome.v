(* C18 — outcome classes of a reader / pipeline run.

   Python side                                    here
   -------------------------------------------    -------------------------
   returns a ContentDocument                      OkDoc
   returns None after LOGGER.fatal                OkNone
   raises xml ParseError / ValueError /           FormatError k   (the documented input-format errors)
     struct.error / UnicodeDecodeError
   raises anything else                           Internal k

   Transcription rule of Model/ReaderGuards.v: every dereference, index, lookup, division or read of a local that
   Python would evaluate at that point is an explicit [Internal k] branch unless a guard of the code excludes it. *)
From TT Require Import Base.Prelude.

Inductive format_kind := XmlParseErr | ValueErr | StructErr | UnicodeDecodeErr.

Inductive internal_kind :=
  | AttributeErr | TypeErr | IndexErr | KeyErr | UnboundLocalErr | AssertionErr | RecursionErr
  | ZeroDivisionErr | OverflowErr | RuntimeErr.

Inductive outcome :=
  | OkDoc
  | OkNone
  | FormatError (k : format_kind)
  | Internal (k : internal_kind).

Definition is_internal (o : outcome) : bool :=
  match o with Internal _ => true | _ => false end.

(* result of a sub-parser that the guard models do not transcribe (cue-text parser, SccLine.process, tf.to_model):
   supplied by the caller as an oracle, consumed one per invocation *)
Inductive sub_result := SubOk | SubFormat (k : format_kind) | SubInternal (k : internal_kind).

Definition sub_is_internal (r : sub_result) : bool :=
  match r with SubInternal _ => true | _ => false end.

(* the next oracle answer; an exhausted oracle answers SubOk *)
Definition next_sub (o : list sub_result) : sub_result * list sub_result :=
  match o with [] => (SubOk, []) | r :: o' => (r, o') end.

(* integer codes used by the correspondence case files (harness/guards18.py prints the same codes) *)
Definition format_code (k : format_kind) : Z :=
  match k with XmlParseErr => 10 | ValueErr => 11 | StructErr => 12 | UnicodeDecodeErr => 13 end.
Definition internal_code (k : internal_kind) : Z :=
  match k with
  | AttributeErr => 20 | TypeErr => 21 | IndexErr => 22 | KeyErr => 23 | UnboundLocalErr => 24 | AssertionErr => 25
  | RecursionErr => 26 | ZeroDivisionErr => 27 | OverflowErr => 28 | RuntimeErr => 29
  end.
Definition outcome_code (o : outcome) : Z :=
  match o with OkDoc => 0 | OkNone => 1 | FormatError k => format_code k | Internal k => internal_code k end.

Definition sub_of_code (c : Z) : sub_result :=
  if c =? 0 then SubOk
  else if c =? 10 then SubFormat XmlParseErr else if c =? 11 then SubFormat ValueErr
  else if c =? 12 then SubFormat StructErr else if c =? 13 then SubFormat UnicodeDecodeErr
  else if c =? 20 then SubInternal AttributeErr else if c =? 21 then SubInternal TypeErr
  else if c =? 22 then SubInternal IndexErr else if c =? 23 then SubInternal KeyErr
  else if c =? 24 then SubInternal UnboundLocalErr else if c =? 25 then SubInternal AssertionErr
  else if c =? 26 then SubInternal RecursionErr else if c =? 27 then SubInternal ZeroDivisionErr
  else if c =? 28 then SubInternal OverflowErr else SubInternal RuntimeErr.

Definition outcome_of_sub (r : sub_result) : option outcome :=
  match r with SubOk => None | SubFormat k => Some (FormatError k) | SubInternal k => Some (Internal k) end.
