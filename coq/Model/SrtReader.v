(* M for C10: transcription of ttconv/srt/reader.py (`to_model`, `_TextParser`) and of
   ttconv/utils.py `parse_color`, as total functions over code points.

   Anchors and how they are rendered:
   - `data_file.readlines()`            -> `readlines` (split after every U+000A, terminator kept);
                                           `universal` is the newline translation of a text-mode file
                                           (`open(path, "r")` as tt.py does; io.StringIO does none)
   - `_EMPTY_RE.fullmatch`, `_COUNTER_RE.search`, `_TIMECODE_RE.search` -> `is_blank`, `has_digit`,
                                           `search_tc` (recognisers; `\s`, `\d` from Gen/SrtTables.v; hour fields of two
                                           or more digits)
   - `int(m.group(...))`                -> `int_of_digits`, and `int_converts`: ValueError beyond
                                           sys.get_int_max_str_digits() digits (Gen/SrtTables.v)
   - the COUNTER/TC/TEXT/TEXT_MORE loop -> `step` / `run` (the `None` sentinel is `at_eof`)
   - `.strip('\r\n').replace(...)` x13  -> `strip_crlf`, `replace`, `rewrite_text`
   - `line.rstrip("\r\n") + "\n"`        -> `rstrip_crlf line ++ [10]` in `step`
   - `_TextParser.handle_starttag/endtag/data` -> `handle_start`, `handle_end`, `handle_data` on a zipper
                                           (`cursor`: the open spans innermost first, each with the tag name that
                                           `open_tags` holds for it; an end tag that does not name the innermost
                                           open span is ignored, so the cursor never leaves the paragraph)
   - `HTMLParser.feed/close` (html.parser, convert_charrefs=True) -> `tokenize`: a hand-written
     tokenizer for start tags with attributes, end tags, self-closing tags, character references
     (full `html.unescape` over the generated tables) and data.  Constructs it does not transcribe
     (`<!`, `<?`, unterminated tags or quotes, `<script>`/`<style>`, oddities of the attribute
     regexes) give `TBad`, and the reader's outcome is `Unmodelled`.
     Its agreement with html.parser is established by the correspondence run only (trusted base).
   No proofs in this file. *)
From TT Require Import Base.Prelude Base.SrtTypes Gen.SrtTables.
From Coq Require Import QArith.
Local Open Scope Z_scope.

(* ------------------------------------------------------------------ characters *)
Definition is_space (c : Z) : bool := existsb (Z.eqb c) py_space.               (* re \s *)
Definition is_udigit (c : Z) : bool :=                                           (* re \d *)
  existsb (fun r => (fst r <=? c) && (c <=? snd r)) py_digit_ranges.
Definition is_digit (c : Z) : bool := (48 <=? c) && (c <=? 57).                  (* [0-9] *)
Definition is_alpha (c : Z) : bool := ((65 <=? c) && (c <=? 90)) || ((97 <=? c) && (c <=? 122)).
Definition is_hex (c : Z) : bool :=
  is_digit c || ((65 <=? c) && (c <=? 70)) || ((97 <=? c) && (c <=? 102)).
Definition hex_val (c : Z) : Z :=
  if is_digit c then c - 48 else if c <=? 70 then c - 55 else c - 87.
Definition lower_ascii (c : Z) : Z := if (65 <=? c) && (c <=? 90) then c + 32 else c.
Definition lower (t : text) : text := map lower_ascii t.

Definition int_of_digits (ds : text) : Z := fold_left (fun a c => a * 10 + (c - 48)) ds 0.
Definition int_of_hex (ds : text) : Z := fold_left (fun a c => a * 16 + hex_val c) ds 0.

Fixpoint prefixb (p s : text) : bool :=
  match p, s with
  | [], _ => true
  | x :: p', y :: s' => (x =? y) && prefixb p' s'
  | _ :: _, [] => false
  end.

(* ------------------------------------------------------------------ lines *)
Fixpoint readlines (s : text) : list text :=
  match s with
  | [] => []
  | c :: s' =>
      if c =? 10 then [c] :: readlines s'
      else match readlines s' with
           | [] => [[c]]
           | l :: ls => (c :: l) :: ls
           end
  end.

(* universal-newlines translation of a text-mode file object: CR LF -> LF, lone CR -> LF *)
Fixpoint universal (s : text) : text :=
  match s with
  | [] => []
  | c :: s' =>
      if c =? 13 then
        match s' with
        | d :: s'' => if d =? 10 then 10 :: universal s'' else 10 :: universal s'
        | [] => [10]
        end
      else c :: universal s'
  end.

Definition is_blank (l : text) : bool :=                      (* _EMPTY_RE.fullmatch(line) *)
  match l with [] => false | _ => forallb is_space l end.
Definition has_digit (l : text) : bool := existsb is_udigit l. (* _COUNTER_RE.search(line) is not None *)

(* ------------------------------------------------------------------ _TIMECODE_RE *)
Definition bind {A B} (o : option A) (f : A -> option B) : option B :=
  match o with Some a => f a | None => None end.

Fixpoint take_digits (n : nat) (s : text) : option (text * text) :=
  match n with
  | O => Some ([], s)
  | S k => match s with
           | c :: s' => if is_digit c then
                          match take_digits k s' with Some (d, r) => Some (c :: d, r) | None => None end
                        else None
           | [] => None
           end
  end.
(* [0-9]{2,} is greedy: it takes every digit that follows; a shorter choice would need ':' where a digit
   stands, so backtracking never succeeds and the choice below is the regex's *)
Fixpoint take_all_digits (s : text) : text * text :=
  match s with
  | c :: s' => if is_digit c then let '(d, r) := take_all_digits s' in (c :: d, r) else ([], s)
  | [] => ([], [])
  end.
Definition take_hours (s : text) : option (text * text) :=
  let '(d, r) := take_all_digits s in
  match d with _ :: _ :: _ => Some (d, r) | _ => None end.
Definition expect (c : Z) (s : text) : option text :=
  match s with x :: s' => if x =? c then Some s' else None | [] => None end.
Fixpoint skip_spaces (s : text) : text :=
  match s with c :: s' => if is_space c then skip_spaces s' else s | [] => [] end.
Definition spaces1 (s : text) : option text :=                 (* \s+ *)
  match s with c :: s' => if is_space c then Some (skip_spaces s') else None | [] => None end.

Record tcm := mkTcm { g_bh : text; g_bm : text; g_bs : text; g_bms : text;
                      g_eh : text; g_em : text; g_es : text; g_ems : text }.

Definition clock_at (s : text) : option (text * text * text * text * text) :=
  bind (take_hours s) (fun '(h, s) =>
  bind (expect 58 s) (fun s =>
  bind (take_digits 2 s) (fun '(m, s) =>
  bind (expect 58 s) (fun s =>
  bind (take_digits 2 s) (fun '(sec, s) =>
  bind (expect 44 s) (fun s =>
  bind (take_digits 3 s) (fun '(ms, s) => Some (h, m, sec, ms, s)))))))).

Definition match_tc_at (s : text) : option tcm :=
  bind (clock_at s) (fun '(bh, bm, bs, bms, s) =>
  bind (spaces1 s) (fun s =>
  bind (expect 45 s) (fun s => bind (expect 45 s) (fun s => bind (expect 62 s) (fun s =>
  bind (spaces1 s) (fun s =>
  bind (clock_at s) (fun '(eh, em, es, ems, _) => Some (mkTcm bh bm bs bms eh em es ems)))))))).

Fixpoint search_tc (l : text) : option tcm :=                 (* _TIMECODE_RE.search(line) *)
  match match_tc_at l with
  | Some g => Some g
  | None => match l with [] => None | _ :: l' => search_tc l' end
  end.

(* int(group): CPython refuses to convert a digit string longer than sys.get_int_max_str_digits() (4 300 unless
   reconfigured; leading zeros count) and raises ValueError.  Only the hour groups can be that long. *)
Definition int_converts (ds : text) : bool := Z.of_nat (length ds) <=? int_max_str_digits.

(* int(h) * 3600 + int(m) * 60 + int(s) + Fraction(int(ms), 1000), normalised as Fraction does *)
Definition seconds_of (h m s ms : text) : Q :=
  Qred (Qplus (inject_Z (int_of_digits h * 3600 + int_of_digits m * 60 + int_of_digits s))
              (Qmake (int_of_digits ms) 1000)).

(* ------------------------------------------------------------------ str.strip / str.replace *)
Definition is_crlf (c : Z) : bool := (c =? 13) || (c =? 10).
Fixpoint lstrip_crlf (s : text) : text :=
  match s with c :: s' => if is_crlf c then lstrip_crlf s' else s | [] => [] end.
Definition strip_crlf (s : text) : text := rev (lstrip_crlf (rev (lstrip_crlf s))).
Definition rstrip_crlf (s : text) : text := rev (lstrip_crlf (rev s)).           (* line.rstrip("\r\n") *)

(* str.replace(pat, rep) for a non-empty pat: leftmost, non-overlapping *)
Fixpoint replace_go (pat rep : text) (skip : nat) (s : text) : text :=
  match s with
  | [] => []
  | c :: s' =>
      match skip with
      | S k => replace_go pat rep k s'
      | O => if prefixb pat s then rep ++ replace_go pat rep (length pat - 1) s'
             else c :: replace_go pat rep O s'
      end
  end.
Definition replace (pat rep s : text) : text := replace_go pat rep O s.

Definition t_bold : text := [98;111;108;100].
Definition t_italic : text := [105;116;97;108;105;99].
Definition t_underline : text := [117;110;100;101;114;108;105;110;101].
Definition brace (closing : bool) (n : text) : text := 123 :: (if closing then [47] else []) ++ n ++ [125].
Definition angle (closing : bool) (n : text) : text := 60 :: (if closing then [47] else []) ++ n ++ [62].

Definition t_b : text := [98].  Definition t_i : text := [105].  Definition t_u : text := [117].

Definition rewrite_text (s : text) : text :=
  let s := strip_crlf s in
  let s := replace [10;13] [10] s in              (* "\n\r": LF CR *)
  let s := replace (brace false t_bold) (angle false t_bold) s in
  let s := replace (brace true t_bold) (angle true t_bold) s in
  let s := replace (brace false t_italic) (angle false t_italic) s in
  let s := replace (brace true t_italic) (angle true t_italic) s in
  let s := replace (brace false t_underline) (angle false t_underline) s in
  let s := replace (brace true t_underline) (angle true t_underline) s in
  let s := replace (brace false t_b) (angle false t_b) s in
  let s := replace (brace true t_b) (angle true t_b) s in
  let s := replace (brace false t_i) (angle false t_i) s in
  let s := replace (brace true t_i) (angle true t_i) s in
  let s := replace (brace false t_u) (angle false t_u) s in
  replace (brace true t_u) (angle true t_u) s.

(* ------------------------------------------------------------------ html.unescape *)
Fixpoint assoc {B} (k : text) (l : list (text * B)) : option B :=
  match l with
  | [] => None
  | (k', v) :: l' => if text_eqb k k' then Some v else assoc k l'
  end.
Fixpoint assocz {B} (k : Z) (l : list (Z * B)) : option B :=
  match l with
  | [] => None
  | (k', v) :: l' => if k =? k' then Some v else assocz k l'
  end.

Fixpoint take_while (f : Z -> bool) (s : text) : text * text :=
  match s with
  | c :: s' => if f c then let '(a, r) := take_while f s' in (c :: a, r) else ([], s)
  | [] => ([], [])
  end.
Fixpoint take_while_max (f : Z -> bool) (n : nat) (s : text) : text * text :=
  match n with
  | O => ([], s)
  | S k => match s with
           | c :: s' => if f c then let '(a, r) := take_while_max f k s' in (c :: a, r) else ([], s)
           | [] => ([], [])
           end
  end.

Definition numeric_ref (num : Z) : text :=
  match assocz num invalid_charrefs with
  | Some t => t
  | None =>
      if ((55296 <=? num) && (num <=? 57343)) || (1114111 <? num) then [65533]
      else if existsb (Z.eqb num) invalid_codepoints then []
      else [num]
  end.

(* for x in range(len(s)-1, 1, -1): if s[:x] in html5: return html5[s[:x]] + s[x:] *)
Fixpoint longest_prefix (x : nat) (s : text) : option text :=
  match x with
  | O | S O => None
  | S k => match assoc (firstn x s) html5_entities with
           | Some v => Some (v ++ skipn x s)
           | None => longest_prefix k s
           end
  end.
Definition named_ref (s : text) : option text :=
  match assoc s html5_entities with
  | Some v => Some v
  | None => longest_prefix (length s - 1) s
  end.

Definition name_char (c : Z) : bool :=           (* [^\t\n\f <&#;] *)
  negb ((c =? 9) || (c =? 10) || (c =? 12) || (c =? 32) || (c =? 60) || (c =? 38) || (c =? 35) || (c =? 59)).
Definition opt_semi (s : text) : text * text :=
  match s with c :: s' => if c =? 59 then ([59], s') else ([], s) | [] => ([], []) end.

(* s is the text after '&'; result: replacement and number of characters of s consumed *)
Definition charref (s : text) : option (text * nat) :=
  match s with
  | 35 :: s1 =>
      match s1 with
      | x :: s2 =>
          if ((x =? 120) || (x =? 88)) && (match s2 with h :: _ => is_hex h | [] => false end) then
            let '(ds, r) := take_while is_hex s2 in
            let '(semi, _) := opt_semi r in
            Some (numeric_ref (int_of_hex ds), (2 + length ds + length semi)%nat)
          else if is_digit x then
            let '(ds, r) := take_while is_digit s1 in
            let '(semi, _) := opt_semi r in
            Some (numeric_ref (int_of_digits ds), (1 + length ds + length semi)%nat)
          else None
      | [] => None
      end
  | _ =>
      let '(nm, r) := take_while_max name_char 32 s in
      match nm with
      | [] => None
      | _ => let '(semi, _) := opt_semi r in
             let full := nm ++ semi in
             match named_ref full with
             | Some v => Some (v, length full)
             | None => None                        (* '&' + s : unchanged *)
             end
      end
  end.

Fixpoint unesc_go (skip : nat) (s : text) : text :=
  match s with
  | [] => []
  | c :: s' =>
      match skip with
      | S k => unesc_go k s'
      | O => if c =? 38 then
               match charref s' with
               | Some (rep, n) => rep ++ unesc_go n s'
               | None => c :: unesc_go O s'
               end
             else c :: unesc_go O s'
      end
  end.
Definition unescape (s : text) : text := unesc_go O s.

(* ------------------------------------------------------------------ html.parser stand-in *)
Definition attr := (text * option text)%type.
Inductive token :=
| TData (t : text)                       (* handle_data(unescape(...)) *)
| TStart (name : text) (attrs : list attr)
| TEnd (name : text)                     (* handle_endtag(name), name lower-cased by the parser *)
| TBad.                                  (* construct outside the transcribed grammar *)

Inductive astate :=
| SA | SN (name : text) | SNA (name : text) | SEq (name : text) (sp : bool)
| SB (name val : text) | SQ (q : Z) (name val : text) | SSlash.

Definition mkattr (name : text) (v : option text) : attr :=
  (lower (rev name), match v with Some x => Some (unescape (rev x)) | None => None end).

(* attributes up to and including the closing '>' : (attributes, self-closing?, characters consumed) *)
Fixpoint attrs_go (st : astate) (acc : list attr) (n : nat) (s : text) : option (list attr * bool * nat) :=
  match s with
  | [] => None
  | c :: s' =>
      let n' := S n in
      match st with
      | SA =>
          if is_space c then attrs_go SA acc n' s'
          else if c =? 62 then Some (rev acc, false, n')
          else if c =? 47 then attrs_go SSlash acc n' s'
          else if c =? 61 then None
          else attrs_go (SN [c]) acc n' s'
      | SN name =>
          if is_space c then attrs_go (SNA name) acc n' s'
          else if c =? 61 then attrs_go (SEq name false) acc n' s'
          else if c =? 62 then Some (rev (mkattr name None :: acc), false, n')
          else if c =? 47 then attrs_go SSlash (mkattr name None :: acc) n' s'
          else attrs_go (SN (c :: name)) acc n' s'
      | SNA name =>
          if is_space c then attrs_go (SNA name) acc n' s'
          else if c =? 61 then attrs_go (SEq name false) acc n' s'
          else if c =? 62 then Some (rev (mkattr name None :: acc), false, n')
          else if c =? 47 then attrs_go SSlash (mkattr name None :: acc) n' s'
          else attrs_go (SN [c]) (mkattr name None :: acc) n' s'
      | SEq name sp =>
          if c =? 61 then (if sp then attrs_go (SB name [c]) acc n' s' else attrs_go (SEq name false) acc n' s')
          else if is_space c then attrs_go (SEq name true) acc n' s'
          else if (c =? 39) || (c =? 34) then attrs_go (SQ c name []) acc n' s'
          else if c =? 62 then Some (rev (mkattr name (Some []) :: acc), false, n')
          else attrs_go (SB name [c]) acc n' s'
      | SB name val =>
          if is_space c then attrs_go SA (mkattr name (Some val) :: acc) n' s'
          else if c =? 62 then Some (rev (mkattr name (Some val) :: acc), false, n')
          else attrs_go (SB name (c :: val)) acc n' s'
      | SQ q name val =>
          if c =? q then attrs_go SA (mkattr name (Some val) :: acc) n' s'
          else attrs_go (SQ q name (c :: val)) acc n' s'
      | SSlash =>
          if c =? 62 then Some (rev acc, true, n') else None
      end
  end.

Definition is_ascii (t : text) : bool := forallb (fun c => c <? 128) t.
Definition tagname_char (c : Z) : bool :=        (* [^\t\n\r\f />\x00] *)
  negb ((c =? 9) || (c =? 10) || (c =? 13) || (c =? 12) || (c =? 32) || (c =? 47) || (c =? 62) || (c =? 0)).

Definition t_script : text := [115;99;114;105;112;116].
Definition t_style : text := [115;116;121;108;101].

Inductive markup :=
| MToks (ts : list token) (n : nat)      (* tokens, characters consumed from '<' on *)
| MLt                                    (* a '<' that is data *)
| MBad.

(* r = text after "<", starting with an ASCII letter *)
Definition parse_start (r : text) : markup :=
  let '(name, r1) := take_while tagname_char r in
  let lname := lower name in
  match r1 with
  | [] => MBad
  | c :: _ =>
      if c =? 0 then MBad
      else if negb (is_ascii name) then MBad        (* str.lower beyond ASCII is not transcribed *)
      else if text_eqb lname t_script || text_eqb lname t_style then MBad
      else match attrs_go SA [] O r1 with
           | Some (attrs, selfclosing, n) =>
               MToks (TStart lname attrs :: (if selfclosing then [TEnd lname] else [])) (1 + length name + n)
           | None => MBad
           end
  end.

Fixpoint find_gt (s : text) : option text :=     (* text before the first '>' *)
  match s with
  | [] => None
  | c :: s' => if c =? 62 then Some [] else match find_gt s' with Some b => Some (c :: b) | None => None end
  end.
Definition endname_char (c : Z) : bool :=        (* [-.a-zA-Z0-9:_] *)
  is_alpha c || is_digit c || (c =? 45) || (c =? 46) || (c =? 58) || (c =? 95).
(* endtagfind on "</" body ">" :  white space, a name [a-zA-Z][-.a-zA-Z0-9:_]*, white space; the name when it matches *)
Definition endtag_find (body : text) : option text :=
  match skip_spaces body with
  | c :: b' => if is_alpha c then
                 let '(nm, r) := take_while endname_char b' in
                 match skip_spaces r with [] => Some (c :: nm) | _ => None end
               else None
  | [] => None
  end.
Definition end_token (name : text) (n : nat) : markup :=
  if is_ascii name then MToks [TEnd (lower name)] n else MBad.
(* r = text after "</" *)
Definition parse_end (r : text) : markup :=
  match find_gt r with
  | None => MBad
  | Some body =>
      let n := (2 + length body + 1)%nat in
      match endtag_find body with
      | Some name => end_token name n                               (* endtagfind matched *)
      | None =>
          match body with
          | c :: _ => if is_alpha c then end_token (fst (take_while tagname_char body)) n    (* tagfind_tolerant *)
                      else MToks [] n                               (* "</>" or a bogus comment *)
          | [] => MToks [] n
          end
      end
  end.

(* s starts with '<' *)
Definition parse_markup (s : text) : markup :=
  match s with
  | _ :: r =>
      match r with
      | [] => MLt
      | c :: r' =>
          if is_alpha c then parse_start r
          else if c =? 47 then parse_end r'
          else if (c =? 33) || (c =? 63) then MBad
          else MLt
      end
  | [] => MBad
  end.

Definition flush (pending : text) : list token :=
  match pending with [] => [] | _ => [TData (unescape (rev pending))] end.

Fixpoint tok (skip : nat) (pending : text) (s : text) : list token :=
  match s with
  | [] => flush pending
  | c :: s' =>
      match skip with
      | S k => tok k pending s'
      | O =>
          if c =? 60 then
            match parse_markup s with
            | MToks ts n => flush pending ++ ts ++ tok (n - 1) [] s'
            | MLt => flush pending ++ TData [60] :: tok O [] s'
            | MBad => flush pending ++ [TBad]
            end
          else tok O (c :: pending) s'
      end
  end.
Definition tokenize (s : text) : list token := tok O [] s.

(* ------------------------------------------------------------------ utils.parse_color *)
Definition is_space_ascii (c : Z) : bool := ((9 <=? c) && (c <=? 13)) || (c =? 32).     (* \s under re.ASCII: [ \t\n\r\f\v] *)
Fixpoint skip_spaces_ascii (s : text) : text :=
  match s with c :: s' => if is_space_ascii c then skip_spaces_ascii s' else s | [] => [] end.

(* _color_component: (\d+) under re.ASCII, int() of the group and the test against 255: the number, or None where
   ValueError is raised (more digits than the interpreter converts, or a value above 255) *)
Definition digits1 (s : text) : option (option Z * text) :=
  let '(ds, r) := take_while is_digit s in
  match ds with
  | [] => None
  | _ => Some (if int_converts ds then (let n := int_of_digits ds in if 255 <? n then None else Some n) else None, r)
  end.
Fixpoint expects (p s : text) : option text :=
  match p with
  | [] => Some s
  | x :: p' => match s with y :: s' => if x =? y then expects p' s' else None | [] => None end
  end.
Definition at_end (s : text) : option unit := match s with [] => Some tt | _ => None end.   (* fullmatch *)

(* _HEX_COLOR_RE.fullmatch: '#' and exactly three or four pairs of hexadecimal digits *)
Definition hex_color (v : text) : option rgba :=
  match v with
  | [35; a; b; c; d; e; f] =>
      if is_hex a && is_hex b && is_hex c && is_hex d && is_hex e && is_hex f then
        Some (int_of_hex [a; b], int_of_hex [c; d], int_of_hex [e; f], 255)
      else None
  | [35; a; b; c; d; e; f; g; h] =>
      if is_hex a && is_hex b && is_hex c && is_hex d && is_hex e && is_hex f && is_hex g && is_hex h then
        Some (int_of_hex [a; b], int_of_hex [c; d], int_of_hex [e; f], int_of_hex [g; h])
      else None
  | _ => None
  end.
(* ColorType((_color_component(g1), ...)): any component that fails raises ValueError *)
Definition rgba_of (r g b a : option Z) : outcome rgba :=
  match r, g, b, a with
  | Some r, Some g, Some b, Some a => Ok (r, g, b, a)
  | _, _, _, _ => Raised EValueError
  end.
(* None: the pattern does not match the whole value *)
Definition dec_color (v : text) : option (outcome rgba) :=     (* rgb\(\s*(\d+)\s*,\s*(\d+)\s*,\s*(\d+)\s*\) *)
  bind (expects [114;103;98;40] v) (fun s =>
  bind (digits1 (skip_spaces_ascii s)) (fun '(r, s) =>
  bind (expect 44 (skip_spaces_ascii s)) (fun s =>
  bind (digits1 (skip_spaces_ascii s)) (fun '(g, s) =>
  bind (expect 44 (skip_spaces_ascii s)) (fun s =>
  bind (digits1 (skip_spaces_ascii s)) (fun '(b, s) =>
  bind (expect 41 (skip_spaces_ascii s)) (fun s =>
  bind (at_end s) (fun _ => Some (rgba_of r g b (Some 255)))))))))).
Definition dec_colora (v : text) : option (outcome rgba) :=    (* rgba\(\s*(\d+),\s*(\d+)\s*,\s*(\d+)\s*,\s*(\d+)\s*\) *)
  bind (expects [114;103;98;97;40] v) (fun s =>
  bind (digits1 (skip_spaces_ascii s)) (fun '(r, s) =>
  bind (expect 44 s) (fun s =>
  bind (digits1 (skip_spaces_ascii s)) (fun '(g, s) =>
  bind (expect 44 (skip_spaces_ascii s)) (fun s =>
  bind (digits1 (skip_spaces_ascii s)) (fun '(b, s) =>
  bind (expect 44 (skip_spaces_ascii s)) (fun s =>
  bind (digits1 (skip_spaces_ascii s)) (fun '(a, s) =>
  bind (expect 41 (skip_spaces_ascii s)) (fun s =>
  bind (at_end s) (fun _ => Some (rgba_of r g b a))))))))))).

(* str.lower(attr_value) as far as membership in NamedColors.__members__ (ASCII keys) needs it: the lower-cased value when
   it is ASCII, None when some character's lower case is not ASCII (the value is then no key).  A character outside ASCII
   lower-cases into ASCII only where Gen/SrtTables.v lower_to_ascii says so (U+212A KELVIN SIGN -> k). *)
Fixpoint lower_key (v : text) : option text :=
  match v with
  | [] => Some []
  | c :: r =>
      match (if c <? 128 then Some [lower_ascii c] else assocz c lower_to_ascii) with
      | Some l => match lower_key r with Some k => Some (l ++ k) | None => None end
      | None => None
      end
  end.

Definition parse_color (v : text) : outcome rgba :=
  match (match lower_key v with Some k => assoc k named_colors | None => None end) with
  | Some c => Ok c
  | None =>
      match hex_color v with Some c => Ok c | None =>
      match dec_color v with Some o => o | None =>
      match dec_colora v with Some o => o | None => Raised EValueError end end end
  end.

(* ------------------------------------------------------------------ _TextParser *)
(* self.parent / self.open_tags: the open spans innermost first, each with the tag name recorded for it, its
   style and the children it has so far; then the paragraph's children so far *)
Definition frame := (text * sstyle * list elem)%type.
Inductive cursor :=
| CP (frames : list frame) (pk : list elem).

Definition push_kids (frames : list frame) (pk : list elem) (es : list elem) : cursor :=
  match frames with
  | (n, s, k) :: fs => CP ((n, s, k ++ es) :: fs) pk
  | [] => CP [] (pk ++ es)
  end.

Definition t_font : text := [102;111;110;116].  Definition t_color : text := [99;111;108;111;114].

(* `for attr in attrs: if attr[0] == "color" and attr[1] is not None: ... break`: the first color attribute that has a
   value; a color attribute without a value (<font color>) is passed over *)
Fixpoint find_color (attrs : list attr) : option text :=
  match attrs with
  | [] => None
  | (n, v) :: a' =>
      if text_eqb n t_color then match v with Some x => Some x | None => find_color a' end
      else find_color a'
  end.

(* style given to the span of a start tag *)
Definition tag_style (tag : text) (attrs : list attr) : outcome sstyle :=
  let tag := lower tag in
  if text_eqb tag t_b || text_eqb tag t_bold then Ok (mkSt true false false None)
  else if text_eqb tag t_i || text_eqb tag t_italic then Ok (mkSt false true false None)
  else if text_eqb tag t_u || text_eqb tag t_underline then Ok (mkSt false false true None)
  else if text_eqb tag t_font then
    match find_color attrs with
    | Some v => outcome_map (fun c => mkSt false false false (Some c)) (parse_color v)
    | None => Ok st0                                   (* "Font tag without a color attribute" (for ... else) *)
    end
  else Ok st0.                                         (* "Unknown tag" *)

Definition handle_start (tag : text) (attrs : list attr) (cur : cursor) : outcome cursor :=
  match cur with
  | CP frames pk =>
      (* the span is created and attached before its style is computed; an exception in between
         propagates out of to_model, so the order is not observable *)
      match tag_style tag attrs with
      | Ok st => Ok (CP ((tag, st, []) :: frames) pk)
      | RetNone => RetNone | Raised e => Raised e | Unmodelled => Unmodelled
      end
  end.

(* an end tag closes the innermost open span when it carries that span's tag name and is ignored otherwise *)
Definition handle_end (tag : text) (cur : cursor) : outcome cursor :=
  match cur with
  | CP ((n, s, k) :: fs) pk => if text_eqb n tag then Ok (push_kids fs pk [ESpan s k]) else Ok cur
  | CP [] pk => Ok cur
  end.

Fixpoint split_lf (s : text) : list text :=            (* data.split("\n") *)
  match s with
  | [] => [[]]
  | c :: s' =>
      if c =? 10 then [] :: split_lf s'
      else match split_lf s' with
           | l :: ls => (c :: l) :: ls
           | [] => [[c]]
           end
  end.

Fixpoint data_kids (first : bool) (lines : list text) : list elem :=
  match lines with
  | [] => []
  | l :: ls => (if first then [] else [EBr]) ++ ESpan st0 [EText l] :: data_kids false ls
  end.

Definition handle_data (data : text) (cur : cursor) : outcome cursor :=
  match cur with
  | CP frames pk => Ok (push_kids frames pk (data_kids true (split_lf data)))
  end.

Fixpoint handle (ts : list token) (cur : cursor) : outcome cursor :=
  match ts with
  | [] => Ok cur
  | t :: ts' =>
      let r := match t with
               | TData d => handle_data d cur
               | TStart n a => handle_start n a cur
               | TEnd n => handle_end n cur
               | TBad => Unmodelled
               end in
      match r with
      | Ok cur' => handle ts' cur'
      | RetNone => RetNone | Raised e => Raised e | Unmodelled => Unmodelled
      end
  end.

(* children of the paragraph once the parser is discarded: open spans stay where they were attached *)
Fixpoint close_all (extra : list elem) (frames : list frame) (pk : list elem) : list elem :=
  match frames with
  | [] => pk ++ extra
  | (_, s, k) :: fs => close_all [ESpan s (k ++ extra)] fs pk
  end.

(* parser = _TextParser(current_p, ...); parser.feed(text); parser.close().  Whether current_p is attached to
   the div makes no difference: the parser only ever touches the paragraph and the spans below it *)
Definition parse_text (t : text) : outcome (list elem) :=
  match handle (tokenize t) (CP [] []) with
  | Ok (CP frames pk) => Ok (close_all [] frames pk)
  | RetNone => RetNone | Raised e => Raised e | Unmodelled => Unmodelled
  end.

(* ------------------------------------------------------------------ to_model *)
Inductive mode := COUNTER | TC | TEXT | TEXT_MORE.

Record mstate := mkM {
  m_mode : mode;
  m_done : list pcue;          (* children of div, in order, completed *)
  m_times : Q * Q;             (* current_p begin / end *)
  m_attached : bool;           (* div.push_child(current_p) done *)
  m_text : text                (* subtitle_text *)
}.
Definition m_init : mstate := mkM COUNTER [] (0%Q, 0%Q) false [].

Inductive stepres := Continue (s : mstate) | Stop (o : outcome (list pcue)).

(* the branch taken when a blank line or the end of the file ends the text of a cue *)
Definition finish_cue (s : mstate) : stepres :=
  match parse_text (rewrite_text (m_text s)) with
  | Ok kids =>
      let done := if m_attached s
                  then m_done s ++ [mkP (fst (m_times s)) (snd (m_times s)) kids]
                  else m_done s in
      Continue (mkM COUNTER done (m_times s) (m_attached s) (m_text s))
  | RetNone => Stop RetNone | Raised e => Stop (Raised e) | Unmodelled => Stop Unmodelled
  end.

Definition step (s : mstate) (line : text) : stepres :=
  match m_mode s with
  | COUNTER =>
      if is_blank line then Continue s
      else if negb (has_digit line) then Stop RetNone
      else Continue (mkM TC (m_done s) (m_times s) (m_attached s) (m_text s))
  | TC =>
      match search_tc line with
      | None => Stop RetNone
      | Some g =>
          (* set_begin(int(begin_h) ...) then set_end(int(end_h) ...): either conversion may raise ValueError, which
             leaves to_model *)
          if negb (int_converts (g_bh g) && int_converts (g_eh g)) then Stop (Raised EValueError)
          else
          Continue (mkM TEXT (m_done s)
                        (seconds_of (g_bh g) (g_bm g) (g_bs g) (g_bms g),
                         seconds_of (g_eh g) (g_em g) (g_es g) (g_ems g))
                        false (m_text s))
      end
  | TEXT =>
      if is_blank line then finish_cue s
      else Continue (mkM TEXT_MORE (m_done s) (m_times s) true (rstrip_crlf line ++ [10]))
  | TEXT_MORE =>
      if is_blank line then finish_cue s
      else Continue (mkM TEXT_MORE (m_done s) (m_times s) (m_attached s) (m_text s ++ rstrip_crlf line ++ [10]))
  end.

(* the `None` that _none_terminated appends *)
Definition at_eof (s : mstate) : outcome (list pcue) :=
  match m_mode s with
  | COUNTER | TC => Ok (m_done s)
  | TEXT | TEXT_MORE =>
      match finish_cue s with Continue s' => Ok (m_done s') | Stop o => o end
  end.

Fixpoint run (ls : list text) (s : mstate) : outcome (list pcue) :=
  match ls with
  | [] => at_eof s
  | l :: ls' => match step s l with Continue s' => run ls' s' | Stop o => o end
  end.

(* to_model(file) where file.readlines() = readlines (content);  the result is the list of paragraphs
   under the single div *)
Definition to_model (content : text) : outcome (list pcue) := run (readlines content) m_init.
(* the same through a text-mode file (newline=None), as `tt convert` opens it *)
Definition to_model_file (content : text) : outcome (list pcue) := to_model (universal content).

Definition read_cues (content : text) : outcome (list cue) := outcome_map (map observe) (to_model content).
Definition read_cues_file (content : text) : outcome (list cue) := outcome_map (map observe) (to_model_file content).
