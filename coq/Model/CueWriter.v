(* M for C06/C07, part 2: the SRT and WebVTT writers.
     ttconv/srt/writer.py     from_model, SrtContext.add_isd / append_element / finish / __str__
     ttconv/srt/paragraph.py  SrtParagraph.set_begin / set_end / normalize_eol / is_only_whitespace / to_string
     ttconv/srt/style.py      is_element_bold / italic / underlined, get_font_color
     ttconv/vtt/writer.py     from_model, VttContext.__init__ (filter list per configuration: Gen/CueTables.v),
                              add_isd, process_p, process_inline_element, finish, style_block, __str__
     ttconv/vtt/cue.py        VttCue (set_begin/set_end/set_line/set_align/set_textalign, normalize_eol,
                              is_only_whitespace_or_empty, to_string, __str__)
     ttconv/vtt/style.py      get_color / get_background_color / class names;  ttconv/vtt/css_class.py  CssClass
   Input: the snapshot sequence of Model/SigTimes.v (`isd_sequence`, the transcription of
   ISD.generate_isd_sequence).  Output: the returned string as a list of code points, or Err where Python raises.

   The paragraph text the Python code accumulates with append_text is kept as a list of ITEMS — a tag appended as one
   string, or one character of content — and flattened when needed, so that "the payload without its tags" is a
   structural notion of the model.  normalize_eol and is_only_whitespace work on the flattened string, as in the code.
   Times: ClockTime.from_seconds (Model/TimeCode.v, C12) gives the millisecond count; the `begin + 10.0` of finish()
   goes through a float in the code and is modelled as + 10 000 ms (any deviation shows up in the correspondence).
   Content model: only the dispatch the code has (Div / P, then Span / Ruby / Rbc / Rb / Br / Text, for both writers; the
   WebVTT writer walks region -> body -> child and descends through Div to P with process_div); every other element kind
   (the ruby annotations Rt / Rtc / Rp among them) is ignored with its whole subtree, as in the code.  An inline element
   directly under a Div (which model.py's push_child guards exclude) would be appended to the previous paragraph by the
   SRT code; the model ignores it.   No proofs here. *)
From TT Require Import Model.Doc Gen.StyleTables Model.Isd Model.SigTimes Model.TimeCode Model.IsdFilters Gen.CueTables.

(* ---- error codes (continuing Model/Doc.v) -------------------------------------------------------------- *)
Definition errNegativeTime := 3.    (* ValueError from ClockTime.from_seconds *)
Definition errToString := 4.        (* ValueError from SrtParagraph.to_string / VttCue.to_string *)
Definition errAttribute := 5.       (* AttributeError: region without computed position / extent *)
Definition errConfig := 6.          (* configuration outside the generated table (cannot happen) *)

(* ---- text helpers ------------------------------------------------------------------------------------------ *)
Inductive item := ITag (t : text) | IChr (c : Z).
(* the string Python holds: tags verbatim, characters through `esc` (identity for SRT, & and < for WebVTT) *)
Definition flat (esc : Z -> text) (l : list item) : text :=
  flat_map (fun i => match i with ITag t => t | IChr c => esc c end) l.
Definition chars_of (l : list item) : text :=
  flat_map (fun i => match i with ITag _ => [] | IChr c => [c] end) l.
Definition esc_none (c : Z) : text := [c].
(* .replace('&', '&amp;').replace('<', '&lt;') *)
Definition esc_vtt (c : Z) : text :=
  if c =? 38 then [38; 97; 109; 112; 59] else if c =? 60 then [38; 108; 116; 59] else [c].

(* str.isspace() of one character *)
Definition py_isspace (c : Z) : bool := existsb (Z.eqb c) py_isspace_points.
(* len(text) == 0 or text.isspace() *)
Definition only_whitespace (t : text) : bool := forallb py_isspace t.

(* re.sub(r"\n{2,}", "\n", t) *)
Fixpoint collapse_lf (t : text) : text :=
  match t with
  | [] => []
  | c :: t' => if (c =? 10) && match t' with d :: _ => d =? 10 | [] => false end then collapse_lf t' else c :: collapse_lf t'
  end.
Fixpoint drop_while (f : Z -> bool) (t : text) : text :=
  match t with [] => [] | c :: t' => if f c then drop_while f t' else t end.
Definition is_eol (c : Z) : bool := (c =? 10) || (c =? 13).
(* .strip("\n\r") *)
Definition strip_eol (t : text) : text := rev (drop_while is_eol (rev (drop_while is_eol t))).
(* normalize_eol *)
Definition normalize_eol (t : text) : text := strip_eol (collapse_lf t).

(* ---- the paragraph text without its tags: _TAG_RE.sub(empty string, text) --------------------------------------------- *)
Fixpoint starts (p t : text) : bool :=
  match p, t with [], _ => true | x :: p', y :: t' => (x =? y) && starts p' t' | _ :: _, [] => false end.
Fixpoint take_until (q : Z) (t : text) : text := match t with [] => [] | c :: t' => if c =? q then [] else c :: take_until q t' end.
(* VttCue._TAG_RE = <[^>]*> : from a less-than sign up to the next greater-than sign; a less-than sign that no greater-than
   sign follows is text (and so is everything after it) *)
Fixpoint strip_vtt_go (buf : option text) (t : text) : text :=
  match t with
  | [] => match buf with Some b => rev b | None => [] end
  | c :: t' =>
      match buf with
      | None => if c =? 60 then strip_vtt_go (Some [c]) t' else c :: strip_vtt_go None t'
      | Some b => if c =? 62 then strip_vtt_go None t' else strip_vtt_go (Some (c :: b)) t'
      end
  end.
Definition strip_vtt (t : text) : text := strip_vtt_go None t.
(* SrtParagraph._TAG_RE = </?[biu]>|<font color=Q[^Q]*Q>|</font> (Q the double quote; the pattern text is checked by
   harness/gen_c06.py): the length of the match at the start of t, if any *)
Definition is_biu (c : Z) : bool := (c =? 98) || (c =? 105) || (c =? 117).
Definition srt_font_open : text := [60; 102; 111; 110; 116; 32; 99; 111; 108; 111; 114; 61; 34].       (* <font color=Q *)
Definition srt_tag_len (t : text) : option nat :=
  if starts [60] t then
    if is_biu (nth 1 t 0) && (nth 2 t 0 =? 62) then Some 3%nat
    else if (nth 1 t 0 =? 47) && is_biu (nth 2 t 0) && (nth 3 t 0 =? 62) then Some 4%nat
    else if starts srt_font_open t then
      let rest := skipn 13 t in let v := take_until 34 rest in
      if starts [34; 62] (skipn (length v) rest) then Some (13 + length v + 2)%nat else None
    else if starts [60; 47; 102; 111; 110; 116; 62] t then Some 7%nat else None
  else None.
Fixpoint strip_srt_go (skip : nat) (t : text) : text :=
  match t with
  | [] => []
  | c :: t' =>
      match skip with
      | S k => strip_srt_go k t'
      | O => match srt_tag_len t with Some (S k) => strip_srt_go k t' | _ => c :: strip_srt_go O t' end
      end
  end.
Definition strip_srt (t : text) : text := strip_srt_go O t.

(* decimal printing of an int (str(n), f"{n}") *)
Definition print_z (n : Z) : text := if n <? 0 then 45 :: digits_fuel 40 (- n) [] else digits_fuel 40 n [].
(* "{:02x}" of a byte *)
Definition hex_digit (d : Z) : Z := if d <? 10 then 48 + d else 87 + d.
Definition hex2 (b : Z) : text := [hex_digit (b / 16); hex_digit (b mod 16)].
(* "#{:02x}{:02x}{:02x}{:02x}".format(r, g, b, a) of a packed RGBA8 colour *)
(* the value is a packed RGBA8 colour, 0 <= rgba < 2^32: the top byte is reduced like the others so that the printer is total *)
Definition hex8 (rgba : Z) : text :=
  hex2 ((rgba / 16777216) mod 256) ++ hex2 ((rgba / 65536) mod 256) ++ hex2 ((rgba / 256) mod 256) ++ hex2 (rgba mod 256).
Definition color_string (rgba : Z) : text := 35 :: hex8 rgba.

(* ---- srt/style.py and vtt/style.py --------------------------------------------------------------------------- *)
Definition is_element_bold (a : attrs) : bool :=
  match sget (e_styles a) p_FontWeight with Some (VEnum w) => w =? e_FontWeightType_bold | _ => false end.
Definition is_element_italic (a : attrs) : bool :=
  match sget (e_styles a) p_FontStyle with Some (VEnum s) => s =? e_FontStyleType_italic | _ => false end.
Definition is_element_underlined (a : attrs) : bool :=
  match sget (e_styles a) p_TextDecoration with Some (VTextDec u _ _) => u =? 1 | _ => false end.
Definition get_color_of (a : attrs) (p : Z) : option Z :=
  match sget (e_styles a) p with Some (VColor c) => Some c | _ => None end.

(* ---- cues ------------------------------------------------------------------------------------------------------- *)
Record cue := mkCue {
  c_id : option Z ;                 (* VttCue identifier (None without cue_id); SrtParagraph's creation counter *)
  c_begin : Z ;                     (* milliseconds *)
  c_end : option Z ;
  c_items : list item ;             (* what append_text received, before normalize_eol *)
  c_line : option (Z * Z) ;         (* line percentage, line alignment (position in VttCue.LineAlignment) *)
  c_textalign : option Z }.         (* position in VttCue.TextAlignment *)
Definition cue_text (esc : Z -> text) (c : cue) : text := normalize_eol (flat esc (c_items c)).

(* ClockTime.from_seconds(Fraction) as a millisecond count *)
Definition q_ms (q : Q) : res Z :=
  if Qnum q <? 0 then Err errNegativeTime else Ok (clock_ms (Qnum q) (Zpos (Qden q))).
Definition oq_ms (o : option Q) : res (option Z) :=
  match o with None => Ok None | Some q => bind (q_ms q) (fun m => Ok (Some m)) end.
Definition print_ms (sep : Z) (ms : Z) : text := print_clock sep (clock_fields ms).

(* is_only_whitespace() / is_only_whitespace_or_empty() of a paragraph after normalize_eol(): the text without its tags *)
Definition cue_blank (strip : text -> text) (esc : Z -> text) (c : cue) : bool := only_whitespace (strip (cue_text esc c)).
Definition srt_blank : cue -> bool := cue_blank strip_srt esc_none.
Definition vtt_blank : cue -> bool := cue_blank strip_vtt esc_vtt.
Definition default_end (c : cue) : cue :=
  match c_end c with
  | None => mkCue (c_id c) (c_begin c) (Some (c_begin c + 10000)) (c_items c) (c_line c) (c_textalign c)
  | Some _ => c
  end.
(* finish(): the LAST paragraph gets the default end, or goes if it is blank; VttContext.finish() (fill = true) first gives the
   default end to every earlier paragraph that has none (one cue per region in the unbounded last interval);
   SrtContext.finish() (fill = false) looks at the last paragraph only *)
Fixpoint finish_cues (fill : bool) (blank : cue -> bool) (l : list cue) : list cue :=
  match l with
  | [] => []
  | [c] => match c_end c with
           | None => if blank c then [] else [default_end c]
           | Some _ => [c]
           end
  | c :: l' => (if fill then default_end c else c) :: finish_cues fill blank l'
  end.

(* ---- SRT --------------------------------------------------------------------------------------------------------- *)
(* append_element on Span / Br / Text *)
Fixpoint srt_inline (fmt : bool) (e : elem) : list item :=
  match e with
  | Elem a cs =>
      match e_kind a with
      | KSpan =>
          let bold := is_element_bold a in let italic := is_element_italic a in
          let under := is_element_underlined a in let color := get_color_of a p_Color in
          (if fmt then
             (match color with Some c => [ITag (srt_FONT_COLOR_TAG_IN_pre ++ color_string c ++ srt_FONT_COLOR_TAG_IN_suf)] | None => [] end) ++
             (if bold then [ITag srt_BOLD_TAG_IN] else []) ++ (if italic then [ITag srt_ITALIC_TAG_IN] else []) ++
             (if under then [ITag srt_UNDERLINE_TAG_IN] else [])
           else []) ++
          (fix go (l : list elem) : list item := match l with [] => [] | c :: l' => srt_inline fmt c ++ go l' end) cs ++
          (if fmt then
             (if under then [ITag srt_UNDERLINE_TAG_OUT] else []) ++ (if italic then [ITag srt_ITALIC_TAG_OUT] else []) ++
             (if bold then [ITag srt_BOLD_TAG_OUT] else []) ++
             (match color with Some _ => [ITag srt_FONT_COLOR_TAG_OUT] | None => [] end)
           else [])
      | KRuby | KRbc | KRb =>        (* ruby base text; the annotations (Rt, Rtc, Rp) are not written *)
          (fix go (l : list elem) : list item := match l with [] => [] | c :: l' => srt_inline fmt c ++ go l' end) cs
      | KBr => [IChr 10]
      | KText => map IChr (e_text a)
      | _ => []
      end
  end.
(* append_element on Div / P: the paragraphs it leaves in the list (a paragraph that is only white space is popped);
   n = _captions_counter before *)
Fixpoint srt_block (fmt : bool) (b : Z) (en : option Z) (e : elem) (n : Z) : list cue * Z :=
  match e with
  | Elem a cs =>
      match e_kind a with
      | KDiv =>
          (fix go (l : list elem) (n : Z) : list cue * Z :=
             match l with
             | [] => ([], n)
             | c :: l' => let '(x, n1) := srt_block fmt b en c n in let '(y, n2) := go l' n1 in (x ++ y, n2)
             end) cs n
      | KP =>
          let c := mkCue (Some (n + 1)) b en (flat_map (srt_inline fmt) cs) None None in
          (if srt_blank c then [] else [c], n + 1)
      | _ => ([], n)
      end
  end.
Fixpoint srt_blocks (fmt : bool) (b : Z) (en : option Z) (l : list elem) (n : Z) : list cue * Z :=
  match l with
  | [] => ([], n)
  | c :: l' => let '(x, n1) := srt_block fmt b en c n in let '(y, n2) := srt_blocks fmt b en l' n1 in (x ++ y, n2)
  end.
(* add_isd: for region: for body in region: for div in list(body): append_element(div) *)
Definition srt_add_isd (fmt : bool) (b : Z) (en : option Z) (regions : list elem) (n : Z) : list cue * Z :=
  srt_blocks fmt b en (flat_map (fun r => flat_map echildren (echildren r)) regions) n.

(* the loop of from_model over the snapshot sequence; end = the next snapshot's time *)
Fixpoint srt_loop (fmt : bool) (seq : list (Q * list elem)) (n : Z) : res (list cue) :=
  match seq with
  | [] => Ok []
  | (t, regions) :: seq' =>
      bind (q_ms t) (fun b =>
      bind (oq_ms (match seq' with (t', _) :: _ => Some t' | [] => None end)) (fun en =>
      let '(cs, n1) := srt_add_isd fmt b en (apply_filters srt_filters regions) n in
      bind (srt_loop fmt seq' n1) (fun rest => Ok (cs ++ rest))))
  end.

(* to_string: the two checks, then the three lines *)
Definition checked_end (c : cue) : res Z :=
  match c_end c with
  | None => Err errToString
  | Some e => if e <=? c_begin c then Err errToString else Ok e
  end.
Definition arrow : text := [32; 45; 45; 62; 32].
Definition srt_to_string (k : Z) (c : cue) : res text :=
  bind (checked_end c) (fun e =>
  let t := cue_text esc_none c in
  Ok (print_z k ++ [10] ++ print_ms 44 (c_begin c) ++ arrow ++ print_ms 44 e ++ [10] ++ t ++ (match t with [] => [] | _ => [10] end))).
Fixpoint srt_strings (k : Z) (l : list cue) : res (list text) :=
  match l with
  | [] => Ok []
  | c :: l' => bind (srt_to_string k c) (fun s => bind (srt_strings (k + 1) l') (fun r => Ok (s :: r)))
  end.

Definition srt_cues (fmt : bool) (seq : list (Q * list elem)) : res (list cue) :=
  bind (srt_loop fmt seq 0) (fun cs => Ok (finish_cues false srt_blank cs)).
Definition srt_of_seq (fmt : bool) (seq : res (list (Q * list elem))) : res text :=
  bind seq (fun s => bind (srt_cues fmt s) (fun cs => bind (srt_strings 1 cs) (fun ss => Ok (join_text [10] ss)))).
(* srt.writer.from_model(doc, SRTWriterConfiguration(text_formatting = fmt)) *)
Definition srt_from_model (d : doc) (fmt : bool) : res text := srt_of_seq fmt (isd_sequence d).

(* ---- WebVTT ------------------------------------------------------------------------------------------------------- *)
Record vtt_config := mkVttConfig { line_position : bool ; text_align : bool ; cue_id : bool }.
Definition beq3 (a b : bool * bool * bool) : bool :=
  let '(a1, a2, a3) := a in let '(b1, b2, b3) := b in Bool.eqb a1 b1 && Bool.eqb a2 b2 && Bool.eqb a3 b3.
Fixpoint lookup3 (l : list ((bool * bool * bool) * list isd_filter)) (k : bool * bool * bool) : option (list isd_filter) :=
  match l with [] => None | (k', v) :: l' => if beq3 k k' then Some v else lookup3 l' k end.
Definition vtt_filters (cfg : vtt_config) : option (list isd_filter) :=
  lookup3 vtt_filters_table (line_position cfg, text_align cfg, cue_id cfg).

(* the CSS classes registered so far, in registration order: (background?, colour) *)
Definition css_state := list (bool * Z).
Definition css_mem (s : css_state) (bg : bool) (c : Z) : bool := existsb (fun x => Bool.eqb (fst x) bg && (snd x =? c)) s.
(* get_color_classname / get_background_color_classname *)
Definition class_name (bg : bool) (c : Z) : text :=
  match assoc_z (if bg then vtt_default_background_colors else vtt_default_text_colors) c with
  | Some n => n
  | None => (if bg then vtt_bg_class_prefix else vtt_fg_class_prefix) ++ hex8 c
  end.
Definition css_add (s : css_state) (bg : bool) (c : Z) : css_state := if css_mem s bg c then s else s ++ [(bg, c)].

(* process_inline_element; the CSS class registry is threaded through *)
Fixpoint vtt_inline (e : elem) (s : css_state) : list item * css_state :=
  match e with
  | Elem a cs =>
      match e_kind a with
      | KSpan =>
          let bold := is_element_bold a in let italic := is_element_italic a in
          let under := is_element_underlined a in
          let color := get_color_of a p_Color in let bg := get_color_of a p_BackgroundColor in
          let s1 := match color with Some c => css_add s false c | None => s end in
          let s2 := match bg with Some c => css_add s1 true c | None => s1 end in
          let '(inner, s3) :=
            (fix go (l : list elem) (s : css_state) : list item * css_state :=
               match l with
               | [] => ([], s)
               | c :: l' => let '(x, sa) := vtt_inline c s in let '(y, sb) := go l' sa in (x ++ y, sb)
               end) cs s2 in
          ((match color with Some c => [ITag (vtt_COLOR_TAG_IN_pre ++ class_name false c ++ vtt_COLOR_TAG_IN_suf)] | None => [] end) ++
           (match bg with Some c => [ITag (vtt_BG_COLOR_TAG_IN_pre ++ class_name true c ++ vtt_BG_COLOR_TAG_IN_suf)] | None => [] end) ++
           (if bold then [ITag vtt_BOLD_TAG_IN] else []) ++ (if italic then [ITag vtt_ITALIC_TAG_IN] else []) ++
           (if under then [ITag vtt_UNDERLINE_TAG_IN] else []) ++
           inner ++
           (if under then [ITag vtt_UNDERLINE_TAG_OUT] else []) ++ (if italic then [ITag vtt_ITALIC_TAG_OUT] else []) ++
           (if bold then [ITag vtt_BOLD_TAG_OUT] else []) ++
           (match color with Some _ => [ITag vtt_COLOR_TAG_OUT] | None => [] end) ++
           (match bg with Some _ => [ITag vtt_BG_COLOR_TAG_OUT] | None => [] end), s3)
      | KRuby | KRbc | KRb =>        (* ruby base text; the annotations (Rt, Rtc, Rp) are not written *)
          (fix go (l : list elem) (s : css_state) : list item * css_state :=
             match l with
             | [] => ([], s)
             | c :: l' => let '(x, sa) := vtt_inline c s in let '(y, sb) := go l' sa in (x ++ y, sb)
             end) cs s
      | KBr => ([IChr 10], s)
      | KText => (map IChr (e_text a), s)
      | _ => ([], s)
      end
  end.
Fixpoint vtt_inlines (l : list elem) (s : css_state) : list item * css_state :=
  match l with
  | [] => ([], s)
  | c :: l' => let '(x, sa) := vtt_inline c s in let '(y, sb) := vtt_inlines l' sa in (x ++ y, sb)
  end.

(* round(x) of a rational: half to even *)
Definition round_q (q : Q) : Z := round_he (Qnum q) (Zpos (Qden q)).
(* VttCue.set_line: max(0, min(100, line)) *)
Definition clamp_pct (n : Z) : Z := Z.max 0 (Z.min 100 n).
(* the line / line-alignment cue settings of process_p *)
Definition line_setting (region : attrs) : res (Z * Z) :=
  match sget (e_styles region) p_Position, sget (e_styles region) p_Extent with
  | Some (VPos _ _ v _), Some (VExtent h _) =>
      match sget (e_styles region) p_DisplayAlign with
      | Some (VEnum da) =>
          if da =? e_DisplayAlignType_after then Ok (clamp_pct (round_q (Qplus (lv v) (lv h))), 2)
          else if da =? e_DisplayAlignType_before then Ok (clamp_pct (round_q (lv v)), 0)
          else Ok (clamp_pct (round_q (Qplus (lv v) (Qdiv (lv h) (qz 2)))), 1)
      | _ => Ok (clamp_pct (round_q (Qplus (lv v) (Qdiv (lv h) (qz 2)))), 1)
      end
  | _, _ => Err errAttribute
  end.
(* the align cue setting of process_p, from the paragraph's own textAlign and direction *)
Definition textalign_setting (p : attrs) : option Z :=
  let rtl := match sget (e_styles p) p_Direction with Some (VEnum x) => x =? e_DirectionType_rtl | _ => false end in
  match sget (e_styles p) p_TextAlign with
  | Some (VEnum ta) =>
      if ta =? e_TextAlignType_center then Some 1
      else if ta =? e_TextAlignType_start then Some (if rtl then 2 else 0)
      else if ta =? e_TextAlignType_end then Some (if rtl then 0 else 2)
      else None
  | _ => None
  end.

Record vtt_state := mkVttState { v_counter : Z ; v_css : css_state }.

(* process_p(region, element) *)
Definition vtt_process_p (cfg : vtt_config) (region : attrs) (b : Z) (en : option Z) (p : elem) (st : vtt_state)
  : res (list cue * vtt_state) :=
  let n := v_counter st + 1 in
  bind (if line_position cfg then bind (line_setting region) (fun x => Ok (Some x)) else Ok None) (fun line =>
  let ta := if text_align cfg then textalign_setting (eattrs p) else None in
  let '(items, css) := vtt_inlines (echildren p) (v_css st) in
  let c := mkCue (if cue_id cfg then Some n else None) b en items line ta in
  if vtt_blank c then Ok ([], mkVttState (n - 1) css) else Ok ([c], mkVttState n css)).
(* process_div(region, element): a Div hands its children to process_div, a P goes to process_p, anything else is ignored *)
Fixpoint vtt_block (cfg : vtt_config) (region : attrs) (b : Z) (en : option Z) (e : elem) (st : vtt_state)
  : res (list cue * vtt_state) :=
  match e with
  | Elem a cs =>
      match e_kind a with
      | KDiv =>
          (fix go (l : list elem) (st : vtt_state) : res (list cue * vtt_state) :=
             match l with
             | [] => Ok ([], st)
             | c :: l' =>
                 bind (vtt_block cfg region b en c st) (fun r1 =>
                 bind (go l' (snd r1)) (fun r2 => Ok (fst r1 ++ fst r2, snd r2)))
             end) cs st
      | KP => vtt_process_p cfg region b en e st
      | _ => Ok ([], st)
      end
  end.
Fixpoint vtt_blocks (cfg : vtt_config) (region : attrs) (b : Z) (en : option Z) (l : list elem) (st : vtt_state)
  : res (list cue * vtt_state) :=
  match l with
  | [] => Ok ([], st)
  | c :: l' =>
      bind (vtt_block cfg region b en c st) (fun r1 =>
      bind (vtt_blocks cfg region b en l' (snd r1)) (fun r2 => Ok (fst r1 ++ fst r2, snd r2)))
  end.
(* for region: for body in region: for div in list(body): process_div(region, div) *)
Fixpoint vtt_regions (cfg : vtt_config) (b : Z) (en : option Z) (regions : list elem) (st : vtt_state)
  : res (list cue * vtt_state) :=
  match regions with
  | [] => Ok ([], st)
  | r :: regions' =>
      bind (vtt_blocks cfg (eattrs r) b en (flat_map echildren (echildren r)) st) (fun r1 =>
      bind (vtt_regions cfg b en regions' (snd r1)) (fun r2 => Ok (fst r1 ++ fst r2, snd r2)))
  end.

Fixpoint vtt_loop (cfg : vtt_config) (fs : list isd_filter) (seq : list (Q * list elem)) (st : vtt_state)
  : res (list cue * vtt_state) :=
  match seq with
  | [] => Ok ([], st)
  | (t, regions) :: seq' =>
      bind (q_ms t) (fun b =>
      bind (oq_ms (match seq' with (t', _) :: _ => Some t' | [] => None end)) (fun en =>
      bind (vtt_regions cfg b en (apply_filters fs regions) st) (fun r1 =>
      bind (vtt_loop cfg fs seq' (snd r1)) (fun r2 => Ok (fst r1 ++ fst r2, snd r2)))))
  end.

(* VttCue.to_string / __str__ *)
Definition vtt_to_string (c : cue) : res text :=
  bind (checked_end c) (fun e =>
  let t := cue_text esc_vtt c in
  Ok ((match c_id c with Some k => print_z k ++ [10] | None => [] end) ++
      print_ms 46 (c_begin c) ++ arrow ++ print_ms 46 e ++
      (match c_textalign c with Some k => [32; 97; 108; 105; 103; 110; 58] ++ nth (Z.to_nat k) vtt_text_alignment [] | None => [] end) ++
      (match c_line c with
       | Some (l, k) => [32; 108; 105; 110; 101; 58] ++ print_z l ++ [37; 44] ++ nth (Z.to_nat k) vtt_line_alignment []
       | None => []
       end) ++
      [10] ++ (match t with [] => [] | _ => t ++ [10] end))).
Fixpoint vtt_strings (l : list cue) : res (list text) :=
  match l with
  | [] => Ok []
  | c :: l' => bind (vtt_to_string c) (fun s => bind (vtt_strings l') (fun r => Ok (s :: r)))
  end.

(* CssClass.__str__ and VttContext.style_block *)
Definition css_class_string (x : bool * Z) : text :=
  let '(bg, c) := x in
  [58; 58; 99; 117; 101; 40; 46] ++ class_name bg c ++ [41; 32; 123; 10; 32; 32] ++
  (if bg then [98; 97; 99; 107; 103; 114; 111; 117; 110; 100; 45; 99; 111; 108; 111; 114] else [99; 111; 108; 111; 114]) ++
  [58; 32] ++ color_string c ++ [59; 10; 125].
Definition style_block (s : css_state) : text :=
  match s with
  | [] => []
  | _ => [83; 84; 89; 76; 69; 10] ++
         [58; 58; 99; 117; 101; 32; 123; 10; 32; 32; 98; 97; 99; 107; 103; 114; 111; 117; 110; 100; 45; 99; 111; 108; 111; 114; 58; 32;
          116; 114; 97; 110; 115; 112; 97; 114; 101; 110; 116; 59; 10; 125; 10] ++
         join_text [10] (map css_class_string s) ++ [10; 10]
  end.
Definition webvtt_header : text := [87; 69; 66; 86; 84; 84; 10; 10].

Definition vtt_cues (cfg : vtt_config) (seq : list (Q * list elem)) : res (list cue * css_state) :=
  match vtt_filters cfg with
  | None => Err errConfig
  | Some fs => bind (vtt_loop cfg fs seq (mkVttState 0 [])) (fun r => Ok (finish_cues true vtt_blank (fst r), v_css (snd r)))
  end.
Definition vtt_of_seq (cfg : vtt_config) (seq : res (list (Q * list elem))) : res text :=
  bind seq (fun s => bind (vtt_cues cfg s) (fun r =>
  bind (vtt_strings (fst r)) (fun ss => Ok (webvtt_header ++ style_block (snd r) ++ join_text [10] ss)))).
(* vtt.writer.from_model(doc, VTTWriterConfiguration(line_position, text_align, cue_id)) *)
Definition vtt_from_model (d : doc) (cfg : vtt_config) : res text := vtt_of_seq cfg (isd_sequence d).
