(* M for C12: transcription of ttconv/time_code.py (SmpteTimeCode, ClockTime) over Z.
   Python's int/int true division followed by floor is modelled by Z division (identical for
   operands below 2^53; checked exhaustively over 24 h at every rate by the correspondence run). *)
From TT Require Import Base.Prelude.

Record rate := mkRate { rn : Z ; rd : Z }.   (* frame rate rn/rd, as fractions.Fraction *)
Definition label := (Z * Z * Z * Z)%type.     (* hours, minutes, seconds, frames *)

Definition r24 := mkRate 24 1.       Definition r25 := mkRate 25 1.
Definition r30 := mkRate 30 1.       Definition r50 := mkRate 50 1.
Definition r60 := mkRate 60 1.       Definition r2997 := mkRate 30000 1001.
Definition r5994 := mkRate 60000 1001.  Definition r23976 := mkRate 24000 1001.

(* is_drop_frame: frame_rate.denominator == 1001 *)
Definition is_df (r : rate) : bool := rd r =? 1001.
(* ceil(frame_rate) *)
Definition ndf (r : rate) : Z := ceil_div (rn r) (rd r).
(* round(60 * frame_rate), round(10 * 60 * frame_rate), round(60 * (ndf - frame_rate)) *)
Definition one_minute (r : rate) : Z := round_he (60 * rn r) (rd r).
Definition ten_minutes (r : rate) : Z := round_he (600 * rn r) (rd r).
Definition drop_per_minute (r : rate) : Z := round_he (60 * (ndf r * rd r - rn r)) (rd r).

(* the drop-frame compensation of from_frames with explicit constants *)
Definition adjust_c (T O D n : Z) : Z :=
  let tens := n / T in
  let rem := n mod T in
  let mins := (rem - D) / O in
  let mins := if mins <? 0 then 0 else mins in
  n + D * 9 * tens + mins * D.

Definition adjust (r : rate) (n : Z) : Z :=
  if is_df r then adjust_c (ten_minutes r) (one_minute r) (drop_per_minute r) n else n.

Definition label_of (fps a : Z) : label :=
  (a / (60 * 60 * fps), (a / (60 * fps)) mod 60, (a / fps) mod 60, a mod fps).

(* SmpteTimeCode.from_frames *)
Definition from_frames (r : rate) (n : Z) : label := label_of (ndf r) (adjust r n).

(* SmpteTimeCode.to_frames *)
Definition to_frames (r : rate) (l : label) : Z :=
  let '(h, m, s, f) := l in
  let secs := h * 3600 + m * 60 + s in
  if is_df r then
    let D := drop_per_minute r in
    let dropped := D * 9 * (h * 6 + m / 10) + D * (m mod 10) in
    secs * ndf r + f - dropped
  else (secs * rn r) / rd r + f.

(* add_frames *)
Definition add_frames (r : rate) (k : Z) (l : label) : label := from_frames r (to_frames r l + k).

(* to_temporal_offset: Fraction(to_frames, frame_rate) = to_frames * rd / rn, as a pair *)
Definition to_temporal_offset (r : rate) (l : label) : Z * Z := (to_frames r l * rd r, rn r).

(* from_seconds for int/Fraction seconds sn/sd >= 0 (after the repair: exact product, int() truncates) *)
Definition from_seconds (r : rate) (sn sd : Z) : label := from_frames r ((sn * rn r) / (sd * rd r)).

(* ---- printing and parsing -------------------------------------------------------------- *)
Definition digit (d : Z) : Z := 48 + d.
Definition is_digit (c : Z) : bool := (48 <=? c) && (c <=? 57).
(* f'{item:02}' for 0 <= item < 100 ; larger values are printed with their natural width *)
Fixpoint digits_fuel (fuel : nat) (n : Z) (acc : text) : text :=
  match fuel with
  | O => acc
  | S k => if n <? 10 then digit n :: acc else digits_fuel k (n / 10) (digit (n mod 10) :: acc)
  end.
Definition pad2 (n : Z) : text := if n <? 10 then [48; digit n] else digits_fuel 20 n [].
Definition pad3 (n : Z) : text :=
  if n <? 10 then [48; 48; digit n] else if n <? 100 then 48 :: digits_fuel 20 n [] else digits_fuel 20 n [].

Definition colon := 58.  Definition semicolon := 59.  Definition newline := 10.

(* SmpteTimeCode.__str__ *)
Definition print_tc (r : rate) (l : label) : text :=
  let '(h, m, s, f) := l in
  pad2 h ++ [colon] ++ pad2 m ++ [colon] ++ pad2 s ++ [if is_df r then semicolon else colon] ++ pad2 f.

Definition two_digits (a b : Z) : option Z :=
  if is_digit a && is_digit b then Some ((a - 48) * 10 + (b - 48)) else None.

(* re.match of NN sep NN sep NN sep NN at the start of the string; sep_ok decides a separator *)
Definition match_tc (sep_ok : Z -> bool) (t : text) : option label :=
  match t with
  | h1 :: h2 :: s1 :: m1 :: m2 :: s2 :: c1 :: c2 :: s3 :: f1 :: f2 :: _ =>
      if sep_ok s1 && sep_ok s2 && sep_ok s3 then
        match two_digits h1 h2, two_digits m1 m2, two_digits c1 c2, two_digits f1 f2 with
        | Some h, Some m, Some s, Some f => Some (h, m, s, f)
        | _, _, _, _ => None
        end
      else None
  | _ => None
  end.

(* SmpteTimeCode.parse: the NDF pattern first, then the DF pattern whose separator group is
   (:|;|.|,) with an unescaped dot, i.e. any character but a newline *)
Definition parse_tc (t : text) (base : rate) : option (label * rate) :=
  match match_tc (fun c => c =? colon) t with
  | Some l => Some (l, base)
  | None =>
      let base' := if rd base =? 1001 then base
                   else let n := rn base * 1000 in let d := rd base * 1001 in
                        let g := Z.gcd n d in mkRate (n / g) (d / g) in
      match match_tc (fun c => negb (c =? newline)) t with
      | Some l => Some (l, base')
      | None => None
      end
  end.

(* ---- ClockTime ------------------------------------------------------------------------ *)
(* ClockTime.from_seconds on a non-negative Fraction n/d: round(x, 3) half-even, then fields *)
Definition clock_ms (n d : Z) : Z := round_he (1000 * n) d.
Definition clock_fields (ms : Z) : label :=
  (ms / 3600000, (ms / 60000) mod 60, (ms / 1000) mod 60, ms mod 1000).
Definition clock_from_seconds (n d : Z) : option label :=
  if n <? 0 then None else Some (clock_fields (clock_ms n d)).
(* ClockTime.__str__ with separator sep *)
Definition print_clock (sep : Z) (l : label) : text :=
  let '(h, m, s, ms) := l in pad2 h ++ [colon] ++ pad2 m ++ [colon] ++ pad2 s ++ [sep] ++ pad3 ms.
