(* The shared Gallina model of the canonical document (ttconv/model.py), of style values
   (ttconv/style_properties.py) and of style maps.  Used by the ISD model (C01, C02, C03, C13, C14)
   and by the ISD filters / writers.  No proofs here. *)
From Coq Require Export QArith Qminmax.
From TT Require Export Base.Prelude.

(* ---- lengths and style values ------------------------------------------------------------- *)
Inductive unit_ := Uem | Upct | Urh | Urw | Uc | Upx.
Definition unit_eqb (a b : unit_) : bool :=
  match a, b with
  | Uem, Uem | Upct, Upct | Urh, Urh | Urw, Urw | Uc, Uc | Upx, Upx => true
  | _, _ => false
  end.
Record len := mkLen { lv : Q ; lu : unit_ }.

(* one constructor per Python value class; enumerations are numbered in definition order (the numbers of the
   members the algorithms mention are regenerated from the source in Gen/StyleTables.v) *)
Inductive value :=
| VEnum (tag : Z)                                   (* Enum members, and booleans (0/1) *)
| VSpecial (tag : Z)                                (* SpecialValues: 0 = none, 1 = normal *)
| VColor (rgba : Z)                                 (* ColorType RGBA8, packed *)
| VNum (q : Q)                                      (* opacity, luminanceGain, shear *)
| VLen (l : len)
| VExtent (h w : len)
| VCoord (x y : len)
| VPos (h : len) (he : Z) (v : len) (ve : Z)        (* PositionType: offsets and edges *)
| VPad (b e a s : len)                              (* PaddingType: before end after start *)
| VFonts (fs : list (Z * text))                     (* (generic family number, []) or (-1, name) *)
| VTextDec (u l o : Z)                              (* -1 None, 0 False, 1 True per component *)
| VEmph (style : Z) (color : option Z) (pos : Z)
| VOutline (color : option Z) (t : len)
| VShadow (ss : list (len * len * option len * option Z))   (* x, y, blur, colour *)
| VReserve (pos : Z) (l : option len).

(* ---- style maps ---------------------------------------------------------------------------- *)
Definition smap := list (Z * value).          (* style property number -> value; keys unique *)
Fixpoint sget (m : smap) (p : Z) : option value :=
  match m with [] => None | (k, v) :: m' => if k =? p then Some v else sget m' p end.
Definition shas (m : smap) (p : Z) : bool := match sget m p with Some _ => true | None => false end.
Fixpoint sset (m : smap) (p : Z) (v : value) : smap :=
  match m with
  | [] => [(p, v)]
  | (k, w) :: m' => if k =? p then (k, v) :: m' else (k, w) :: sset m' p v
  end.
Fixpoint sdel (m : smap) (p : Z) : smap :=
  match m with [] => [] | (k, w) :: m' => if k =? p then m' else (k, w) :: sdel m' p end.
Definition skeys (m : smap) : list Z := map fst m.
(* sorted by key, for comparison with the implementation's dict *)
Fixpoint sinsert (kv : Z * value) (m : smap) : smap :=
  match m with [] => [kv] | (k, w) :: m' => if fst kv <=? k then kv :: (k, w) :: m' else (k, w) :: sinsert kv m' end.
Definition ssort (m : smap) : smap := fold_right sinsert [] m.

(* ---- elements and documents ------------------------------------------------------------------ *)
Inductive kind := KRegion | KBody | KDiv | KP | KSpan | KBr | KText | KRuby | KRb | KRt | KRp | KRbc | KRtc.
Definition kind_eqb (a b : kind) : bool :=
  match a, b with
  | KRegion, KRegion | KBody, KBody | KDiv, KDiv | KP, KP | KSpan, KSpan | KBr, KBr | KText, KText
  | KRuby, KRuby | KRb, KRb | KRt, KRt | KRp, KRp | KRbc, KRbc | KRtc, KRtc => true
  | _, _ => false
  end.
Definition kind_num (k : kind) : Z :=
  match k with KRegion => 0 | KBody => 1 | KDiv => 2 | KP => 3 | KSpan => 4 | KBr => 5 | KText => 6
             | KRuby => 7 | KRb => 8 | KRt => 9 | KRp => 10 | KRbc => 11 | KRtc => 12 end.

Record anim := mkAnim { a_prop : Z ; a_begin : option Q ; a_end : option Q ; a_val : value }.

(* regions are referred to by their xml:id (model.py compares region objects by identity; under
   well-formedness — C15 — a reference is the region registered under that id) *)
Record attrs := mkAttrs {
  e_kind : kind ; e_id : option text ; e_begin : option Q ; e_end : option Q ; e_region : option text ;
  e_styles : smap ; e_anims : list anim ; e_preserve : bool ; e_lang : text ; e_text : text }.
Inductive elem := Elem (a : attrs) (cs : list elem).
Definition eattrs (e : elem) : attrs := match e with Elem a _ => a end.
Definition echildren (e : elem) : list elem := match e with Elem _ cs => cs end.

Record doc := mkDoc {
  d_regions : list elem ;            (* in put_region order *)
  d_body : option elem ;
  d_initials : smap ;
  d_rows : Z ; d_cols : Z ;          (* cell resolution *)
  d_pxh : Z ; d_pxw : Z ;            (* pixel resolution: height, width *)
  d_active : option (Q * Q * Q * Q) ;
  d_dar : option Q ;
  d_lang : text }.

(* ---- outcomes ---------------------------------------------------------------------------------- *)
Inductive res (A : Type) := Ok (a : A) | Err (code : Z).
Arguments Ok {A} a.  Arguments Err {A} code.
Definition bind {A B} (r : res A) (f : A -> res B) : res B :=
  match r with Ok a => f a | Err c => Err c end.
(* error codes *)
Definition errRubyChildren := 1.   (* ValueError from Ruby/Rtc.push_children *)
Definition errCompute := 2.        (* ValueError / AttributeError inside a style computation *)

(* ---- Q helpers ---------------------------------------------------------------------------------- *)
Definition Qleb (a b : Q) : bool := Qle_bool a b.
Definition Qltb (a b : Q) : bool := negb (Qle_bool b a).
Definition oQ_eqb (a b : option Q) : bool :=
  match a, b with Some x, Some y => Qeq_bool x y | None, None => true | _, _ => false end.
Definition qz (z : Z) : Q := inject_Z z.
