(* helpers evaluated by the generated C11 case files (coq/Gen/Cases_C11_*.v):
     tokenizer:  M = code                           (cases_tok)
     reader:     M = code, geometry within 1e-9      (cases_model)
   The S-side helpers (judging the code's output by Spec/VttSpec.v) are in Proofs/C11/SpecCases.v so that
   this file depends on the model only. *)
From Coq Require Import QArith Qminmax Qabs Qround.
From TT Require Import Base.Prelude Gen.VttTables Model.VttTokenizer Model.VttReader.
Local Open Scope Z_scope.

Definition tol : Q := Qmake 1 1000000000.
Definition q_close (a b : Q) : bool := Qle_bool (Qabs (a - b)) tol.

Definition oq_eqb (a b : option Q) : bool := opt_eqb Qeq_bool a b.
Definition oz_eqb (a b : option Z) : bool := opt_eqb Z.eqb a b.
Definition nkind_eqb (a b : nkind) : bool :=
  match a, b with KSpan, KSpan | KRb, KRb | KRt, KRt => true | _, _ => false end.
(* set_lang("") cannot be told from a language that was never set: both read back as "" *)
Definition norm_lang (l : option text) : option text := match l with Some [] => None | _ => l end.
Definition attrs_eqb (a b : attrs) : bool :=
  oq_eqb (a_begin a) (a_begin b) && oz_eqb (a_bg a) (a_bg b) && oz_eqb (a_color a) (a_color b) &&
  Bool.eqb (a_bold a) (a_bold b) && Bool.eqb (a_italic a) (a_italic b) && Bool.eqb (a_under a) (a_under b) &&
  opt_eqb text_eqb (norm_lang (a_lang a)) (norm_lang (a_lang b)).

Fixpoint elem_eqb (x y : elem) {struct x} : bool :=
  let fix list_eqb (l m : list elem) {struct l} : bool :=
    match l, m with
    | [], [] => true
    | a :: l', b :: m' => elem_eqb a b && list_eqb l' m'
    | _, _ => false
    end in
  match x, y with
  | EText s, EText t => text_eqb s t
  | EBr, EBr => true
  | ENode k a cs, ENode k' a' cs' => nkind_eqb k k' && attrs_eqb a a' && list_eqb cs cs'
  | ERuby b t, ERuby b' t' => list_eqb b b' && list_eqb t t'
  | _, _ => false
  end.
Fixpoint elems_eqb (l m : list elem) : bool :=
  match l, m with
  | [], [] => true
  | a :: l', b :: m' => elem_eqb a b && elems_eqb l' m'
  | _, _ => false
  end.

Definition region_close (a b : region) : bool :=
  wmode_eqb (r_wm a) (r_wm b) && q_close (r_ox a) (r_ox b) && q_close (r_oy a) (r_oy b) &&
  q_close (r_ew a) (r_ew b) && q_close (r_eh a) (r_eh b) &&
  dalign_eqb (r_da a) (r_da b) && talign_eqb (r_ta a) (r_ta b).
Fixpoint regions_close (l m : list region) : bool :=
  match l, m with
  | [], [] => true
  | a :: l', b :: m' => region_close a b && regions_close l' m'
  | _, _ => false
  end.
Definition para_eqb (a b : para) : bool :=
  Qeq_bool (pa_begin a) (pa_begin b) && Qeq_bool (pa_end a) (pa_end b) && (pa_region a =? pa_region b) &&
  elems_eqb (pa_children a) (pa_children b).
Fixpoint paras_eqb (l m : list para) : bool :=
  match l, m with
  | [], [] => true
  | a :: l', b :: m' => para_eqb a b && paras_eqb l' m'
  | _, _ => false
  end.
Definition exn_eqb (a b : exn) : bool :=
  match a, b with
  | ExAttribute, ExAttribute | ExUnboundLocal, ExUnboundLocal | ExType, ExType | ExRuntime, ExRuntime | ExValue, ExValue => true
  | _, _ => false
  end.
(* model outcome against the code's outcome *)
Definition outcome_agrees (m c : outcome) : bool :=
  match m, c with
  | OkDoc rs ps, OkDoc rs' ps' => regions_close rs rs' && paras_eqb ps ps'
  | Raised e, Raised e' => exn_eqb e e'
  | _, _ => false
  end.

Definition cases_tok (cs : list (text * list token)) : list bool :=
  map (fun c => tokens_eqb (tokenize (fst c)) (snd c)) cs.
Definition cases_model (cs : list (text * outcome)) : list bool :=
  map (fun c => outcome_agrees (to_model (fst c)) (snd c)) cs.

(* short constructors for the generated literals *)
Definition A (b : option Q) (bg col : option Z) (bo it un : bool) (l : option text) : attrs := mkAttrs b bg col bo it un l.
Definition Sp := ENode KSpan.
Definition Rb := ENode KRb.
Definition Rt := ENode KRt.

(* ================================================================ S on the code's output
   The generated files also carry the grammar derivation (Spec.VttSpec.vfile) each text was printed from.
   `judge` re-prints it (so S's printer is tied to the very text the code read), and checks every clause of
   the property on the code's outcome.  Each failed clause is reported with the recorded finding whose
   trigger covers the cue (0 = none: an unexcused contradiction of S). *)
From TT Require Import Spec.VttSpec.

(* ---- the code's tree seen as styled, timed runs *)
Definition time_ms (q : Q) : Z :=
  let m := Qfloor (q * 1000) in if Qeq_bool (q * 1000) (inject_Z m) then m else -1.
Definition nz_bg (b : option Z) : option Z :=
  match b with Some c => if c =? default_bg_color then None else Some c | None => None end.
Definition or_else {A} (a b : option A) : option A := match a with Some _ => a | None => b end.

(* Rbc holds the bases and Rtc the ruby texts: base1 text1 base2 text2 … is their interleaving *)
Fixpoint interleave (b t : list (list run)) : list run :=
  match b with
  | [] => concat t
  | x :: b' => x ++ match t with [] => interleave b' [] | y :: t' => y ++ interleave b' t' end
  end.
Fixpoint view_elem (pb : Q) (s : style) (tq : option Q) (e : elem) {struct e} : list run :=
  let fix go (s : style) (tq : option Q) (l : list elem) {struct l} : list run :=
    match l with [] => [] | x :: l' => view_elem pb s tq x ++ go s tq l' end in
  let fix each (s : style) (tq : option Q) (l : list elem) {struct l} : list (list run) :=
    match l with [] => [] | x :: l' => view_elem pb s tq x :: each s tq l' end in
  match e with
  | EText t => [RText (with_time (match tq with Some q => Some (time_ms q) | None => None end) s) t]
  | EBr => [RBreak]
  | ENode k a cs =>
    let s' := mkStyle (st_bold s || a_bold a) (st_italic s || a_italic a) (st_under s || a_under a)
                      (or_else (a_color a) (st_color s)) (or_else (nz_bg (a_bg a)) (st_bg s))
                      (or_else (a_lang a) (st_lang s))
                      (match k with KSpan => st_role s | KRb => RoleBase | KRt => RoleRt end) None in
    let tq' := match a_begin a with
               | Some b => Some ((match tq with Some q => q | None => pb end) + b)%Q
               | None => tq
               end in
    go s' tq' cs
  | ERuby b t => interleave (each s tq b) (each s tq t)
  end.
Definition view_para (p : para) : list run :=
  merge_runs (flat_map (view_elem (pa_begin p) plain_style None) (pa_children p)).

Definition wm_code (w : wmode) : Z := match w with LRTB => 0 | RLTB => 1 | TBLR => 2 | TBRL => 3 end.
Definition da_code (d : dalign) : Z := match d with DABefore => 0 | DACenter => 1 | DAAfter => 2 end.
Definition ta_code (t : talign) : Z := match t with TAStart => 0 | TACenter => 1 | TAEnd => 2 end.
Definition view_region (r : region) : region_view :=
  mkRV (wm_code (r_wm r)) (r_ox r) (r_oy r) (r_ew r) (r_eh r) (da_code (r_da r)) (ta_code (r_ta r)).

(* ---- trigger of the one recorded finding, on the grammar derivation *)
Fixpoint any_node (p : cnode -> bool) (n : cnode) : bool :=
  let fix go (l : list cnode) : bool := match l with [] => false | x :: l' => any_node p x || go l' end in
  let fix gs (sg : list (list cnode * list cnode)) : bool :=
    match sg with [] => false | (b, t) :: sg' => go b || go t || gs sg' end in
  p n ||
  match n with
  | CTag _ cs => go cs
  | COpen _ cs => go cs
  | CRuby segs => gs segs
  | CRubyOmit segs => gs segs
  | _ => false
  end.
(* 7 ruby-structure: ruby inside another tag; a base that is not one line of plain text (markup, a line break, or a
   timestamp / ignored end tag between two pieces of text, which splits the base); a line break or a ruby in rt.
   Ignored end tags before or after the text of a base split nothing and are not covered. *)
Definition plain_line (n : cnode) : bool :=
  match n with CText t => negb (mem_z 10 t) | CRef _ => true | _ => false end.
Definition has_lf (n : cnode) : bool := match n with CText t => mem_z 10 t | _ => false end.
Definition is_end (n : cnode) : bool := match n with CEnd _ => true | _ => false end.
Definition is_ruby (n : cnode) : bool := match n with CRuby _ | CRubyOmit _ => true | _ => false end.
Fixpoint drop_ends (l : list cnode) : list cnode :=
  match l with x :: l' => if is_end x then drop_ends l' else l | [] => [] end.
Definition base_core (b : list cnode) : list cnode := rev (drop_ends (rev (drop_ends b))).
Definition segs_bad (segs : list (list cnode * list cnode)) : bool :=
  existsb (fun sg : list cnode * list cnode =>
             is_nil (fst sg) || negb (forallb plain_line (base_core (fst sg))) ||
             existsb (any_node has_lf) (snd sg) ||
             existsb (any_node is_ruby) (snd sg)) segs.
Definition ruby_bad (n : cnode) : bool :=
  match n with
  | CRuby segs => segs_bad segs
  | CRubyOmit segs => segs_bad segs
  | CTag _ cs => existsb (any_node is_ruby) cs
  | COpen _ cs => existsb (any_node is_ruby) cs
  | _ => false
  end.
Definition trig_ruby (l : list cnode) : bool := existsb (any_node ruby_bad) l.

Definition text_finding (l : list cnode) : Z := if trig_ruby l then 7 else 0.

(* ---- clauses.  Codes: 1 printer/text mismatch or derivation outside cue_text_valid (harness), 2 exception, 3 cue count, 10 begin/end,
   20 region inside the root container, 21 writing mode / text alignment / display alignment, 22 edge fixed by the
   line setting, 30 text runs, 40 region sharing *)
Definition settings_text (c : cue) : text := flat_map (fun s => 32 :: print_setting s) (c_settings c).
Definition time_ok (t : tstamp) (q : Q) : bool := Qeq_bool q (Qmake (ts_ms t) 1000).

Definition expected_runs (c : cue) : list run := runs_cue (c_payload c).

(* the clause code of the k-th cue of the file (k from 0) is reported as clause + 1000 * k *)
Fixpoint judge_cues (k : Z) (rs : list region) (cs : list cue) (ps : list para) : list (Z * Z) :=
  match cs, ps with
  | c :: cs', p :: ps' =>
    map (fun cf : Z * Z => (fst cf + 1000 * k, snd cf))
      ((if time_ok (c_begin c) (pa_begin p) && time_ok (c_end c) (pa_end p) then [] else [(10, 0)]) ++
       (match nth_error rs (Z.to_nat (pa_region p)) with
        | Some r =>
          let v := view_region r in
          (* containment, mode and alignments, the edge fixed by the line setting: no recorded finding excuses them *)
          (if region_inside v then [] else [(20, 0)]) ++
          (if region_align_ok (c_settings c) v then [] else [(21, 0)]) ++
          (if line_edge_ok (c_settings c) v then [] else [(22, 0)])
        | None => [(20, 0)]
        end) ++
       (if runs_eq (view_para p) (expected_runs c) then [] else [(30, text_finding (c_payload c))])) ++
    judge_cues (k + 1) rs cs' ps'
  | _, _ => []
  end.
Fixpoint sharing (cs : list cue) (ps : list para) : bool :=
  match cs, ps with
  | c :: cs', p :: ps' =>
    (fix inner (cs2 : list cue) (ps2 : list para) : bool :=
       match cs2, ps2 with
       | c2 :: cs2', p2 :: ps2' =>
         (negb (text_eqb (settings_text c) (settings_text c2)) || (pa_region p =? pa_region p2)) && inner cs2' ps2'
       | _, _ => true
       end) cs' ps' && sharing cs' ps'
  | _, _ => true
  end.

(* an exception aborts the whole file; it is excused only if some cue of the file carries a construct on which
   the recorded finding makes the parser raise: bad ruby structure (7) *)
Definition exc_finding (cs : list cue) : Z :=
  if existsb (fun c => trig_ruby (c_payload c)) cs then 7 else 0.

Definition judge (f : vfile) (txt : text) (o : outcome) : list (Z * Z) :=
  if negb (text_eqb (print_file f) txt) then [(1, 0)] else
  (* the derivation must satisfy the side condition under which S gives it a meaning (ignored end tags, unclosed elements) *)
  if negb (forallb (fun c => cue_text_valid (c_payload c)) (cues_of f)) then [(1, 0)] else
  let cs := shown_cues f in
  match o with
  | Raised _ => [(2, exc_finding cs)]
  | OkDoc rs ps =>
    if negb (length ps =? length cs)%nat
    then [(3, 0)]
    else judge_cues 0 rs cs ps ++ (if sharing cs ps then [] else [(40, 0)])
  end.
(* per case: (clause, finding) pairs; the harness reads the printed list *)
Definition cases_spec (cs : list (vfile * text * outcome)) : list (list (Z * Z)) :=
  map (fun c => judge (fst (fst c)) (snd (fst c)) (snd c)) cs.

(* writer round trip: the cues an independent scan of the written text finds (begin ms, end ms, visible text
   with line breaks as LF) against the paragraphs the reader returned *)
Fixpoint plain_text (e : elem) : text :=
  let fix go (l : list elem) : text := match l with [] => [] | x :: l' => plain_text x ++ go l' end in
  match e with
  | EText t => t
  | EBr => [10]
  | ENode _ _ cs => go cs
  | ERuby b t => go b ++ go t
  end.
Definition cue_matches (c : Z * Z * text) (p : para) : bool :=
  let '(b, e, t) := c in
  Qeq_bool (pa_begin p) (Qmake b 1000) && Qeq_bool (pa_end p) (Qmake e 1000) &&
  text_eqb (flat_map plain_text (pa_children p)) t.
Fixpoint cues_match (cs : list (Z * Z * text)) (ps : list para) : bool :=
  match cs, ps with
  | [], [] => true
  | c :: cs', p :: ps' => cue_matches c p && cues_match cs' ps'
  | _, _ => false
  end.
Definition cases_written (cs : list (list (Z * Z * text) * outcome)) : list bool :=
  map (fun c => match snd c with OkDoc _ ps => cues_match (fst c) ps | Raised _ => false end) cs.
