(* helpers evaluated by the generated C11 case files (coq/Gen/Cases_C11_*.v):
     tokenizer:  M = code                           (cases_tok)
     reader:     M = code, geometry within 1e-9      (cases_model)
   The S-side helpers (judging the code's output by Spec/VttSpec.v) are in Proofs/C11/SpecCases.v so that
   this file depends on the model only. *)
From Coq Require Import QArith Qminmax Qabs.
From TT Require Import Base.Prelude Gen.VttTables Model.VttTokenizer Model.VttReader.
Local Open Scope Z_scope.

Definition tol : Q := Qmake 1 1000000000.
Definition q_close (a b : Q) : bool := Qle_bool (Qabs (a - b)) tol.

Definition oq_eqb (a b : option Q) : bool := opt_eqb Qeq_bool a b.
Definition oz_eqb (a b : option Z) : bool := opt_eqb Z.eqb a b.
Definition nkind_eqb (a b : nkind) : bool :=
  match a, b with KSpan, KSpan | KRb, KRb | KRt, KRt => true | _, _ => false end.
Definition attrs_eqb (a b : attrs) : bool :=
  oq_eqb (a_begin a) (a_begin b) && oz_eqb (a_bg a) (a_bg b) && oz_eqb (a_color a) (a_color b) &&
  Bool.eqb (a_bold a) (a_bold b) && Bool.eqb (a_italic a) (a_italic b) && Bool.eqb (a_under a) (a_under b) &&
  opt_eqb text_eqb (a_lang a) (a_lang b).

Fixpoint elem_eqb (x y : elem) {struct x} : bool :=
  let fix list_eqb (l m : list elem) {struct l} : bool :=
    match l, m with
    | [], [] => true
    | a :: l', b :: m' => elem_eqb a b && list_eqb l' m'
    | _, _ => false
    end in
  match x, y with
  | EText s, EText t => text_eqb s t
  | EBr, EBr => true
  | ENode k a cs, ENode k' a' cs' => nkind_eqb k k' && attrs_eqb a a' && list_eqb cs cs'
  | ERuby b t, ERuby b' t' => list_eqb b b' && list_eqb t t'
  | _, _ => false
  end.
Fixpoint elems_eqb (l m : list elem) : bool :=
  match l, m with
  | [], [] => true
  | a :: l', b :: m' => elem_eqb a b && elems_eqb l' m'
  | _, _ => false
  end.

Definition region_close (a b : region) : bool :=
  wmode_eqb (r_wm a) (r_wm b) && q_close (r_ox a) (r_ox b) && q_close (r_oy a) (r_oy b) &&
  q_close (r_ew a) (r_ew b) && q_close (r_eh a) (r_eh b) &&
  dalign_eqb (r_da a) (r_da b) && talign_eqb (r_ta a) (r_ta b).
Fixpoint regions_close (l m : list region) : bool :=
  match l, m with
  | [], [] => true
  | a :: l', b :: m' => region_close a b && regions_close l' m'
  | _, _ => false
  end.
Definition para_eqb (a b : para) : bool :=
  Qeq_bool (pa_begin a) (pa_begin b) && Qeq_bool (pa_end a) (pa_end b) && (pa_region a =? pa_region b) &&
  elems_eqb (pa_children a) (pa_children b).
Fixpoint paras_eqb (l m : list para) : bool :=
  match l, m with
  | [], [] => true
  | a :: l', b :: m' => para_eqb a b && paras_eqb l' m'
  | _, _ => false
  end.
Definition exn_eqb (a b : exn) : bool :=
  match a, b with
  | ExAttribute, ExAttribute | ExUnboundLocal, ExUnboundLocal | ExType, ExType | ExRuntime, ExRuntime | ExValue, ExValue => true
  | _, _ => false
  end.
(* model outcome against the code's outcome *)
Definition outcome_agrees (m c : outcome) : bool :=
  match m, c with
  | OkDoc rs ps, OkDoc rs' ps' => regions_close rs rs' && paras_eqb ps ps'
  | Raised e, Raised e' => exn_eqb e e'
  | _, _ => false
  end.

Definition cases_tok (cs : list (text * list token)) : list bool :=
  map (fun c => tokens_eqb (tokenize (fst c)) (snd c)) cs.
Definition cases_model (cs : list (text * outcome)) : list bool :=
  map (fun c => outcome_agrees (to_model (fst c)) (snd c)) cs.

(* short constructors for the generated literals *)
Definition A (b : option Q) (bg col : option Z) (bo it un : bool) (l : option text) : attrs := mkAttrs b bg col bo it un l.
Definition Sp := ENode KSpan.
Definition Rb := ENode KRb.
Definition Rt := ENode KRt.
