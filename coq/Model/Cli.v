(* M for C19: transcription of
     ttconv/tt.py            FileTypes.get_file_type, read_config_from_json, convert (option handling), main
     ttconv/config.py        ModuleConfiguration.validate / parse, decode_bool, GeneralConfiguration
     ttconv/imsc/config.py   parse_time_expression_syntax, IMSCWriterConfiguration.FractionDecoder
     ttconv/scc/config.py    TextAlignment.from_value
     ttconv/stl/config.py    _decode_font_stack (acceptance), _decode_start_tc, _decode_max_row_count
     ttconv/srt/config.py, ttconv/vtt/config.py   (decoder = decode_bool)
     ttconv/filters/doc/lcd.py   _safe_area_decoder, _color_decoder (ttconv/utils.py parse_color)
     ttconv/filters/document_filter.py   DocumentFilter.get_filter_by_name
   over an abstract JSON value type.  `plan` maps (argv, inline --config, --config_file) to what `tt` does:
   an error (Python exception class / exit), the usage text, or the conversion plan
   reader+configuration, document language, filters+configurations in order, writer+configuration.

   CPython primitives the decoders lean on are transcribed too (int() on ASCII digit strings with its digit limit,
   str.lower/upper on the characters that can reach an ASCII literal, re's \s \d under re.ASCII and `.`, str.split,
   Fraction normalisation, posixpath.splitext, logging._checkLevel); their character tables are regenerated
   (Gen/CliUnicode.v).
   `plan_tokens` / `run_tokens` start from the raw token list: argparse as far as `tt` uses it (parse_main), then the
   plan or, with the readers, filters and writers as section variables, the run with its log of effects.
   No proofs in this file. *)
From Coq Require Import String.
From TT Require Import Base.Prelude Base.CliTypes Gen.CliUnicode.

(* ------------------------------------------------------------------ small text helpers *)
Definition mem (c : Z) (l : list Z) : bool := existsb (Z.eqb c) l.
Fixpoint assocZ {A} (c : Z) (l : list (Z * A)) : option A :=
  match l with [] => None | (k, v) :: r => if c =? k then Some v else assocZ c r end.
Fixpoint assocT {A} (k : text) (l : list (text * A)) : option A :=
  match l with [] => None | (k', v) :: r => if text_eqb k k' then Some v else assocT k r end.
(* dict.get on a dict built by json.loads: last occurrence of the key *)
Definition obj_get (k : text) (l : list (text * json)) : option json :=
  fold_left (fun acc kv => if text_eqb k (fst kv) then Some (snd kv) else acc) l None.
Fixpoint strip_prefix (p s : text) : option text :=
  match p, s with
  | [], _ => Some s
  | a :: p', b :: s' => if a =? b then strip_prefix p' s' else None
  | _ :: _, [] => None
  end.
Fixpoint skip (p : Z -> bool) (s : text) : text :=
  match s with c :: r => if p c then skip p r else s | [] => [] end.
Fixpoint span (p : Z -> bool) (s : text) : text * text :=
  match s with
  | c :: r => if p c then let (a, b) := span p r in (c :: a, b) else ([], s)
  | [] => ([], [])
  end.
(* str.rfind-like split at the last occurrence of c: Some (before, after) *)
Fixpoint rsplit (c : Z) (s : text) : option (text * text) :=
  match s with
  | [] => None
  | x :: t => match rsplit c t with
              | Some (a, b) => Some (x :: a, b)
              | None => if x =? c then Some ([], t) else None
              end
  end.
(* str.split(sep) for a one-character separator *)
Fixpoint split_on (c : Z) (s : text) : list text :=
  match s with
  | [] => [[]]
  | x :: t => if x =? c then [] :: split_on c t
              else match split_on c t with h :: r => (x :: h) :: r | [] => [[x]] end
  end.

(* str.lower()/str.upper(): exact on ASCII; a non-ASCII character is replaced by its image when that image is
   pure ASCII (Gen/CliUnicode.v: KELVIN SIGN -> k; dotless i, long s, sharp s, ligatures for upper) and is kept
   otherwise — the results are only ever compared with ASCII literals, for which this is exact. *)
Definition ascii_lower (c : Z) : Z := if (65 <=? c) && (c <=? 90) then c + 32 else c.
Definition ascii_upper (c : Z) : Z := if (97 <=? c) && (c <=? 122) then c - 32 else c.
Definition py_lower (s : text) : text :=
  flat_map (fun c => if c <? 128 then [ascii_lower c] else match assocZ c lower_ascii with Some i => i | None => [c] end) s.
Definition py_upper (s : text) : text :=
  flat_map (fun c => if c <? 128 then [ascii_upper c] else match assocZ c upper_ascii with Some i => i | None => [c] end) s.

Definition re_dot (c : Z) : bool := negb (mem c re_dot_excluded).       (* `.` without DOTALL *)
Definition is_d (c : Z) : bool := (48 <=? c) && (c <=? 57).               (* [0-9]; also \d under re.ASCII *)
Definition is_ascii_space (c : Z) : bool := mem c re_ascii_spaces.        (* \s under re.ASCII *)
Definition hexval (c : Z) : option Z :=
  if is_d c then Some (c - 48) else if (65 <=? c) && (c <=? 70) then Some (c - 55)
  else if (97 <=? c) && (c <=? 102) then Some (c - 87) else None.

(* int(s) for a non-empty string of ASCII digits (the only strings the repaired decoders hand to int()):
   more than sys.get_int_max_str_digits() digits -> ValueError *)
Definition dstep (acc c : Z) : Z := acc * 10 + (c - 48).
Definition dval (s : text) : Z := fold_left dstep s 0.
Definition all_d (s : text) : bool := match s with [] => false | _ => forallb is_d s end.     (* [0-9]+ *)
Definition int_of_digits (s : text) : res Z :=
  if int_max_str_digits <? Z.of_nat (length s) then Raise EValue else Ok (dval s).
Definition is_null (v : json) : bool := match v with JNull => true | _ => false end.

(* ---- the decoders, one per `metadata={"decoder": ...}` *)
(* ttconv/config.py decode_bool: anything but a JSON boolean -> ValueError *)
Definition dec_bool (v : json) : res bool :=
  match v with JBool b => Ok b | _ => Raise EValue end.

(* imsc/config.py parse_time_expression_syntax: None -> None; `not in` the three values -> ValueError *)
Definition dec_time_format (v : json) : res (option tfmt) :=
  match v with
  | JNull => Ok None
  | JStr s => if text_eqb s (T "frames") then Ok (Some TfFrames)
              else if text_eqb s (T "clock_time") then Ok (Some TfClockTime)
              else if text_eqb s (T "clock_time_with_frames") then Ok (Some TfClockTimeWithFrames)
              else Raise EValue
  | _ => Raise EValue
  end.

(* Fraction(n, d) of two ints: normalised, sign carried by the numerator *)
Definition fraction (n d : Z) : res (Z * Z) :=
  if d =? 0 then Raise EZeroDivision
  else let g := Z.gcd n d in let g := if d <? 0 then - g else g in Ok (n / g, d / g).
(* IMSCWriterConfiguration.FractionDecoder: _FPS_PATTERN = ([0-9]+)/([0-9]+), fullmatch, only on a str;
   no match, or int(num) == 0, or int(den) == 0 -> ValueError; Fraction(int(num), int(den)) *)
Definition dec_fps (v : json) : res (option (Z * Z)) :=
  match v with
  | JNull => Ok None
  | JStr s => match split_on 47 s with
              | [a; b] => if all_d a && all_d b
                          then do n <- int_of_digits a;
                               if n =? 0 then Raise EValue
                               else do d <- int_of_digits b;
                                    if d =? 0 then Raise EValue else do f <- fraction n d; Ok (Some f)
                          else Raise EValue
              | _ => Raise EValue
              end
  | _ => Raise EValue
  end.

(* scc/config.py TextAlignment.from_value: first member (LEFT, CENTER, RIGHT, AUTO) whose label equals value.lower() *)
Definition dec_scc_text_align (v : json) : res scc_align :=
  match v with
  | JStr s => let l := py_lower s in
              if text_eqb l (T "left") then Ok AlLeft else if text_eqb l (T "center") then Ok AlCenter
              else if text_eqb l (T "right") then Ok AlRight else if text_eqb l (T "auto") then Ok AlAuto
              else Raise EValue
  | _ => Raise EValue                                   (* not a str: no label is equal to it *)
  end.

(* stl/config.py _decode_start_tc; the two SMPTE patterns are used with re.fullmatch and the drop-frame pattern's
   separators are (:|;|.|,) with an unescaped dot *)
Definition ndf_match (s : text) : bool :=
  match s with
  | [a; b; x; c; d; y; e; f; z; g; h] =>
      is_d a && is_d b && (x =? 58) && is_d c && is_d d && (y =? 58) && is_d e && is_d f && (z =? 58) && is_d g && is_d h
  | _ => false
  end.
Definition df_sep (c : Z) : bool := (c =? 58) || (c =? 59) || re_dot c || (c =? 44).
Definition df_match (s : text) : bool :=
  match s with
  | [a; b; x; c; d; y; e; f; z; g; h] =>
      is_d a && is_d b && df_sep x && is_d c && is_d d && df_sep y && is_d e && is_d f && df_sep z && is_d g && is_d h
  | _ => false
  end.
Definition dec_start_tc (v : json) : res (option text) :=
  match v with
  | JNull => Ok None
  | JStr s => if text_eqb (py_upper s) (T "TCP") then Ok (Some (T "TCP"))
              else if df_match s || ndf_match s then Ok (Some s)
              else Raise EValue
  | _ => Raise EValue                                   (* not isinstance(value, str) *)
  end.

(* stl/config.py _decode_font_stack = tuple(parse_font_families(value)); parse_font_families raises ValueError
   iff _FONT_FAMILY_PATTERN.finditer finds nothing, i.e. iff the pattern matches at no position:
     SQ(.+?)(?<!\\)SQ  |  DQ(.+?)(?<!\\)DQ  |  (?:\\.|[^ SQ DQ , space])(?:\\.|[^ SQ DQ ,])*
   where SQ is the apostrophe (39) and DQ the quotation mark (34); the third alternative matches as soon as
   its first unit does *)
Fixpoint quoted_close (q prev : Z) (r : text) : bool :=
  match r with
  | c :: r' => if (c =? q) && negb (prev =? 92) then true else if re_dot c then quoted_close q c r' else false
  | [] => false
  end.
Definition quoted_ok (q : Z) (body : text) : bool :=
  match body with c0 :: r => if re_dot c0 then quoted_close q c0 r else false | [] => false end.
Definition unit_esc (s : text) : option text :=                        (* \\. *)
  match s with c0 :: c :: r => if (c0 =? 92) && re_dot c then Some r else None | _ => None end.
Definition unit1_plain (s : text) : option text :=                     (* none of SQ DQ , space *)
  match s with c :: r => if mem c [39; 34; 44; 32] then None else Some r | [] => None end.
Definition noquote_match (s : text) : bool :=
  (match unit_esc s with Some _ => true | None => false end) ||
  (match unit1_plain s with Some _ => true | None => false end).
Definition font_match_at (s : text) : bool :=
  (match s with 39 :: b => quoted_ok 39 b | _ => false end) ||
  (match s with 34 :: b => quoted_ok 34 b | _ => false end) || noquote_match s.
Fixpoint font_any (s : text) : bool :=
  font_match_at s || match s with _ :: r => font_any r | [] => false end.
Definition dec_font_stack (v : json) : res (option text) :=
  match v with
  | JNull => Ok None
  | JStr s => if font_any s then Ok (Some s) else Raise EValue
  | _ => Raise EValue                                   (* not isinstance(value, str) *)
  end.

(* stl/config.py _decode_max_row_count: "MNR" in any case, or an int that is not a bool *)
Definition dec_max_row_count (v : json) : res (option mrc) :=
  match v with
  | JNull => Ok None
  | JStr s => if text_eqb (py_upper s) (T "MNR") then Ok (Some MrcMNR) else Raise EValue
  | JInt z => Ok (Some (MrcInt z))
  | _ => Raise EValue
  end.

(* filters/doc/lcd.py _safe_area_decoder: an int that is not a bool, 0 <= s <= 30; anything else -> ValueError *)
Definition dec_safe_area (v : json) : res Z :=
  match v with
  | JInt z => if (z <? 0) || (30 <? z) then Raise EValue else Ok z
  | _ => Raise EValue
  end.

(* ttconv/utils.py parse_color: named colour by lower-cased name; then re.fullmatch of
     #hh hh hh (hh)?   |   rgb\(\s*(\d+)\s*,\s*(\d+)\s*,\s*(\d+)\s*\)   |   rgba\(\s*(\d+),\s*(\d+)\s*,\s*(\d+)\s*,\s*(\d+)\s*\)
   (re.ASCII for the two decimal forms); _color_component: int(digits) > 255 -> ValueError *)
Definition hex2 (a b : Z) : option Z :=
  match hexval a, hexval b with Some x, Some y => Some (16 * x + y) | _, _ => None end.
Definition match_hex (s : text) : option rgba :=
  match s with
  | c0 :: h =>
      if c0 =? 35 then
        match h with
        | [r1; r2; g1; g2; b1; b2] =>
            match hex2 r1 r2, hex2 g1 g2, hex2 b1 b2 with Some r, Some g, Some b => Some (r, g, b, 255) | _, _, _ => None end
        | [r1; r2; g1; g2; b1; b2; a1; a2] =>
            match hex2 r1 r2, hex2 g1 g2, hex2 b1 b2, hex2 a1 a2 with
            | Some r, Some g, Some b, Some a => Some (r, g, b, a)
            | _, _, _, _ => None
            end
        | _ => None
        end
      else None
  | [] => None
  end.
Definition obind {A B} (o : option A) (f : A -> option B) : option B := match o with Some a => f a | None => None end.
Definition digits1 (s : text) : option (text * text) :=
  let (d, r) := span is_d s in match d with [] => None | _ => Some (d, r) end.
(* \s*(\d+)\s* *)
Definition sp_digits_sp (s : text) : option (text * text) :=
  obind (digits1 (skip is_ascii_space s)) (fun dr => Some (fst dr, skip is_ascii_space (snd dr))).
Definition at_end {A} (a : A) (rest : text) : option A := match rest with [] => Some a | _ => None end.
Definition match_rgb (s : text) : option (text * text * text) :=
  obind (strip_prefix (T "rgb(") s) (fun s =>
  obind (sp_digits_sp s) (fun d1 => obind (strip_prefix [44] (snd d1)) (fun s =>
  obind (sp_digits_sp s) (fun d2 => obind (strip_prefix [44] (snd d2)) (fun s =>
  obind (sp_digits_sp s) (fun d3 => obind (strip_prefix [41] (snd d3)) (fun rest =>
  at_end (fst d1, fst d2, fst d3) rest))))))).
(* no \s* between the first number and its comma *)
Definition match_rgba (s : text) : option (text * text * text * text) :=
  obind (strip_prefix (T "rgba(") s) (fun s =>
  obind (digits1 (skip is_ascii_space s)) (fun d1 => obind (strip_prefix [44] (snd d1)) (fun s =>
  obind (sp_digits_sp s) (fun d2 => obind (strip_prefix [44] (snd d2)) (fun s =>
  obind (sp_digits_sp s) (fun d3 => obind (strip_prefix [44] (snd d3)) (fun s =>
  obind (sp_digits_sp s) (fun d4 => obind (strip_prefix [41] (snd d4)) (fun rest =>
  at_end (fst d1, fst d2, fst d3, fst d4) rest))))))))).
Definition color_component (digits : text) : res Z :=
  do z <- int_of_digits digits; if 255 <? z then Raise EValue else Ok z.
Definition parse_color (s : text) : res rgba :=
  match assocT (py_lower s) named_colors with
  | Some c => Ok c
  | None =>
    match match_hex s with
    | Some c => Ok c
    | None =>
      match match_rgb s with
      | Some (a, b, c) => do r <- color_component a; do g <- color_component b; do b' <- color_component c; Ok (r, g, b', 255)
      | None =>
        match match_rgba s with
        | Some (a, b, c, d) =>
            do r <- color_component a; do g <- color_component b; do b' <- color_component c; do a' <- color_component d; Ok (r, g, b', a')
        | None => Raise EValue
        end
      end
    end
  end.
(* filters/doc/lcd.py _color_decoder *)
Definition dec_color (v : json) : res (option rgba) :=
  match v with
  | JNull => Ok None
  | JStr s => do c <- parse_color s; Ok (Some c)
  | _ => Raise EValue
  end.

(* ---- general.log_level and general.document_lang: config.py _decode_log_level / _decode_document_lang let None and
   any str through as they are and raise ValueError on anything else; the str is interpreted where tt.convert uses it *)
Definition dec_str_or_null (v : json) : res json := match v with JNull | JStr _ => Ok v | _ => Raise EValue end.
(* logging._checkLevel (LOGGER.setLevel): int (bool included) as is; a str must be a registered level name *)
Definition check_level (v : json) : res Z :=
  match v with
  | JInt z => Ok z
  | JBool b => Ok (if b then 1 else 0)
  | JStr s => match assocT s log_levels with Some z => Ok z | None => Raise EValue end
  | _ => Raise EType
  end.
(* ContentDocument.set_lang: not a str -> TypeError *)
Definition check_lang (v : json) : res text :=
  match v with JStr s => Ok s | _ => Raise EType end.

(* ------------------------------------------------------------------ ModuleConfiguration.parse per class *)
(* field_value = config_dict.get(name, default); decoder(field_value).  A missing key takes the default *through*
   its decoder; the decoded defaults below are compared with Cls.parse({}) of the code (Proofs/C19/Tables.v). *)
Definition field {A} (d : list (text * json)) (name : string) (dec : json -> res A) (default : A) : res A :=
  match obj_get (T name) d with Some v => dec v | None => Ok default end.

Definition default_scc : scc_align := AlAuto.
Definition default_stl : stl_cfg := Build_stl_cfg false None false None None.
Definition default_imsc : imsc_cfg := Build_imsc_cfg None None.
Definition default_srt : bool := true.
Definition default_vtt : vtt_cfg := Build_vtt_cfg false false true.
Definition default_lcd : lcd_cfg := Build_lcd_cfg 10 false None None.
Definition default_general : json * bool * json := (JStr (T "INFO"), true, JNull).

(* GeneralConfiguration: log_level and document_lang are kept as given when None or a str, progress_bar goes through decode_bool *)
Definition parse_general (d : list (text * json)) : res (json * bool * json) :=
  do ll <- field d "log_level" dec_str_or_null (fst (fst default_general));
  do pb <- field d "progress_bar" dec_bool (snd (fst default_general));
  do dl <- field d "document_lang" dec_str_or_null (snd default_general);
  Ok (ll, pb, dl).
Definition parse_imsc (d : list (text * json)) : res imsc_cfg :=
  do tf <- field d "time_format" dec_time_format (im_time_format default_imsc);
  do fps <- field d "fps" dec_fps (im_fps default_imsc);
  Ok (Build_imsc_cfg tf fps).
Definition parse_scc (d : list (text * json)) : res scc_align :=
  field d "text_align" dec_scc_text_align default_scc.
Definition parse_stl (d : list (text * json)) : res stl_cfg :=
  do a <- field d "disable_fill_line_gap" dec_bool (st_fill_gap default_stl);
  do b <- field d "program_start_tc" dec_start_tc (st_start_tc default_stl);
  do c <- field d "disable_line_padding" dec_bool (st_line_padding default_stl);
  do e <- field d "font_stack" dec_font_stack (st_font_stack default_stl);
  do f <- field d "max_row_count" dec_max_row_count (st_max_row default_stl);
  Ok (Build_stl_cfg a b c e f).
Definition parse_srt (d : list (text * json)) : res bool :=
  field d "text_formatting" dec_bool default_srt.
Definition parse_vtt (d : list (text * json)) : res vtt_cfg :=
  do a <- field d "line_position" dec_bool (vt_line_position default_vtt);
  do b <- field d "text_align" dec_bool (vt_text_align default_vtt);
  do c <- field d "cue_id" dec_bool (vt_cue_id default_vtt);
  Ok (Build_vtt_cfg a b c).
Definition parse_lcd (d : list (text * json)) : res lcd_cfg :=
  do a <- field d "safe_area" dec_safe_area (lc_safe_area default_lcd);
  do b <- field d "preserve_text_align" dec_bool (lc_preserve_text_align default_lcd);
  do c <- field d "color" dec_color (lc_color default_lcd);
  do e <- field d "bg_color" dec_color (lc_bg_color default_lcd);
  Ok (Build_lcd_cfg a b c e).

(* tt.py read_config_from_json: json_data None -> None; not a dict -> ValueError; json_data.get(name);
   None -> None; not a dict -> ValueError; else config_class.parse(section) *)
Definition read_config {A} (name : string) (parse : list (text * json) -> res A) (data : option json) : res (option A) :=
  match data with
  | None | Some JNull => Ok None
  | Some (JObj l) =>
      match obj_get (T name) l with
      | None | Some JNull => Ok None
      | Some (JObj d) => do c <- parse d; Ok (Some c)
      | Some _ => Raise EValue                          (* the section is not a dict *)
      end
  | Some _ => Raise EValue                              (* the configuration is not a dict *)
  end.

(* ------------------------------------------------------------------ tt.py: tables *)
Definition file_types : list (text * ftype) :=
  [(T "ttml", TTML); (T "scc", SCC); (T "srt", SRT); (T "stl", STL); (T "vtt", VTT)].
Definition all_ftypes : list ftype := [TTML; SCC; SRT; STL; VTT].
(* the if/elif chains of convert: which module function is called for a file type and which configuration
   section it is given (None: the call takes no configuration, or the type has no such branch) *)
Definition reader_table : list (ftype * (string * option string)) :=
  [(TTML, ("imsc_reader", None)); (SCC, ("scc_reader", Some "scc_reader")); (STL, ("stl_reader", Some "stl_reader"));
   (SRT, ("srt_reader", None)); (VTT, ("vtt_reader", None))]%string.
Definition writer_table : list (ftype * (string * option string)) :=
  [(TTML, ("imsc_writer", Some "imsc_writer")); (SRT, ("srt_writer", Some "srt_writer")); (VTT, ("vtt_writer", Some "vtt_writer"))]%string.
(* the order of the effects of convert (statement order of its body) *)
Inductive phase := PhLoadConfig | PhInline | PhFile | PhGeneral | PhProgress | PhLevel | PhItype | PhOtype | PhRead | PhLang
                | PhFilters | PhWrite.
Definition phase_order : list phase :=
  [PhLoadConfig; PhInline; PhFile; PhGeneral; PhProgress; PhLevel; PhItype; PhOtype; PhRead; PhLang; PhFilters; PhWrite].
Definition phase_name (p : phase) : string :=
  match p with
  | PhLoadConfig => "load_config" | PhInline => "inline" | PhFile => "file" | PhGeneral => "general" | PhProgress => "progress"
  | PhLevel => "level" | PhItype => "itype" | PhOtype => "otype" | PhRead => "read" | PhLang => "lang" | PhFilters => "filters"
  | PhWrite => "write"
  end%string.
(* configuration classes: section name -> fields in dataclass order with the name of their decoder ("" = none) *)
Definition config_table : list (string * list (string * string)) :=
  [("general", [("log_level", "_decode_log_level"); ("progress_bar", "decode_bool"); ("document_lang", "_decode_document_lang")]);
   ("imsc_writer", [("time_format", "parse_time_expression_syntax"); ("fps", "FractionDecoder")]);
   ("scc_reader", [("text_align", "TextAlignment.from_value")]);
   ("stl_reader", [("disable_fill_line_gap", "decode_bool"); ("program_start_tc", "_decode_start_tc");
                   ("disable_line_padding", "decode_bool"); ("font_stack", "_decode_font_stack");
                   ("max_row_count", "_decode_max_row_count")]);
   ("srt_writer", [("text_formatting", "decode_bool")]);
   ("vtt_writer", [("line_position", "decode_bool"); ("text_align", "decode_bool"); ("cue_id", "decode_bool")]);
   ("lcd", [("safe_area", "_safe_area_decoder"); ("preserve_text_align", "decode_bool"); ("color", "_color_decoder");
            ("bg_color", "_color_decoder")])]%string.
(* argparse: sub-commands of `tt`, option strings of `convert` with their destination;
   every destination is `store` with one argument, except `filter` (append, default []) and help *)
Definition subcommands : list text := [T "convert"].
Definition option_strings : list (text * dest) :=
  [(T "-h", DHelp); (T "--help", DHelp); (T "-i", DInput); (T "--input", DInput); (T "-o", DOutput); (T "--output", DOutput);
   (T "--itype", DItype); (T "--otype", DOtype); (T "--filter", DFilter); (T "--config", DConfig); (T "--config_file", DConfigFile)].
Definition required_dests : list dest := [DInput; DOutput].

(* ------------------------------------------------------------------ tt.py: functions *)
(* FileTypes(value): lookup by value, ValueError otherwise *)
Definition file_type_of_value (v : text) : res ftype :=
  match assocT v file_types with Some t => Ok t | None => Raise EValue end.
(* FileTypes.get_file_type(file_type, file_extension); the extension is never None here *)
Definition get_file_type (file_type : option text) (ext : text) : res ftype :=
  match file_type with
  | None => let ext := match ext with 46 :: r => r | _ => ext end in file_type_of_value (py_lower ext)
  | Some t => file_type_of_value (py_lower t)
  end.
(* posixpath.splitext, second component: the last dot after the last '/', unless only dots precede it in the name *)
Definition splitext (p : text) : text :=
  match rsplit 46 p with
  | None => []
  | Some (stem, e) =>
      if mem 47 e then []                                        (* dotIndex < sepIndex *)
      else let name := match rsplit 47 stem with Some (_, b) => b | None => stem end in
           if existsb (fun c => negb (c =? 46)) name then 46 :: e else []
  end.

(* json_config_data: --config is parsed first, then --config_file overwrites it *)
Definition load_config (inl : inline_src) (fil : file_src) : res (option json) :=
  do a <- match inl with IAbsent => Ok None | IMalformed => Raise EJsonDecode | IGiven j => Ok (Some j) end;
  match fil with
  | FAbsent => Ok a
  | FUnreadable => Raise EOSError
  | FMalformed => Raise EJsonDecode
  | FGiven j => Ok (Some j)
  end.

(* DocumentFilter.get_filter_by_name: the registry holds exactly the LCD filter under its configuration name *)
Inductive filter_kind := FkLcd.
Definition filter_registry : list (text * filter_kind) := [(T "lcd", FkLcd)].
Definition get_filter_by_name (n : text) : option filter_kind := assocT n filter_registry.

(* the `for filter_name in args.filter` loop: unknown names are logged and skipped;
   doc_filter_class(filter_config or filter_config_class()) *)
Fixpoint apply_filters (names : list text) (data : option json) : res (list filter_app) :=
  match names with
  | [] => Ok []
  | n :: r =>
      match get_filter_by_name n with
      | None => apply_filters r data
      | Some FkLcd =>
          do c <- read_config "lcd" parse_lcd data;
          do rest <- apply_filters r data;
          Ok (FLcd (match c with Some c => c | None => default_lcd end) :: rest)
      end
  end.

(* the conversion plan: convert with the reader, filter and writer calls left out (they are put back in `run_convert`) *)
Definition convert (o : options) (inl : inline_src) (fil : file_src) : res plan_t :=
  do data <- load_config inl fil;
  do g <- read_config "general" parse_general data;
  let progress := match g with Some (_, pb, _) => Some pb | None => None end in
  do level <- match g with
              | Some (ll, _, _) => if is_null ll then Ok None else do z <- check_level ll; Ok (Some z)
              | None => Ok None end;
  do rt <- get_file_type (o_itype o) (splitext (o_input o));
  do wt <- get_file_type (o_otype o) (splitext (o_output o));
  do rd <- match rt with
           | TTML => Ok RdTtml
           | SCC => do c <- read_config "scc_reader" parse_scc data; Ok (RdScc c)
           | STL => do c <- read_config "stl_reader" parse_stl data; Ok (RdStl c)
           | SRT => Ok RdSrt
           | VTT => Ok RdVtt
           end;
  do lang <- match g with
             | Some (_, _, dl) => if is_null dl then Ok None else do s <- check_lang dl; Ok (Some s)
             | None => Ok None end;
  do fs <- apply_filters (o_filters o) data;
  do wr <- match wt with
           | TTML => do c <- read_config "imsc_writer" parse_imsc data; Ok (WrTtml c)
           | SRT => do c <- read_config "srt_writer" parse_srt data; Ok (WrSrt c)
           | VTT => do c <- read_config "vtt_writer" parse_vtt data; Ok (WrVtt c)
           | SCC | STL => Raise EExitUnsupported
           end;
  Ok (Build_plan_t rd lang fs wr level progress).

(* main: no sub-command -> print_help; argparse rejects an unknown sub-command (exit status 2) *)
Definition plan (a : argv) (inl : inline_src) (fil : file_src) : outcome :=
  match a with
  | NoSubcommand => OHelp
  | Subcommand n o =>
      if existsb (text_eqb n) subcommands
      then match convert o inl fil with Ok p => OPlan p | Raise e => OError e end
      else OError EExitUsage
  end.
(* what `tt` writes: the file named by -o, through the planned writer; nothing in any other outcome *)
Definition output_action (a : argv) (r : outcome) : option (text * writer) :=
  match a, r with
  | Subcommand _ o, OPlan p => Some (o_output o, p_writer p)
  | _, _ => None
  end.

(* ------------------------------------------------------------------ argparse, as far as `tt` uses it.
   Transcribed: ArgumentParser.parse_args on the `convert` sub-parser for token lists in which an option is written
   `flag value` (two tokens) or `flag=value` (one token) with the flag spelled out in full; `store` keeps the last
   value, `append` collects; a flag without a value, a value token that starts with '-', a stray positional token,
   an unknown flag, a missing required option are usage errors (exit status 2); -h/--help print the help and
   exit 0 as soon as they are met.  NOT transcribed (outside every theorem's and the generator's domain): unique-prefix
   abbreviations of long flags (allow_abbrev), `-ivalue`, `--`, value tokens that start with '-' but look like
   negative numbers or contain a space. *)
Definition starts_dash (t : text) : bool := match t with c :: _ => c =? 45 | [] => false end.
Definition lookup_flag (t : text) : option dest := assocT t option_strings.
(* str.split('=', 1) when '=' occurs *)
Fixpoint split_eq (t : text) : option (text * text) :=
  match t with
  | [] => None
  | c :: r => if c =? 61 then Some ([], r)
              else match split_eq r with Some (a, b) => Some (c :: a, b) | None => None end
  end.
Definition empty_ns : namespace := Build_namespace None None None None [] None None.
Definition ns_set (d : dest) (v : text) (n : namespace) : namespace :=
  match d with
  | DHelp => n
  | DInput => Build_namespace (Some v) (n_output n) (n_itype n) (n_otype n) (n_filters n) (n_config n) (n_config_file n)
  | DOutput => Build_namespace (n_input n) (Some v) (n_itype n) (n_otype n) (n_filters n) (n_config n) (n_config_file n)
  | DItype => Build_namespace (n_input n) (n_output n) (Some v) (n_otype n) (n_filters n) (n_config n) (n_config_file n)
  | DOtype => Build_namespace (n_input n) (n_output n) (n_itype n) (Some v) (n_filters n) (n_config n) (n_config_file n)
  | DFilter => Build_namespace (n_input n) (n_output n) (n_itype n) (n_otype n) (n_filters n ++ [v]) (n_config n) (n_config_file n)
  | DConfig => Build_namespace (n_input n) (n_output n) (n_itype n) (n_otype n) (n_filters n) (Some v) (n_config_file n)
  | DConfigFile => Build_namespace (n_input n) (n_output n) (n_itype n) (n_otype n) (n_filters n) (n_config n) (Some v)
  end.
Inductive pres := PrHelp | PrUsage | PrOk (n : namespace) (extras : bool).
Fixpoint parse_opts (toks : list text) (n : namespace) (extras : bool) : pres :=
  match toks with
  | [] => PrOk n extras
  | t :: r =>
      if negb (starts_dash t) then parse_opts r n true                 (* stray positional: "unrecognized arguments" at the end *)
      else match lookup_flag t with
           | Some DHelp => PrHelp
           | Some d => match r with
                       | v :: r' => if starts_dash v then PrUsage else parse_opts r' (ns_set d v n) extras
                       | [] => PrUsage                                 (* expected one argument *)
                       end
           | None => match split_eq t with
                     | Some (f, v) => match lookup_flag f with
                                      | Some DHelp => PrUsage          (* ignored explicit argument *)
                                      | Some d => parse_opts r (ns_set d v n) extras
                                      | None => parse_opts r n true
                                      end
                     | None => parse_opts r n true                      (* unknown flag *)
                     end
           end
  end.
Inductive cmdline := CHelp | CUsage | CConvert (o : options) (config config_file : option text).
Definition parse_convert (toks : list text) : cmdline :=
  match parse_opts toks empty_ns false with
  | PrHelp => CHelp
  | PrUsage => CUsage
  | PrOk n extras =>
      match n_input n, n_output n with
      | Some i, Some o => if extras then CUsage
                          else CConvert (Build_options i o (n_itype n) (n_otype n) (n_filters n)) (n_config n) (n_config_file n)
      | _, _ => CUsage                                                  (* the following arguments are required *)
      end
  end.
(* main(argv): no token -> print_help; first token = sub-command *)
Definition parse_main (toks : list text) : cmdline :=
  match toks with
  | [] => CHelp
  | sub :: rest => if existsb (text_eqb sub) subcommands then parse_convert rest else CUsage
  end.
(* the environment of a run: what json.loads makes of a --config string (None: JSONDecodeError) and what opening and
   json.load-ing a --config_file path gives *)
Definition inline_of (json_of : text -> option json) (c : option text) : inline_src :=
  match c with None => IAbsent | Some t => match json_of t with Some j => IGiven j | None => IMalformed end end.
Definition file_of (files : text -> file_src) (c : option text) : file_src :=
  match c with None => FAbsent | Some p => files p end.
Definition plan_tokens (json_of : text -> option json) (files : text -> file_src) (toks : list text) : outcome :=
  match parse_main toks with
  | CHelp => OHelp
  | CUsage => OError EExitUsage
  | CConvert o c cf => match convert o (inline_of json_of c) (file_of files cf) with Ok p => OPlan p | Raise e => OError e end
  end.

(* ------------------------------------------------------------------ the run, with the reader, filters and writer put back.
   `run_convert` follows the body of tt.convert statement by statement; every call of a reader, filter or writer and
   every effect visible outside is logged, and the log survives an exception.  What the readers, filters and writers
   compute is not modelled here: they are the section variables, and may raise. *)
Section Exec.
  Variables doc bytes : Type.
  Variable read_doc : reader -> text -> res doc.             (* <fmt>_reader.to_model on the input file *)
  Variable set_lang : text -> doc -> doc.                    (* model.set_lang *)
  Variable run_filter : filter_app -> doc -> res doc.        (* doc_filter.process(model) *)
  Variable write_doc : writer -> doc -> res bytes.           (* <fmt>_writer.from_model, serialised *)

  Definition comp (A : Type) : Type := list event -> list event * res A.
  Definition ret {A} (a : A) : comp A := fun l => (l, Ok a).
  Definition lift {A} (r : res A) : comp A := fun l => (l, r).
  Definition emit (e : event) : comp unit := fun l => (l ++ [e], Ok tt).
  Definition cbind {A B} (c : comp A) (k : A -> comp B) : comp B :=
    fun l => match c l with (l', Ok a) => k a l' | (l', Raise e) => (l', Raise e) end.
  Definition cthen {B} (c : comp unit) (k : comp B) : comp B := cbind c (fun _ => k).

  Definition run_config (inl : inline_src) (fil : file_src) : comp (option json * option (json * bool * json)) :=
    cbind (lift (load_config inl fil)) (fun data =>
    cbind (lift (read_config "general" parse_general data)) (fun g =>
    cthen (match g with Some (_, pb, _) => emit (EvProgress pb) | None => ret tt end)
    (cthen (match g with
            | Some (ll, _, _) => if is_null ll then ret tt else cbind (lift (check_level ll)) (fun z => emit (EvLevel z))
            | None => ret tt end)
    (ret (data, g))))).
  Definition run_types (o : options) : comp (ftype * ftype) :=
    cbind (lift (get_file_type (o_itype o) (splitext (o_input o)))) (fun rt =>
    cbind (lift (get_file_type (o_otype o) (splitext (o_output o)))) (fun wt => ret (rt, wt))).
  Definition call_reader (r : reader) (path : text) : comp doc :=
    cthen (emit (EvRead r path)) (lift (read_doc r path)).
  Definition run_read (rt : ftype) (data : option json) (path : text) : comp doc :=
    match rt with
    | TTML => call_reader RdTtml path
    | SCC => cbind (lift (read_config "scc_reader" parse_scc data)) (fun c => call_reader (RdScc c) path)
    | STL => cbind (lift (read_config "stl_reader" parse_stl data)) (fun c => call_reader (RdStl c) path)
    | SRT => call_reader RdSrt path
    | VTT => call_reader RdVtt path
    end.
  Definition run_lang (g : option (json * bool * json)) (d : doc) : comp doc :=
    match g with
    | Some (_, _, dl) => if is_null dl then ret d
                         else cbind (lift (check_lang dl)) (fun s => cthen (emit (EvLang s)) (ret (set_lang s d)))
    | None => ret d
    end.
  Fixpoint run_filters (names : list text) (data : option json) (d : doc) : comp doc :=
    match names with
    | [] => ret d
    | n :: r =>
        match get_filter_by_name n with
        | None => run_filters r data d
        | Some FkLcd =>
            cbind (lift (read_config "lcd" parse_lcd data)) (fun c =>
            let fa := FLcd (match c with Some c => c | None => default_lcd end) in
            cthen (emit (EvFilter fa)) (cbind (lift (run_filter fa d)) (fun d' => run_filters r data d')))
        end
    end.
  Definition call_writer (w : writer) (d : doc) (path : text) : comp (text * bytes) :=
    cthen (emit (EvWrite w)) (cbind (lift (write_doc w d)) (fun b => cthen (emit (EvOutput path)) (ret (path, b)))).
  Definition run_write (wt : ftype) (data : option json) (d : doc) (path : text) : comp (text * bytes) :=
    match wt with
    | TTML => cbind (lift (read_config "imsc_writer" parse_imsc data)) (fun c => call_writer (WrTtml c) d path)
    | SRT => cbind (lift (read_config "srt_writer" parse_srt data)) (fun c => call_writer (WrSrt c) d path)
    | VTT => cbind (lift (read_config "vtt_writer" parse_vtt data)) (fun c => call_writer (WrVtt c) d path)
    | SCC | STL => lift (Raise EExitUnsupported)
    end.
  Definition run_convert (o : options) (inl : inline_src) (fil : file_src) : comp (text * bytes) :=
    cbind (run_config inl fil) (fun dg =>
    cbind (run_types o) (fun tw =>
    cbind (run_read (fst tw) (fst dg) (o_input o)) (fun d =>
    cbind (run_lang (snd dg) d) (fun d =>
    cbind (run_filters (o_filters o) (fst dg) d) (fun d =>
    run_write (snd tw) (fst dg) d (o_output o)))))).

  Definition run_tokens (json_of : text -> option json) (files : text -> file_src) (toks : list text) : list event * final bytes :=
    match parse_main toks with
    | CHelp => ([], FHelp)
    | CUsage => ([], FError EExitUsage)
    | CConvert o c cf =>
        match run_convert o (inline_of json_of c) (file_of files cf) [] with
        | (l, Ok (p, b)) => (l, FDone p b)
        | (l, Raise e) => (l, FError e)
        end
    end.
End Exec.

(* ------------------------------------------------------------------ one key at a time (acceptance table, probes) *)
Definition copt {A} (f : A -> cval) (o : option A) : cval := match o with Some a => f a | None => CNone end.
(* the value the conversion ends up using for key k when the JSON gives v (for general.log_level and
   general.document_lang: after setLevel / set_lang; an explicit null there = "leave as is") *)
Definition decode (k : key) (v : json) : res cval :=
  match k with
  | KLogLevel => do x <- dec_str_or_null v; if is_null x then Ok CNone else do z <- check_level x; Ok (CInt z)
  | KDocumentLang => do x <- dec_str_or_null v; if is_null x then Ok CNone else do s <- check_lang x; Ok (CText s)
  | KTimeFormat => do x <- dec_time_format v; Ok (copt CTfmt x)
  | KFps => do x <- dec_fps v; Ok (copt (fun f => CFrac (fst f) (snd f)) x)
  | KSccTextAlign => do x <- dec_scc_text_align v; Ok (CAlign x)
  | KStartTc => do x <- dec_start_tc v; Ok (copt CText x)
  | KFontStack => do x <- dec_font_stack v; Ok (copt CText x)
  | KMaxRowCount => do x <- dec_max_row_count v; Ok (copt CMrc x)
  | KSafeArea => do x <- dec_safe_area v; Ok (CInt x)
  | KColor | KBgColor => do x <- dec_color v; Ok (copt (fun c => match c with (r, g, b, a) => CColor r g b a end) x)
  | KProgressBar | KFillLineGap | KLinePadding | KTextFormatting | KLinePosition | KVttTextAlign | KCueId | KPreserveTextAlign =>
      do x <- dec_bool v; Ok (CBool x)
  end.
Definition accepts (k : key) (v : json) : bool := is_ok (decode k v).
