(* M for C19: transcription of
     ttconv/tt.py            FileTypes.get_file_type, read_config_from_json, convert (option handling), main
     ttconv/config.py        ModuleConfiguration.validate / parse, GeneralConfiguration
     ttconv/imsc/config.py   parse_time_expression_syntax, IMSCWriterConfiguration.FractionDecoder
     ttconv/scc/config.py    TextAlignment.from_value
     ttconv/stl/config.py    _decode_font_stack (acceptance), _decode_start_tc, _decode_max_row_count
     ttconv/srt/config.py, ttconv/vtt/config.py   (decoder = bool)
     ttconv/filters/doc/lcd.py   _safe_area_decoder, _color_decoder (ttconv/utils.py parse_color)
     ttconv/filters/document_filter.py   DocumentFilter.get_filter_by_name
   over an abstract JSON value type.  `plan` maps (argv, inline --config, --config_file) to what `tt` does:
   an error (Python exception class / exit), the usage text, or the conversion plan
   reader+configuration, document language, filters+configurations in order, writer+configuration.

   CPython primitives the decoders lean on are transcribed too (int() on str/float/bool, str.lower/upper on the
   characters that can reach an ASCII literal, re's \s \d ., str.split, Fraction normalisation, truthiness,
   posixpath.splitext, logging._checkLevel); their character tables are regenerated (Gen/CliUnicode.v).
   No proofs in this file. *)
From Coq Require Import String.
From TT Require Import Base.Prelude Base.CliTypes Gen.CliUnicode.

(* ------------------------------------------------------------------ small text helpers *)
Definition mem (c : Z) (l : list Z) : bool := existsb (Z.eqb c) l.
Fixpoint assocZ {A} (c : Z) (l : list (Z * A)) : option A :=
  match l with [] => None | (k, v) :: r => if c =? k then Some v else assocZ c r end.
Fixpoint assocT {A} (k : text) (l : list (text * A)) : option A :=
  match l with [] => None | (k', v) :: r => if text_eqb k k' then Some v else assocT k r end.
(* dict.get on a dict built by json.loads: last occurrence of the key *)
Definition obj_get (k : text) (l : list (text * json)) : option json :=
  fold_left (fun acc kv => if text_eqb k (fst kv) then Some (snd kv) else acc) l None.
Fixpoint strip_prefix (p s : text) : option text :=
  match p, s with
  | [], _ => Some s
  | a :: p', b :: s' => if a =? b then strip_prefix p' s' else None
  | _ :: _, [] => None
  end.
Fixpoint skip (p : Z -> bool) (s : text) : text :=
  match s with c :: r => if p c then skip p r else s | [] => [] end.
Fixpoint span (p : Z -> bool) (s : text) : text * text :=
  match s with
  | c :: r => if p c then let (a, b) := span p r in (c :: a, b) else ([], s)
  | [] => ([], [])
  end.
(* str.rfind-like split at the last occurrence of c: Some (before, after) *)
Fixpoint rsplit (c : Z) (s : text) : option (text * text) :=
  match s with
  | [] => None
  | x :: t => match rsplit c t with
              | Some (a, b) => Some (x :: a, b)
              | None => if x =? c then Some ([], t) else None
              end
  end.
(* str.split(sep) for a one-character separator *)
Fixpoint split_on (c : Z) (s : text) : list text :=
  match s with
  | [] => [[]]
  | x :: t => if x =? c then [] :: split_on c t
              else match split_on c t with h :: r => (x :: h) :: r | [] => [[x]] end
  end.

(* str.lower()/str.upper(): exact on ASCII; a non-ASCII character is replaced by its image when that image is
   pure ASCII (Gen/CliUnicode.v: KELVIN SIGN -> k; dotless i, long s, sharp s, ligatures for upper) and is kept
   otherwise — the results are only ever compared with ASCII literals, for which this is exact. *)
Definition ascii_lower (c : Z) : Z := if (65 <=? c) && (c <=? 90) then c + 32 else c.
Definition ascii_upper (c : Z) : Z := if (97 <=? c) && (c <=? 122) then c - 32 else c.
Definition py_lower (s : text) : text :=
  flat_map (fun c => if c <? 128 then [ascii_lower c] else match assocZ c lower_ascii with Some i => i | None => [c] end) s.
Definition py_upper (s : text) : text :=
  flat_map (fun c => if c <? 128 then [ascii_upper c] else match assocZ c upper_ascii with Some i => i | None => [c] end) s.

(* decimal digit value of a code point (Py_UNICODE_TODECIMAL; also re's \d) *)
Fixpoint digit_in (zs : list Z) (c : Z) : option Z :=
  match zs with [] => None | z0 :: r => if (z0 <=? c) && (c <=? z0 + 9) then Some (c - z0) else digit_in r c end.
Definition dec_digit (c : Z) : option Z := digit_in dec_zeros c.
Definition is_re_digit (c : Z) : bool := match dec_digit c with Some _ => true | None => false end.
Definition is_re_space (c : Z) : bool := mem c re_spaces.
Definition is_int_space (c : Z) : bool := mem c int_spaces.
Definition re_dot (c : Z) : bool := negb (mem c re_dot_excluded).       (* `.` without DOTALL *)
Definition is_d (c : Z) : bool := (48 <=? c) && (c <=? 57).               (* [0-9] *)
Definition hexval (c : Z) : option Z :=
  if is_d c then Some (c - 48) else if (65 <=? c) && (c <=? 70) then Some (c - 55)
  else if (97 <=? c) && (c <=? 102) then Some (c - 87) else None.

(* int(str): non-ASCII spaces -> ' ', non-ASCII decimal digits -> ASCII digits, anything else non-ASCII -> '?';
   then [spaces] [sign] digits with single underscores between digits [spaces]; more than
   sys.get_int_max_str_digits() digits -> ValueError *)
Definition int_xform (c : Z) : Z :=
  if c <? 127 then c else if is_int_space c then 32 else match dec_digit c with Some d => 48 + d | None => 63 end.
Fixpoint scan_num (s : text) (acc nd : Z) (prev_us : bool) : option (Z * Z * text) :=
  match s with
  | c :: r => if c =? 95 then (if prev_us then None else scan_num r acc nd true)
              else if is_d c then scan_num r (acc * 10 + (c - 48)) (nd + 1) false
              else if prev_us then None else Some (acc, nd, s)
  | [] => if prev_us then None else Some (acc, nd, [])
  end.
Definition int_sign (s : text) : bool * text :=
  match s with 45 :: r => (true, r) | 43 :: r => (false, r) | _ => (false, s) end.
Definition leading_underscore (s : text) : bool := match s with 95 :: _ => true | _ => false end.
Definition py_int_of_text (s0 : text) : res Z :=
  let s := skip is_int_space (List.map int_xform s0) in
  let (neg, s) := int_sign s in
  if leading_underscore s then Raise EValue
  else match scan_num s 0 0 false with
       | None => Raise EValue
       | Some (v, nd, rest) =>
           if nd =? 0 then Raise EValue
           else if int_max_str_digits <? nd then Raise EValue
           else match skip is_int_space rest with
                | [] => Ok (if neg then - v else v)
                | _ => Raise EValue
                end
       end.
(* int(x) for a JSON value *)
Definition py_int (v : json) : res Z :=
  match v with
  | JNull => Raise EType
  | JBool b => Ok (if b then 1 else 0)
  | JInt z => Ok z
  | JFloat n d => Ok (Z.quot n d)
  | JFloatSpecial k => if k =? 0 then Raise EValue else Raise EOverflow
  | JStr s => py_int_of_text s
  | JArr _ | JObj _ => Raise EType
  end.
(* bool(x) *)
Definition truthy (v : json) : bool :=
  match v with
  | JNull => false
  | JBool b => b
  | JInt z => negb (z =? 0)
  | JFloat n _ => negb (n =? 0)
  | JFloatSpecial _ => true
  | JStr s => match s with [] => false | _ => true end
  | JArr l => match l with [] => false | _ => true end
  | JObj l => match l with [] => false | _ => true end
  end.
Definition is_null (v : json) : bool := match v with JNull => true | _ => false end.

(* ---- the decoders, one per `metadata={"decoder": ...}` *)
(* bool *)
Definition dec_bool (v : json) : res bool := Ok (truthy v).

(* imsc/config.py parse_time_expression_syntax: None -> None; `not in` the three values -> ValueError *)
Definition dec_time_format (v : json) : res (option tfmt) :=
  match v with
  | JNull => Ok None
  | JStr s => if text_eqb s (T "frames") then Ok (Some TfFrames)
              else if text_eqb s (T "clock_time") then Ok (Some TfClockTime)
              else if text_eqb s (T "clock_time_with_frames") then Ok (Some TfClockTimeWithFrames)
              else Raise EValue
  | _ => Raise EValue
  end.

(* Fraction(n, d) of two ints: normalised, sign carried by the numerator *)
Definition fraction (n d : Z) : res (Z * Z) :=
  if d =? 0 then Raise EZeroDivision
  else let g := Z.gcd n d in let g := if d <? 0 then - g else g in Ok (n / g, d / g).
(* IMSCWriterConfiguration.FractionDecoder: [num, den] = value.split('/'); Fraction(int(num), int(den)) *)
Definition dec_fps (v : json) : res (option (Z * Z)) :=
  match v with
  | JNull => Ok None
  | JStr s => match split_on 47 s with
              | [a; b] => do n <- py_int_of_text a; do d <- py_int_of_text b; do f <- fraction n d; Ok (Some f)
              | _ => Raise EValue                       (* not enough / too many values to unpack *)
              end
  | _ => Raise EAttribute                               (* no attribute 'split' *)
  end.

(* scc/config.py TextAlignment.from_value: first member (LEFT, CENTER, RIGHT, AUTO) whose label equals value.lower() *)
Definition dec_scc_text_align (v : json) : res scc_align :=
  match v with
  | JStr s => let l := py_lower s in
              if text_eqb l (T "left") then Ok AlLeft else if text_eqb l (T "center") then Ok AlCenter
              else if text_eqb l (T "right") then Ok AlRight else if text_eqb l (T "auto") then Ok AlAuto
              else Raise EValue
  | _ => Raise EAttribute                               (* no attribute 'lower' *)
  end.

(* stl/config.py _decode_start_tc; the patterns are used with re.match (prefix) and the drop-frame pattern's
   separators are (:|;|.|,) with an unescaped dot *)
Definition ndf_match (s : text) : bool :=
  match s with
  | a :: b :: x :: c :: d :: y :: e :: f :: z :: g :: h :: _ =>
      is_d a && is_d b && (x =? 58) && is_d c && is_d d && (y =? 58) && is_d e && is_d f && (z =? 58) && is_d g && is_d h
  | _ => false
  end.
Definition df_sep (c : Z) : bool := (c =? 58) || (c =? 59) || re_dot c || (c =? 44).
Definition df_match (s : text) : bool :=
  match s with
  | a :: b :: x :: c :: d :: y :: e :: f :: z :: g :: h :: _ =>
      is_d a && is_d b && df_sep x && is_d c && is_d d && df_sep y && is_d e && is_d f && df_sep z && is_d g && is_d h
  | _ => false
  end.
Definition dec_start_tc (v : json) : res (option text) :=
  match v with
  | JNull => Ok None
  | JStr s => if text_eqb (py_upper s) (T "TCP") then Ok (Some (T "TCP"))
              else if df_match s || ndf_match s then Ok (Some s)
              else Raise EValue
  | _ => Raise EAttribute                               (* no attribute 'upper' *)
  end.

(* stl/config.py _decode_font_stack = tuple(parse_font_families(value)); parse_font_families raises ValueError
   iff _FONT_FAMILY_PATTERN.finditer finds nothing, i.e. iff the pattern matches at no position:
     SQ(.+?)(?<!\\)SQ  |  DQ(.+?)(?<!\\)DQ  |  (?:\\.|[^ SQ DQ , space])(?:\\.|[^ SQ DQ ,])+
   where SQ is the apostrophe (39) and DQ the quotation mark (34) *)
Fixpoint quoted_close (q prev : Z) (r : text) : bool :=
  match r with
  | c :: r' => if (c =? q) && negb (prev =? 92) then true else if re_dot c then quoted_close q c r' else false
  | [] => false
  end.
Definition quoted_ok (q : Z) (body : text) : bool :=
  match body with c0 :: r => if re_dot c0 then quoted_close q c0 r else false | [] => false end.
Definition unit_esc (s : text) : option text :=                        (* \\. *)
  match s with c0 :: c :: r => if (c0 =? 92) && re_dot c then Some r else None | _ => None end.
Definition unit1_plain (s : text) : option text :=                     (* none of SQ DQ , space *)
  match s with c :: r => if mem c [39; 34; 44; 32] then None else Some r | [] => None end.
Definition unit2_plain (s : text) : option text :=                     (* none of SQ DQ , *)
  match s with c :: r => if mem c [39; 34; 44] then None else Some r | [] => None end.
Definition has_unit2 (s : text) : bool :=
  match unit_esc s with Some _ => true | None => match unit2_plain s with Some _ => true | None => false end end.
Definition noquote_match (s : text) : bool :=
  (match unit_esc s with Some r => has_unit2 r | None => false end) ||
  (match unit1_plain s with Some r => has_unit2 r | None => false end).
Definition font_match_at (s : text) : bool :=
  (match s with 39 :: b => quoted_ok 39 b | _ => false end) ||
  (match s with 34 :: b => quoted_ok 34 b | _ => false end) || noquote_match s.
Fixpoint font_any (s : text) : bool :=
  font_match_at s || match s with _ :: r => font_any r | [] => false end.
Definition dec_font_stack (v : json) : res (option text) :=
  match v with
  | JNull => Ok None
  | JStr s => if font_any s then Ok (Some s) else Raise EValue
  | _ => Raise EType                                    (* expected string or bytes-like object *)
  end.

(* stl/config.py _decode_max_row_count *)
Definition dec_max_row_count (v : json) : res (option mrc) :=
  match v with
  | JNull => Ok None
  | JStr s => if text_eqb (py_upper s) (T "MNR") then Ok (Some MrcMNR) else Raise EValue
  | JInt z => Ok (Some (MrcInt z))
  | JBool b => Ok (Some (MrcBool b))
  | _ => Raise EValue
  end.

(* filters/doc/lcd.py _safe_area_decoder (after commit 2ff15f5): int(s); < 0 or > 30 -> ValueError *)
Definition dec_safe_area (v : json) : res Z :=
  do z <- py_int v;
  if (z <? 0) || (30 <? z) then Raise EValue else Ok z.

(* ttconv/utils.py parse_color (re.match = prefix match; \s and \d are Unicode-aware) *)
Definition hex2 (a b : Z) : option Z :=
  match hexval a, hexval b with Some x, Some y => Some (16 * x + y) | _, _ => None end.
Definition match_hex (s : text) : option rgba :=
  match s with
  | 35 :: r1 :: r2 :: g1 :: g2 :: b1 :: b2 :: rest =>
      match hex2 r1 r2, hex2 g1 g2, hex2 b1 b2 with
      | Some r, Some g, Some b =>
          match rest with
          | a1 :: a2 :: _ => match hex2 a1 a2 with Some a => Some (r, g, b, a) | None => Some (r, g, b, 255) end
          | _ => Some (r, g, b, 255)
          end
      | _, _, _ => None
      end
  | _ => None
  end.
Definition obind {A B} (o : option A) (f : A -> option B) : option B := match o with Some a => f a | None => None end.
Definition digits1 (s : text) : option (text * text) :=
  let (d, r) := span is_re_digit s in match d with [] => None | _ => Some (d, r) end.
(* \s*(\d+)\s* *)
Definition sp_digits_sp (s : text) : option (text * text) :=
  obind (digits1 (skip is_re_space s)) (fun dr => Some (fst dr, skip is_re_space (snd dr))).
Definition match_rgb (s : text) : option (text * text * text) :=
  obind (strip_prefix (T "rgb(") s) (fun s =>
  obind (sp_digits_sp s) (fun d1 => obind (strip_prefix [44] (snd d1)) (fun s =>
  obind (sp_digits_sp s) (fun d2 => obind (strip_prefix [44] (snd d2)) (fun s =>
  obind (sp_digits_sp s) (fun d3 => obind (strip_prefix [41] (snd d3)) (fun _ =>
  Some (fst d1, fst d2, fst d3)))))))).
(* rgba\(\s*(\d+),\s*(\d+)\s*,\s*(\d+)\s*,\s*(\d+)\s*\) — no \s* between the first number and its comma *)
Definition match_rgba (s : text) : option (text * text * text * text) :=
  obind (strip_prefix (T "rgba(") s) (fun s =>
  obind (digits1 (skip is_re_space s)) (fun d1 => obind (strip_prefix [44] (snd d1)) (fun s =>
  obind (sp_digits_sp s) (fun d2 => obind (strip_prefix [44] (snd d2)) (fun s =>
  obind (sp_digits_sp s) (fun d3 => obind (strip_prefix [44] (snd d3)) (fun s =>
  obind (sp_digits_sp s) (fun d4 => obind (strip_prefix [41] (snd d4)) (fun _ =>
  Some (fst d1, fst d2, fst d3, fst d4)))))))))).
Definition parse_color (s : text) : res rgba :=
  match assocT (py_lower s) named_colors with
  | Some c => Ok c
  | None =>
    match match_hex s with
    | Some c => Ok c
    | None =>
      match match_rgb s with
      | Some (a, b, c) => do r <- py_int_of_text a; do g <- py_int_of_text b; do b' <- py_int_of_text c; Ok (r, g, b', 255)
      | None =>
        match match_rgba s with
        | Some (a, b, c, d) =>
            do r <- py_int_of_text a; do g <- py_int_of_text b; do b' <- py_int_of_text c; do a' <- py_int_of_text d; Ok (r, g, b', a')
        | None => Raise EValue
        end
      end
    end
  end.
(* filters/doc/lcd.py _color_decoder *)
Definition dec_color (v : json) : res (option rgba) :=
  match v with
  | JNull => Ok None
  | JStr s => do c <- parse_color s; Ok (Some c)
  | _ => Raise EValue
  end.

(* ---- the general section has no decoders; its values are interpreted where tt.convert uses them *)
(* logging._checkLevel (LOGGER.setLevel): int (bool included) as is; a str must be a registered level name *)
Definition check_level (v : json) : res Z :=
  match v with
  | JInt z => Ok z
  | JBool b => Ok (if b then 1 else 0)
  | JStr s => match assocT s log_levels with Some z => Ok z | None => Raise EValue end
  | _ => Raise EType
  end.
(* ContentDocument.set_lang: not a str -> TypeError *)
Definition check_lang (v : json) : res text :=
  match v with JStr s => Ok s | _ => Raise EType end.

(* ------------------------------------------------------------------ ModuleConfiguration.parse per class *)
(* field_value = config_dict.get(name, default); decoder(field_value).  A missing key takes the default *through*
   its decoder; the decoded defaults below are compared with Cls.parse({}) of the code (Proofs/C19/Tables.v). *)
Definition field {A} (d : list (text * json)) (name : string) (dec : json -> res A) (default : A) : res A :=
  match obj_get (T name) d with Some v => dec v | None => Ok default end.

Definition default_scc : scc_align := AlAuto.
Definition default_stl : stl_cfg := Build_stl_cfg false None false None None.
Definition default_imsc : imsc_cfg := Build_imsc_cfg None None.
Definition default_srt : bool := true.
Definition default_vtt : vtt_cfg := Build_vtt_cfg false false true.
Definition default_lcd : lcd_cfg := Build_lcd_cfg 10 false None None.
Definition default_general : json * json * json := (JStr (T "INFO"), JBool true, JNull).

Definition parse_general (d : list (text * json)) : res (json * json * json) :=
  do ll <- field d "log_level" (fun v => Ok v) (fst (fst default_general));
  do pb <- field d "progress_bar" (fun v => Ok v) (snd (fst default_general));
  do dl <- field d "document_lang" (fun v => Ok v) (snd default_general);
  Ok (ll, pb, dl).
Definition parse_imsc (d : list (text * json)) : res imsc_cfg :=
  do tf <- field d "time_format" dec_time_format (im_time_format default_imsc);
  do fps <- field d "fps" dec_fps (im_fps default_imsc);
  Ok (Build_imsc_cfg tf fps).
Definition parse_scc (d : list (text * json)) : res scc_align :=
  field d "text_align" dec_scc_text_align default_scc.
Definition parse_stl (d : list (text * json)) : res stl_cfg :=
  do a <- field d "disable_fill_line_gap" dec_bool (st_fill_gap default_stl);
  do b <- field d "program_start_tc" dec_start_tc (st_start_tc default_stl);
  do c <- field d "disable_line_padding" dec_bool (st_line_padding default_stl);
  do e <- field d "font_stack" dec_font_stack (st_font_stack default_stl);
  do f <- field d "max_row_count" dec_max_row_count (st_max_row default_stl);
  Ok (Build_stl_cfg a b c e f).
Definition parse_srt (d : list (text * json)) : res bool :=
  field d "text_formatting" dec_bool default_srt.
Definition parse_vtt (d : list (text * json)) : res vtt_cfg :=
  do a <- field d "line_position" dec_bool (vt_line_position default_vtt);
  do b <- field d "text_align" dec_bool (vt_text_align default_vtt);
  do c <- field d "cue_id" dec_bool (vt_cue_id default_vtt);
  Ok (Build_vtt_cfg a b c).
Definition parse_lcd (d : list (text * json)) : res lcd_cfg :=
  do a <- field d "safe_area" dec_safe_area (lc_safe_area default_lcd);
  do b <- field d "preserve_text_align" dec_bool (lc_preserve_text_align default_lcd);
  do c <- field d "color" dec_color (lc_color default_lcd);
  do e <- field d "bg_color" dec_color (lc_bg_color default_lcd);
  Ok (Build_lcd_cfg a b c e).

(* tt.py read_config_from_json: json_data None -> None; json_data.get(name) (AttributeError unless a dict);
   None -> None; else config_class.parse(section), whose validate() calls section.get (AttributeError unless a dict) *)
Definition read_config {A} (name : string) (parse : list (text * json) -> res A) (data : option json) : res (option A) :=
  match data with
  | None | Some JNull => Ok None
  | Some (JObj l) =>
      match obj_get (T name) l with
      | None | Some JNull => Ok None
      | Some (JObj d) => do c <- parse d; Ok (Some c)
      | Some _ => Raise EAttribute
      end
  | Some _ => Raise EAttribute
  end.

(* ------------------------------------------------------------------ tt.py *)
Definition file_types : list (text * ftype) :=
  [(T "ttml", TTML); (T "scc", SCC); (T "srt", SRT); (T "stl", STL); (T "vtt", VTT)].
(* FileTypes(value): lookup by value, ValueError otherwise *)
Definition file_type_of_value (v : text) : res ftype :=
  match assocT v file_types with Some t => Ok t | None => Raise EValue end.
(* FileTypes.get_file_type(file_type, file_extension); the extension is never None here *)
Definition get_file_type (file_type : option text) (ext : text) : res ftype :=
  match file_type with
  | None => let ext := match ext with 46 :: r => r | _ => ext end in file_type_of_value (py_lower ext)
  | Some t => file_type_of_value (py_lower t)
  end.
(* posixpath.splitext, second component: the last dot after the last '/', unless only dots precede it in the name *)
Definition splitext (p : text) : text :=
  match rsplit 46 p with
  | None => []
  | Some (stem, e) =>
      if mem 47 e then []                                        (* dotIndex < sepIndex *)
      else let name := match rsplit 47 stem with Some (_, b) => b | None => stem end in
           if existsb (fun c => negb (c =? 46)) name then 46 :: e else []
  end.

(* json_config_data: --config is parsed first, then --config_file overwrites it *)
Definition load_config (inl : inline_src) (fil : file_src) : res (option json) :=
  do a <- match inl with IAbsent => Ok None | IMalformed => Raise EJsonDecode | IGiven j => Ok (Some j) end;
  match fil with
  | FAbsent => Ok a
  | FUnreadable => Raise EOSError
  | FMalformed => Raise EJsonDecode
  | FGiven j => Ok (Some j)
  end.

(* DocumentFilter.get_filter_by_name: the registry holds exactly the LCD filter under its configuration name *)
Inductive filter_kind := FkLcd.
Definition filter_registry : list (text * filter_kind) := [(T "lcd", FkLcd)].
Definition get_filter_by_name (n : text) : option filter_kind := assocT n filter_registry.

(* the `for filter_name in args.filter` loop: unknown names are logged and skipped;
   doc_filter_class(filter_config or filter_config_class()) *)
Fixpoint apply_filters (names : list text) (data : option json) : res (list filter_app) :=
  match names with
  | [] => Ok []
  | n :: r =>
      match get_filter_by_name n with
      | None => apply_filters r data
      | Some FkLcd =>
          do c <- read_config "lcd" parse_lcd data;
          do rest <- apply_filters r data;
          Ok (FLcd (match c with Some c => c | None => default_lcd end) :: rest)
      end
  end.

Definition convert (o : options) (inl : inline_src) (fil : file_src) : res plan_t :=
  do data <- load_config inl fil;
  do g <- read_config "general" parse_general data;
  let progress := match g with
                  | Some (_, pb, _) => if is_null pb then None else Some (truthy pb)
                  | None => None end in
  do level <- match g with
              | Some (ll, _, _) => if is_null ll then Ok None else do z <- check_level ll; Ok (Some z)
              | None => Ok None end;
  do rt <- get_file_type (o_itype o) (splitext (o_input o));
  do wt <- get_file_type (o_otype o) (splitext (o_output o));
  do rd <- match rt with
           | TTML => Ok RdTtml
           | SCC => do c <- read_config "scc_reader" parse_scc data; Ok (RdScc c)
           | STL => do c <- read_config "stl_reader" parse_stl data; Ok (RdStl c)
           | SRT => Ok RdSrt
           | VTT => Ok RdVtt
           end;
  do lang <- match g with
             | Some (_, _, dl) => if is_null dl then Ok None else do s <- check_lang dl; Ok (Some s)
             | None => Ok None end;
  do fs <- apply_filters (o_filters o) data;
  do wr <- match wt with
           | TTML => do c <- read_config "imsc_writer" parse_imsc data; Ok (WrTtml c)
           | SRT => do c <- read_config "srt_writer" parse_srt data; Ok (WrSrt c)
           | VTT => do c <- read_config "vtt_writer" parse_vtt data; Ok (WrVtt c)
           | SCC | STL => Raise EExitUnsupported
           end;
  Ok (Build_plan_t rd lang fs wr level progress).

(* main: no sub-command -> print_help; argparse rejects an unknown sub-command (exit status 2) *)
Definition plan (a : argv) (inl : inline_src) (fil : file_src) : outcome :=
  match a with
  | NoSubcommand => OHelp
  | Subcommand n o =>
      if text_eqb n (T "convert")
      then match convert o inl fil with Ok p => OPlan p | Raise e => OError e end
      else OError EExitUsage
  end.
(* what `tt` writes: the file named by -o, through the planned writer; nothing in any other outcome *)
Definition output_action (a : argv) (r : outcome) : option (text * writer) :=
  match a, r with
  | Subcommand _ o, OPlan p => Some (o_output o, p_writer p)
  | _, _ => None
  end.

(* ------------------------------------------------------------------ one key at a time (acceptance table, probes) *)
Definition copt {A} (f : A -> cval) (o : option A) : cval := match o with Some a => f a | None => CNone end.
(* the value the conversion ends up using for key k when the JSON gives v (for the general keys: after
   setLevel / `not progress_bar` / set_lang; explicit null = "leave as is") *)
Definition decode (k : key) (v : json) : res cval :=
  match k with
  | KLogLevel => if is_null v then Ok CNone else do z <- check_level v; Ok (CInt z)
  | KProgressBar => if is_null v then Ok CNone else Ok (CBool (truthy v))
  | KDocumentLang => if is_null v then Ok CNone else do s <- check_lang v; Ok (CText s)
  | KTimeFormat => do x <- dec_time_format v; Ok (copt CTfmt x)
  | KFps => do x <- dec_fps v; Ok (copt (fun f => CFrac (fst f) (snd f)) x)
  | KSccTextAlign => do x <- dec_scc_text_align v; Ok (CAlign x)
  | KStartTc => do x <- dec_start_tc v; Ok (copt CText x)
  | KFontStack => do x <- dec_font_stack v; Ok (copt CText x)
  | KMaxRowCount => do x <- dec_max_row_count v; Ok (copt CMrc x)
  | KSafeArea => do x <- dec_safe_area v; Ok (CInt x)
  | KColor | KBgColor => do x <- dec_color v; Ok (copt (fun c => match c with (r, g, b, a) => CColor r g b a end) x)
  | KFillLineGap | KLinePadding | KTextFormatting | KLinePosition | KVttTextAlign | KCueId | KPreserveTextAlign =>
      do x <- dec_bool v; Ok (CBool x)
  end.
Definition accepts (k : key) (v : json) : bool := is_ok (decode k v).
