(* M for C05 (the tree the writer builds): transcription of ttconv/imsc/elements.py ContentElement.from_model (element dispatch,
   xml:space, region, begin / end, xml:id, style attributes in the order of StyleProperties.BY_MODEL_PROP, <set> children for the
   animation steps, children with the text / tail placement of Text children), SetElement.from_model, RegionElement / LayoutElement /
   StylingElement / InitialElement / HeadElement.from_model and TTElement.from_model (xml:lang, ttp:cellResolution, tts:extent when
   a pixel length is used, ittp:activeArea, ttp:displayAspectRatio, ttp:frameRate / ttp:frameRateMultiplier), on the ElementTree
   structure of Base/ImscXml.v.  The value printers are those of Model/ImscWrite.v.
   Input: the canonical model as the writer reads it ([wnode]: kind, xml:id, begin, end, xml:space, region, styles, animation steps,
   children; the language of elements is not read by the writer).  Negative begin / end (the writer raises ValueError or prints what
   the reader rejects: finding negative-time) are outside the domain: the attribute is left out here. *)
From TT Require Import Base.Prelude Base.ImscXml Model.ImscTime Model.TimeCode Model.ImscWrite Gen.ImscTables.
From Coq Require Import String QArith.
Local Open Scope Z_scope.

Definition wanim := (Z * sval * option Q * option Q)%type.       (* property, value, begin, end *)
Inductive wnode :=
  | WText (t : text)
  | WElem (k : ekind) (id : option text) (b e : option Q) (preserve : bool) (region : option text)
          (styles : list (Z * sval)) (anims : list wanim) (cs : list wnode).

Record wcfg := mkWcfg { w_syn : tsyntax ; w_fps : option Q }.

Definition A_tts_ruby : qname := A_ruby.
Definition A_cellResolution := Eval vm_compute in q_ttp "cellResolution"%string.
Definition A_extent_tt := Eval vm_compute in q_tts "extent"%string.
Definition A_activeArea : qname := Eval vm_compute in (NS_ITTP, tx "activeArea"%string).
Definition A_displayAspectRatio := Eval vm_compute in q_ttp "displayAspectRatio"%string.

(* make_ttml_element: the tag and the attributes the element is created with *)
Definition make_element (k : ekind) : option (qname * list (qname * text)) :=
  match k with
  | KBody => Some (T_body, []) | KDiv => Some (T_div, []) | KP => Some (T_p, []) | KSpan => Some (T_span, [])
  | KBr => Some (T_br, []) | KRegion => Some (T_region, [])
  | KRuby => Some (T_span, [(A_ruby, V_container)]) | KRb => Some (T_span, [(A_ruby, V_base)])
  | KRt => Some (T_span, [(A_ruby, V_text)]) | KRp => Some (T_span, [(A_ruby, V_delimiter)])
  | KRbc => Some (T_span, [(A_ruby, V_baseContainer)]) | KRtc => Some (T_span, [(A_ruby, V_textContainer)])
  | KSet | KText => None
  end.

Definition w_has_region (k : ekind) := match k with KBr | KSet | KRegion | KText => false | _ => true end.
Definition w_has_timing (k : ekind) := match k with KBr | KSet | KText => false | _ => true end.
Definition w_has_children (k : ekind) := match k with KBr | KSet | KRegion | KText => false | _ => true end.

Fixpoint attr_of (l : list ((Z * list Z) * Z)) (p : Z) : option qname :=
  match l with [] => None | (qn, p') :: l' => if p' =? p then Some qn else attr_of l' p end.
Fixpoint style_get (d : list (Z * sval)) (p : Z) : option sval :=
  match d with [] => None | (k, v) :: d' => if k =? p then Some v else style_get d' p end.

(* StyleProperty.from_model on an element: the attribute, or nothing *)
Definition style_attr (p : Z) (v : sval) : list (qname * text) :=
  match attr_of imsc_style_attrs p, print_style p v with
  | Some qn, WAttr s => [(qn, s)]
  | _, _ => []
  end.
(* from_model_style_properties: in the order of BY_MODEL_PROP *)
Definition style_attrs (d : list (Z * sval)) : list (qname * text) :=
  flat_map (fun p => match style_get d p with Some v => style_attr p v | None => [] end) imsc_write_order.

Definition time_attr (cfg : wcfg) (a : qname) (t : option Q) : list (qname * text) :=
  match t with
  | Some v => match to_time_format (w_syn cfg) (w_fps cfg) v with Some s => [(a, s)] | None => [] end
  | None => []
  end.

(* SetElement.from_model *)
Definition write_set (cfg : wcfg) (a : wanim) : xml :=
  let '(p, v, b, e) := a in
  X T_set (style_attr p v ++ time_attr cfg A_begin b ++ time_attr cfg A_end e) None None [].

Definition add_tail (x : xml) (s : text) : xml :=
  match x with X t a tx tl c => X t a tx (Some (match tl with Some u => u ++ s | None => s end)) c end.

(* the children loop of ContentElement.from_model: [txt] is xml_element.text, [kids] the children appended so far (the <set> elements
   first), last first, [last] tells whether last_child_element is set (a content child has been appended: it is then the head of
   [kids]); a Text child goes to the text of the element while last_child_element is None, else to the tail of that child, appended to
   what is there *)
Section Place.
  Variable wr : wnode -> option xml.
  Fixpoint place (cs : list wnode) (txt : option text) (kids : list xml) (last : bool) : option text * list xml :=
    match cs with
    | [] => (txt, rev kids)
    | WText s :: cs' =>
        match last, kids with
        | true, l :: kids' => place cs' txt (add_tail l s :: kids') last
        | _, _ => place cs' (Some (match txt with Some u => u ++ s | None => s end)) kids last
        end
    | c :: cs' => match wr c with Some x => place cs' txt (x :: kids) true | None => place cs' txt kids last end
    end.
End Place.

Fixpoint write_node (cfg : wcfg) (parent_preserve : option bool) (n : wnode) {struct n} : option xml :=
  match n with
  | WText _ => None
  | WElem k id b e preserve region styles anims cs =>
      match make_element k with
      | None => None
      | Some (tag, attrs0) =>
          let a_space := match parent_preserve with
                         | None => if preserve then [(A_space, V_preserve)] else []
                         | Some pp => if Bool.eqb pp preserve then [] else [(A_space, if preserve then V_preserve else V_default)]
                         end in
          let a_region := if w_has_region k then match region with Some r => [(A_region, r)] | None => [] end else [] in
          let a_time := if w_has_timing k then time_attr cfg A_begin b ++ time_attr cfg A_end e else [] in
          let a_id := match id with Some i => [(A_id, i)] | None => [] end in
          let sets := List.map (write_set cfg) anims in
          let '(txt, kids) := if w_has_children k then place (write_node cfg (Some preserve)) cs None (rev sets) false else (None, sets) in
          Some (X tag (attrs0 ++ a_space ++ a_region ++ a_time ++ a_id ++ style_attrs styles) txt None kids)
      end
  end.

(* ---- the document ------------------------------------------------------------------------------------------------------------------- *)
Record wdoc := mkWdoc {
  wd_lang : text ;
  wd_cell : Z * Z ;                          (* columns, rows *)
  wd_px : option (Z * Z) ;                   (* width, height *)
  wd_active : option (Q * Q * Q * Q) ;       (* left, top, width, height as fractions of the root container *)
  wd_dar : option (Z * Z) ;                  (* numerator, denominator *)
  wd_initials : list (Z * sval) ;            (* in the order of iter_initial_values *)
  wd_regions : list wnode ;
  wd_body : option wnode
}.

Definition T_head_q := T_head.
Definition has_px_anim (a : wanim) : bool := let '(p, v, _, _) := a in has_px p v.
Fixpoint node_has_px (n : wnode) : bool :=
  match n with
  | WText _ => false
  | WElem _ _ _ _ _ _ styles anims cs =>
      existsb (fun e => has_px (fst e) (snd e)) styles || existsb has_px_anim anims ||
      (fix any (l : list wnode) : bool := match l with [] => false | c :: l' => node_has_px c || any l' end) cs
  end.

Definition pct (x : Q) : text := print_num (x * inject_Z 100)%Q ++ [37].

Definition write_tt (cfg : wcfg) (d : wdoc) : xml :=
  let a_lang := [(A_lang, wd_lang d)] in
  let a_cell := if (fst (wd_cell d) =? 32) && (snd (wd_cell d) =? 15) then []
                else [(A_cellResolution, print_int (fst (wd_cell d)) ++ sp ++ print_int (snd (wd_cell d)))] in
  let uses_px := existsb (fun e => has_px (fst e) (snd e)) (wd_initials d) || existsb node_has_px (wd_regions d)
                 || match wd_body d with Some b => node_has_px b | None => false end in
  let a_px := match wd_px d with
              | Some (w, h) => if uses_px then [(A_extent_tt, print_int w ++ [112; 120] ++ sp ++ print_int h ++ [112; 120])] else []
              | None => [] end in
  let a_active := match wd_active d with
                  | Some (l, t, w, h) => [(A_activeArea, pct l ++ sp ++ pct t ++ sp ++ pct w ++ sp ++ pct h)]
                  | None => [] end in
  let a_dar := match wd_dar d with
               | Some (n, m) => [(A_displayAspectRatio, print_int n ++ sp ++ print_int m)]
               | None => [] end in
  let a_fr := match w_fps cfg with
              | Some f => let '(fr, m) := print_frame_rate f in
                          (A_frameRate, fr) :: match m with Some s => [(A_frameRateMultiplier, s)] | None => [] end
              | None => [] end in
  let initials := List.map (fun e => X T_initial (style_attr (fst e) (snd e)) None None []) (wd_initials d) in
  let styling := match initials with [] => [] | _ :: _ => [X T_styling [] None None initials] end in
  let regions := flat_map (fun r => match write_node cfg None r with Some x => [x] | None => [] end) (wd_regions d) in
  let layout := match regions with [] => [] | _ :: _ => [X T_layout [] None None regions] end in
  let head := match styling ++ layout with [] => [] | hs => [X T_head [] None None hs] end in
  let body := match wd_body d with Some b => match write_node cfg None b with Some x => [x] | None => [] end | None => [] end in
  X T_tt (a_lang ++ a_cell ++ a_px ++ a_active ++ a_dar ++ a_fr) None None (head ++ body).

(* ---- comparison with the ElementTree the code builds (case files) --------------------------------------------------------------- *)
Definition qn_eqb := qname_eqb.
Definition otext_eqb2 (a b : option text) : bool := match a, b with None, None => true | Some x, Some y => text_eqb x y | _, _ => false end.
Fixpoint attrs_eqb (a b : list (qname * text)) : bool :=
  match a, b with
  | [], [] => true
  | (k, v) :: a', (k', v') :: b' => qname_eqb k k' && text_eqb v v' && attrs_eqb a' b'
  | _, _ => false
  end.
Fixpoint xml_eqb (a b : xml) {struct a} : bool :=
  match a, b with
  | X t1 a1 x1 l1 c1, X t2 a2 x2 l2 c2 =>
      qname_eqb t1 t2 && attrs_eqb a1 a2 && otext_eqb2 x1 x2 && otext_eqb2 l1 l2 &&
      (fix go (x y : list xml) : bool := match x, y with [] , [] => true | n :: x', m :: y' => xml_eqb n m && go x' y' | _, _ => false end) c1 c2
  end.
(* imsc/writer.py from_model: the time expression syntax from the configuration (None = ValueError) *)
Definition select_format (tf : option tsyntax) (fps : option Q) : option tsyntax :=
  match tf with
  | Some SyClock => Some SyClock
  | Some SyFrames => match fps with Some _ => Some SyFrames | None => None end
  | Some SyClockFrames => match fps with Some f => if Zpos (Qden (Qred f)) =? 1 then Some SyClockFrames else None | None => None end
  | None => match fps with Some _ => Some SyFrames | None => Some SyClock end
  end.
Definition write_doc (tf : option tsyntax) (fps : option Q) (d : wdoc) : option xml :=
  match select_format tf fps with Some syn => Some (write_tt (mkWcfg syn fps) d) | None => None end.
Definition case_write (tf : option tsyntax) (fps : option Q) (d : wdoc) (expected : option xml) : bool :=
  match write_doc tf fps d, expected with Some a, Some b => xml_eqb a b | None, None => true | _, _ => false end.
Definition W := WElem.  Definition WT := WText.
