(* Helpers evaluated by the generated case files of C06/C07 (harness/c06.py, c07.py):
     cases_writers   M = code: the string Model/CueWriter.v computes equals the string the implementation returned
     cases_wf        S on the code: Spec/CueSpec.v srt_wf / vtt_wf accept the implementation's output
     cases_cues      S on the code: the cues parsed from the implementation's output (by Spec/CueSpec.v, and the same
                     cues as the harness's own parser found) are the cue list the property prescribes
     cases_runs      S on the code: the tags of the implementation's output give every visible character the style
                     the snapshot prescribes
     cases_triggers  the triggers of the recorded findings, per configuration *)
From Coq Require Import Qabs.
From TT Require Import Model.Doc Gen.StyleTables Model.Isd Model.SigTimes Model.TimeCode Model.IsdFilters Gen.CueTables Model.CueWriter.
From TT Require Import Model.CueTriggers Spec.IsdSpec Spec.CueSpec Spec.CueSettings.

(* what the implementation did: the returned string, or the stage at which it raised
   (1 = snapshot generation, 3 = negative time, 4 = to_string ValueError, 5 = AttributeError in process_p) *)
Inductive pyout := PyOk (t : text) | PyErr (stage : Z).
Definition err_stage (c : Z) : Z := if (c =? errRubyChildren) || (c =? errCompute) then 1 else c.
Definition out_eqb (m : res text) (p : pyout) : bool :=
  match m, p with
  | Ok a, PyOk b => text_eqb a b
  | Err c, PyErr s => err_stage c =? s
  | _, _ => false
  end.

(* a line percentage whose exact value is within 1e-6 of a rounding tie: the implementation computes it in binary floating
   point, the model exactly; such cases are left out of the string comparison (and counted) *)
Definition near_tie (q : Q) : bool :=
  let two := Qmult q (qz 2) in                       (* a tie iff 2q is an odd integer *)
  let n := round_he (Qnum two) (Zpos (Qden two)) in
  Z.odd n && Qle_bool (Qabs (Qminus two (qz n))) (Qmake 1 500000).
Definition region_tie (r : elem) : bool :=
  match sget (e_styles (eattrs r)) p_Position, sget (e_styles (eattrs r)) p_Extent with
  | Some (VPos _ _ v _), Some (VExtent h _) =>
      near_tie (lv v) || near_tie (Qplus (lv v) (lv h)) || near_tie (Qplus (lv v) (Qdiv (lv h) (qz 2)))
  | _, _ => false
  end.
Definition seq_tie (s : res (list (Q * list elem))) : bool :=
  match s with Ok l => existsb (fun x => existsb region_tie (snd x)) l | Err _ => false end.

(* one document, the two SRT configurations and the eight WebVTT configurations *)
(* the string with the digits of every "line:N" removed *)
Fixpoint mask_go (recent : text) (dropping : bool) (t : text) : text :=
  match t with
  | [] => []
  | c :: t' =>
      if dropping && (is_dig c || (c =? 45)) then mask_go recent true t'
      else let recent' := firstn 5 (c :: recent) in
           c :: mask_go recent' (text_eqb recent' [58; 101; 110; 105; 108]) t'
  end.
Definition mask_lines (t : text) : text := mask_go [] false t.
Definition out_eqb_masked (m : res text) (p : pyout) : bool :=
  match m, p with
  | Ok a, PyOk b => text_eqb (mask_lines a) (mask_lines b)
  | _, _ => out_eqb m p
  end.
Definition cases_writers (d : doc) (srt : list (bool * pyout)) (vtt : list (vtt_config * pyout)) : list bool :=
  let s := isd_sequence d in
  let tie := seq_tie s in
  map (fun x => out_eqb (srt_of_seq (fst x) s) (snd x)) srt ++
  map (fun x => if line_position (fst x) && tie then out_eqb_masked (vtt_of_seq (fst x) s) (snd x) else out_eqb (vtt_of_seq (fst x) s) (snd x)) vtt.
Definition cases_ties (d : doc) : list bool := [negb (seq_tie (isd_sequence d))].
(* documents whose colour values are distinct equal objects: outside the model's reading of `is`; judged by S only *)
Definition cases_skip (n : nat) : list bool := repeat true n.

Definition cases_wf (srt : list (bool * pyout)) (vtt : list (vtt_config * pyout)) : list bool :=
  map (fun x => match snd x with PyOk t => srt_wf t | PyErr _ => false end) srt ++
  map (fun x => match snd x with PyOk t => vtt_wf t | PyErr _ => false end) vtt.

(* ---- C06 ---------------------------------------------------------------------------------------------------------- *)
Definition scues_of (runs : text -> option (list (Z * rstyle))) (cs : list rcue) : option (list scue) :=
  all_some (map (fun c => match runs (payload_text c) with
                          | Some r => Some (mkSCue (r_begin c) (r_end c) (payload_toks (run_chars r)))
                          | None => None
                          end) cs).
Definition py_scues (l : list (Z * Z * text)) : list scue := map (fun x => mkSCue (fst (fst x)) (snd (fst x)) (payload_toks (snd x))) l.
Fixpoint scues_same (a b : list scue) : bool :=
  match a, b with
  | [], [] => true
  | x :: a', y :: b' => (s_begin x =? s_begin y) && (s_end x =? s_end y) && toks_eqb (s_toks x) (s_toks y) && scues_same a' b'
  | _, _ => false
  end.
Definition c06_ok (d : doc) (ts : res (list Q)) (parse : text -> option (list rcue)) (runs : text -> option (list (Z * rstyle)))
                  (out : pyout) (py : list (Z * Z * text)) : bool :=
  match out, ts with
  | PyOk t, Ok times =>
      match parse t with
      | Some cs => match scues_of runs cs with
                   | Some sc => scues_same sc (py_scues py) && cues_ok d times sc
                   | None => false
                   end
      | None => false
      end
  | _, _ => false
  end.
Fixpoint zip3 {A B C} (a : list A) (b : list B) (f : A -> B -> C) : list C :=
  match a, b with x :: a', y :: b' => f x y :: zip3 a' b' f | _, _ => [] end.
Definition cases_cues (d : doc) (srt : list (bool * pyout)) (vtt : list (vtt_config * pyout)) (py : list (list (Z * Z * text))) : list bool :=
  let ts := sig d in
  zip3 (map snd srt) (firstn (length srt) py) (fun o p => c06_ok d ts srt_parse srt_runs o p) ++
  zip3 (map snd vtt) (skipn (length srt) py) (fun o p => c06_ok d ts vtt_parse vtt_runs o p).

(* ---- C07: runs --------------------------------------------------------------------------------------------------- *)
Definition runs_ok (fmt with_bg : bool) (to_c : rstyle -> option cstyle) (runs : text -> option (list (Z * rstyle)))
                   (seq : list (Q * list elem)) (cs : list rcue) : bool :=
  forallb (fun x =>
             let mine := filter (fun c => r_begin c =? round_ms (fst x)) cs in
             match all_some (map (fun c => match runs (payload_text c) with Some r => map_runs to_c r | None => None end) mine) with
             | Some rs => let got := visible_only (concat rs) in
                          if styled_eqb got (expected_styled false fmt with_bg (snd x)) then true
                          else styled_eqb got (expected_styled true fmt with_bg (snd x))
             | None => false
             end) seq &&
  forallb (fun c => existsb (fun x => r_begin c =? round_ms (fst x)) seq) cs.
Definition cases_runs (d : doc) (srt : list (bool * pyout)) (vtt : list (vtt_config * pyout)) : list bool :=
  match isd_sequence d with
  | Ok seq =>
      map (fun x => match snd x with
                    | PyOk t => match srt_parse t with Some cs => runs_ok (fst x) false srt_cstyle srt_runs seq cs | None => false end
                    | PyErr _ => false
                    end) srt ++
      map (fun x => match snd x with
                    | PyOk t => match vtt_parse t with Some cs => runs_ok true true (vtt_cstyle (style_rules t)) vtt_runs seq cs | None => false end
                    | PyErr _ => false
                    end) vtt
  | Err _ => map (fun _ => false) srt ++ map (fun _ => false) vtt
  end.

(* ---- C07: cue settings (the WebVTT configurations only) ------------------------------------------------------------------ *)
Definition cases_settings (d : doc) (vtt : list (vtt_config * pyout)) : list bool :=
  match isd_sequence d with
  | Ok seq =>
      map (fun x => match snd x with
                    | PyOk t => match vtt_parse t with
                                | Some cs => settings_ok (line_position (fst x)) (text_align (fst x)) seq cs
                                | None => false
                                end
                    | PyErr _ => false
                    end) vtt
  | Err _ => map (fun _ => false) vtt
  end.
(* align-lost-when-paragraphs-merged: text_align is on and a cue covers two or more p elements (which the paragraph-merging
   filter replaces by one unstyled p) whose text-showing paragraphs agree on an alignment *)
Fixpoint count_p (e : elem) : Z :=
  match e with
  | Elem a cs =>
      match e_kind a with
      | KP => 1
      | _ => (fix go (l : list elem) : Z := match l with [] => 0 | c :: l' => count_p c + go l' end) cs
      end
  end.
Definition trig_align_lost (cfg : vtt_config) (seq : list (Q * list elem)) : bool :=
  text_align cfg &&
  existsb (fun x => existsb (fun scope => (2 <=? fold_left (fun n r => n + count_p r) scope 0) &&
                                          match agreed_align (flat_map paragraph_aligns scope) with Some (Some _) => true | _ => false end)
                            (snapshot_scopes (line_position cfg) (snd x))) seq.

(* ---- triggers: per configuration [collapsed; arrow; blank line; snapshot generation failed; SubRip markup in text; style reset
   in a nested span; alignment lost] (true = the trigger does NOT fire) ------------------------------ *)
Definition ntrig : nat := 7.
Definition srt_markup_in_text (cs : list cue) : bool :=
  existsb (fun c => existsb (fun p => match p with PChar _ => false | _ => true end) (srt_lex LText (cue_chars c))) cs.
Definition trig_row (reset alost : bool) (ws_lines : bool) (esc : Z -> text) (markup : bool) (cs : res (list cue)) : list bool :=
  match cs with
  | Ok l => map negb [trig_collapsed l; trig_arrow esc l; trig_blank_line ws_lines esc l; false; markup && srt_markup_in_text l; reset; alost]
  | Err _ => map negb [false; false; false; true; false; reset; alost]
  end.
Definition cases_triggers (d : doc) (srt : list (bool * pyout)) (vtt : list (vtt_config * pyout)) : list bool :=
  match isd_sequence d with
  | Ok seq =>
      let reset := trig_reset_style seq in
      flat_map (fun x => trig_row (fst x && reset) false true esc_none true (srt_cues (fst x) seq)) srt ++
      flat_map (fun x => trig_row reset (trig_align_lost (fst x) seq) false esc_vtt false
                                  (match vtt_cues (fst x) seq with Ok r => Ok (fst r) | Err c => Err c end)) vtt
  | Err _ => flat_map (fun _ => map negb [false; false; false; true; false; false; false]) (map fst srt) ++
             flat_map (fun _ => map negb [false; false; false; true; false; false; false]) (map fst vtt)
  end.
