(* Helpers evaluated by the generated case files of C06/C07 (harness/c06.py, c07.py). *)
From TT Require Import Model.Doc Gen.StyleTables Model.Isd Model.SigTimes Model.TimeCode Model.IsdFilters Gen.CueTables Model.CueWriter.

(* what the implementation did: the returned string, or the stage at which it raised
   (1 = snapshot generation, 3 = negative time, 4 = to_string ValueError, 5 = AttributeError in process_p) *)
Inductive pyout := PyOk (t : text) | PyErr (stage : Z).
Definition err_stage (c : Z) : Z := if (c =? errRubyChildren) || (c =? errCompute) then 1 else c.
Definition out_eqb (m : res text) (p : pyout) : bool :=
  match m, p with
  | Ok a, PyOk b => text_eqb a b
  | Err c, PyErr s => err_stage c =? s
  | _, _ => false
  end.
(* one document, the two SRT configurations and the eight WebVTT configurations *)
Definition cases_writers (d : doc) (srt : list (bool * pyout)) (vtt : list (vtt_config * pyout)) : list bool :=
  let s := isd_sequence d in
  map (fun x => out_eqb (srt_of_seq (fst x) s) (snd x)) srt ++ map (fun x => out_eqb (vtt_of_seq (fst x) s) (snd x)) vtt.
