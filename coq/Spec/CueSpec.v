(* S for C06 and C07, written from the property statements, TTML2 (through the per-leaf specification of C01,
   Spec/IsdSpec.v: chains, chain_visible, displayed), the WebVTT Recommendation section 4 (file structure, cue
   timings and settings, cue text: escapes, tags, classes; STYLE blocks) and the de-facto SubRip grammar
   (counter line / "HH:MM:SS,mmm --> HH:MM:SS,mmm" / one or more text lines / blank line; <b> <i> <u>
   <font color="...">).  Shares no code with Model/IsdFilters.v and Model/CueWriter.v.

   Part A — what the cues must be (C06).
     For consecutive significant times s_i, s_(i+1) let vis_i be the visible text at s_i: for every region, in
     region order, for every paragraph of the body, in document order, the Br/Text leaves whose whole chain of
     ancestors is active at s_i, selected for the region and not display:none (C01's `chain_visible`), in document
     order; a Br is a line break, the end of a paragraph and the end of a region are line breaks, a character of
     text is itself, except that white space (XML's and Unicode's) is a space (a line feed or carriage return inside xml:space="preserve"
     content is a line break: both terminate a line in SubRip and WebVTT files; an XML parser never delivers a carriage
     return, it can only come from a character reference or the API).  Text below rt/rp (ruby annotation and its delimiters) may or may not be part of the payload:
     `annot` selects the reading, and a payload is accepted if it agrees with either.
     White-space normal form (`canon`): every maximal run of spaces/breaks is one break if it holds a break, else
     one space; runs at either end vanish.  (S does not re-specify TTML white-space collapsing — that is C13 — it
     compares modulo it.)   The cue list is
        [ (round_ms s_i, round_ms s_(i+1) or round_ms s_i + 10 s, canon vis_i)  |  vis_i not blank ].
   Part B — what a well-formed file is (C07): `srt_wf`, `vtt_wf`, the cue parsers, and `runs`, the per-character
     style recovered from the tags.
   Part C — what the tags must say (C07): the per-character styles the snapshot prescribes. *)
From TT Require Import Model.Doc Gen.StyleTables Spec.IsdSpec.

(* ================================================================================================ *)
(* Part A                                                                                              *)
(* ================================================================================================ *)
Inductive tok := TChr (c : Z) | TSp | TLb.
Definition tok_eqb (a b : tok) : bool :=
  match a, b with TChr x, TChr y => x =? y | TSp, TSp => true | TLb, TLb => true | _, _ => false end.
Fixpoint toks_eqb (a b : list tok) : bool :=
  match a, b with
  | [], [] => true
  | x :: a', y :: b' => tok_eqb x y && toks_eqb a' b'
  | _, _ => false
  end.

(* white space beyond XML's four characters: Unicode White_Space, plus the C0 information separators U+001C..U+001F (which XML 1.0
   does not admit in documents at all); such characters show nothing *)
Definition blank_points : list Z :=
  [9; 10; 11; 12; 13; 28; 29; 30; 31; 32; 133; 160; 5760; 8192; 8193; 8194; 8195; 8196; 8197; 8198; 8199; 8200; 8201; 8202;
   8232; 8233; 8239; 8287; 12288].
Definition blank_char (c : Z) : bool := existsb (Z.eqb c) blank_points.

(* characters: XML white space (is_space of IsdSpec: TAB LF CR SPACE) and the other blank characters are spaces *)
Definition char_tok (preserve : bool) (c : Z) : tok :=
  if is_space c then (if preserve && ((c =? 10) || (c =? 13)) then TLb else TSp)
  else if blank_char c then TSp else TChr c.
(* the leaf at the end of a chain; its parent's xml:space governs its white space *)
Definition chain_toks (c : list attrs) : list tok :=
  match rev c with
  | a :: rest =>
      match e_kind a with
      | KBr => [TLb]
      | KText => map (char_tok (match rest with p :: _ => e_preserve p | [] => false end)) (e_text a)
      | _ => []
      end
  | [] => []
  end.
Definition is_annotation (c : list attrs) : bool :=
  existsb (fun a => match e_kind a with KRt | KRp | KRtc => true | _ => false end) c.

(* the paragraphs below an element, in document order, each as the list of its leaf chains (from the element down) *)
Fixpoint pgroups (e : elem) : list (list (list attrs)) :=
  match e with
  | Elem a cs =>
      match e_kind a with
      | KP => [chains e]
      | KBr | KText => []
      | _ => map (map (cons a)) ((fix go (l : list elem) : list (list (list attrs)) :=
                                    match l with [] => [] | c :: l' => pgroups c ++ go l' end) cs)
      end
  end.

Definition region_toks (annot : bool) (d : doc) (t : Q) (r : attrs) (sel : option text) : list tok :=
  let riv := resolve root_interval (e_begin r) (e_end r) in
  if is_active t riv && displayed d t riv r then
    match d_body d with
    | None => []
    | Some b =>
        flat_map (fun g => flat_map chain_toks
                             (filter (fun c => chain_visible d t sel root_interval None c && (annot || negb (is_annotation c))) g)
                           ++ [TLb]) (pgroups b)
    end
  else [].

(* the regions of a document, or the default region (no timing, no styles, selected by "no region") *)
Definition spec_default_region : attrs := mkAttrs KRegion (Some default_region_id) None None None [] [] false [] [].
Definition spec_regions (d : doc) : list (attrs * option text) :=
  match d_regions d with
  | [] => [(spec_default_region, None)]
  | l => map (fun r => (eattrs r, e_id (eattrs r))) l
  end.
Definition vis (annot : bool) (d : doc) (t : Q) : list tok :=
  flat_map (fun r => region_toks annot d t (fst r) (snd r) ++ [TLb]) (spec_regions d).

(* white-space normal form *)
Fixpoint canon_go (pending : option tok) (started : bool) (l : list tok) : list tok :=
  match l with
  | [] => []
  | TChr c :: l' => (match pending with Some p => if started then [p] else [] | None => [] end) ++ TChr c :: canon_go None true l'
  | TSp :: l' => canon_go (match pending with Some TLb => Some TLb | _ => Some TSp end) started l'
  | TLb :: l' => canon_go (Some TLb) started l'
  end.
Definition canon (l : list tok) : list tok := canon_go None false l.

(* blank: nothing but white space *)
Definition blank (l : list tok) : bool := forallb (fun t => match t with TChr c => blank_char c | _ => true end) l.

(* nearest millisecond (a tie goes to the even one, as IEEE 754 and Python's round do; the property does not say) *)
Definition round_ms (q : Q) : Z :=
  let n := 1000 * Qnum q in let d := Zpos (Qden q) in
  let f := n / d in let r2 := 2 * (n mod d) in
  if r2 <? d then f else if d <? r2 then f + 1 else if Z.even f then f else f + 1.

Record scue := mkSCue { s_begin : Z ; s_end : Z ; s_toks : list tok }.
Fixpoint cue_spec (annot : bool) (d : doc) (ts : list Q) : list scue :=
  match ts with
  | [] => []
  | t :: ts' =>
      let v := canon (vis annot d t) in
      (if blank v then []
       else [mkSCue (round_ms t) (match ts' with t' :: _ => round_ms t' | [] => round_ms t + 10000 end) v])
      ++ cue_spec annot d ts'
  end.

(* the other side of the comparison: a payload with its tags removed and its escapes resolved *)
Definition payload_toks (chars : text) : list tok := map (char_tok true) chars.
(* WebVTT with line positions writes one cue per region for the same interval: cues with identical times are one
   cue whose payload is the payloads in order, a line break between them *)
Fixpoint group_cues (l : list scue) : list scue :=
  match l with
  | [] => []
  | c :: l' =>
      match group_cues l' with
      | c' :: r => if (s_begin c =? s_begin c') && (s_end c =? s_end c')
                   then mkSCue (s_begin c) (s_end c) (s_toks c ++ TLb :: s_toks c') :: r
                   else c :: c' :: r
      | [] => [c]
      end
  end.
Definition scue_eqb (a b : scue) : bool :=
  (s_begin a =? s_begin b) && (s_end a =? s_end b) && toks_eqb (canon (s_toks a)) (canon (s_toks b)).
Fixpoint scues_eqb (a b : list scue) : bool :=
  match a, b with
  | [], [] => true
  | x :: a', y :: b' => scue_eqb x y && scues_eqb a' b'
  | _, _ => false
  end.
(* the cues of an output file are what the property prescribes *)
Definition cues_ok (d : doc) (ts : list Q) (got : list scue) : bool :=
  let g := group_cues got in scues_eqb (cue_spec false d ts) g || scues_eqb (cue_spec true d ts) g.

(* ================================================================================================ *)
(* Part B: grammars                                                                                    *)
(* ================================================================================================ *)
Definition is_dig (c : Z) : bool := (48 <=? c) && (c <=? 57).
Definition is_blank_sp (c : Z) : bool := (c =? 32) || (c =? 9).

(* lines: LF, CR LF and a lone CR all terminate a line (WebVTT 4.1 "WebVTT line terminator") *)
Fixpoint split_lines_go (cur : text) (t : text) : list text :=
  match t with
  | [] => [rev cur]
  | c :: t' =>
      if c =? 10 then rev cur :: split_lines_go [] t'
      else if c =? 13 then
        rev cur :: match t' with
                   | d :: t'' => if d =? 10 then split_lines_go [] t'' else split_lines_go [] t'
                   | [] => split_lines_go [] t'
                   end
      else split_lines_go (c :: cur) t'
  end.
Definition split_lines (t : text) : list text := split_lines_go [] t.

Fixpoint has_prefix (p t : text) : bool :=
  match p, t with
  | [], _ => true
  | x :: p', y :: t' => (x =? y) && has_prefix p' t'
  | _ :: _, [] => false
  end.
Fixpoint contains (p t : text) : bool :=
  has_prefix p t || match t with [] => false | _ :: t' => contains p t' end.
Definition arrow3 : text := [45; 45; 62].                 (* --> *)
Fixpoint drop_pred (f : Z -> bool) (t : text) : text := match t with c :: t' => if f c then drop_pred f t' else t | [] => [] end.
Fixpoint take_pred (f : Z -> bool) (t : text) : text := match t with c :: t' => if f c then c :: take_pred f t' else [] | [] => [] end.
Fixpoint num_of (acc : Z) (t : text) : Z := match t with [] => acc | c :: t' => num_of (acc * 10 + (c - 48)) t' end.
Definition all_digits (t : text) : bool := match t with [] => false | _ => forallb is_dig t end.

(* a timestamp "H..H:MM:SS<sep>mmm" (two or more hour digits, minutes and seconds below 60) at the start of t *)
Definition parse_ts (sep : Z) (t : text) : option (Z * text) :=
  let h := take_pred is_dig t in
  if (length h <? 2)%nat then None
  else
    match skipn (length h) t with
    | c1 :: m1 :: m2 :: c2 :: s1 :: s2 :: sp :: f1 :: f2 :: f3 :: rest =>
        if (c1 =? 58) && (c2 =? 58) && (sp =? sep) && forallb is_dig [m1; m2; s1; s2; f1; f2; f3] then
          let m := num_of 0 [m1; m2] in let s := num_of 0 [s1; s2] in
          if (m <? 60) && (s <? 60) then Some (((num_of 0 h * 60 + m) * 60 + s) * 1000 + num_of 0 [f1; f2; f3], rest) else None
        else None
    | _ => None
    end.
(* "ts1 <ws>--><ws> ts2 rest" *)
Definition parse_timing (sep : Z) (l : text) : option (Z * Z * text) :=
  match parse_ts sep l with
  | None => None
  | Some (b, r1) =>
      let r2 := drop_pred is_blank_sp r1 in
      if (length r2 <? length r1)%nat && has_prefix arrow3 r2 then
        let r3 := skipn 3 r2 in let r4 := drop_pred is_blank_sp r3 in
        if (length r4 <? length r3)%nat then
          match parse_ts sep r4 with Some (e, rest) => Some (b, e, rest) | None => None end
        else None
      else None
  end.

Record rcue := mkRCue { r_ident : option text ; r_begin : Z ; r_end : Z ; r_settings : text ; r_payload : list text }.
Definition payload_text (c : rcue) : text :=
  (fix join (l : list text) : text := match l with [] => [] | [x] => x | x :: l' => x ++ 10 :: join l' end) (r_payload c).

(* lines up to the first blank line; `is_blank` decides what a blank line is *)
Fixpoint take_block (is_blank : text -> bool) (ls : list text) : list text * list text :=
  match ls with
  | [] => ([], [])
  | l :: ls' => if is_blank l then ([], ls) else let '(a, b) := take_block is_blank ls' in (l :: a, b)
  end.
Fixpoint drop_blank (is_blank : text -> bool) (ls : list text) : list text :=
  match ls with l :: ls' => if is_blank l then drop_blank is_blank ls' else ls | [] => [] end.
(* the blocks of a file: maximal groups of non-blank lines *)
Fixpoint blocks_fuel (fuel : nat) (is_blank : text -> bool) (ls : list text) : list (list text) :=
  match fuel with
  | O => []
  | S k => match drop_blank is_blank ls with
           | [] => []
           | ls' => let '(b, rest) := take_block is_blank ls' in b :: blocks_fuel k is_blank rest
           end
  end.
Definition blocks (is_blank : text -> bool) (ls : list text) : list (list text) := blocks_fuel (S (length ls)) is_blank ls.

(* ---- SubRip ---------------------------------------------------------------------------------------- *)
(* a blank line ends a cue; SubRip readers (ttconv's own among them) take a line of white space for a blank line *)
Definition srt_blank_line (l : text) : bool := forallb blank_char l.
Definition srt_block_cue (b : list text) : option rcue :=
  match b with
  | counter :: timing :: p1 :: ps =>
      if all_digits counter then
        match parse_timing 44 timing with
        | Some (bg, en, rest) =>
            if forallb is_blank_sp rest && negb (existsb (contains arrow3) (p1 :: ps))
            then Some (mkRCue (Some counter) bg en [] (p1 :: ps)) else None
        | None => None
        end
      else None
  | _ => None
  end.
Fixpoint all_some {A} (l : list (option A)) : option (list A) :=
  match l with
  | [] => Some []
  | Some x :: l' => match all_some l' with Some r => Some (x :: r) | None => None end
  | None :: _ => None
  end.
(* strict: no blank line before the first cue (the file may be empty), cues separated by blank lines *)
Definition srt_parse (t : text) : option (list rcue) :=
  let ls := split_lines t in
  match ls with
  | l :: _ => if srt_blank_line l && negb (forallb srt_blank_line ls) then None
              else all_some (map srt_block_cue (blocks srt_blank_line ls))
  | [] => Some []
  end.

(* counters 1, 2, 3 ... ; begin < end ; each cue begins no earlier than the previous one ends (`strict`) or, failing
   that, covers the very same interval (`simultaneous`, WebVTT only) *)
Fixpoint counters_from (k : Z) (l : list rcue) : bool :=
  match l with
  | [] => true
  | c :: l' => match r_ident c with Some i => all_digits i && (num_of 0 i =? k) && negb (has_prefix [48] i && (1 <? length i)%nat) | None => false end
               && counters_from (k + 1) l'
  end.
Fixpoint ordered (simultaneous : bool) (prev : option (Z * Z)) (l : list rcue) : bool :=
  match l with
  | [] => true
  | c :: l' =>
      (r_begin c <? r_end c) &&
      match prev with
      | None => true
      | Some (pb, pe) => (pe <=? r_begin c) || (simultaneous && (pb =? r_begin c) && (pe =? r_end c))
      end && ordered simultaneous (Some (r_begin c, r_end c)) l'
  end.

(* ---- tags --------------------------------------------------------------------------------------------- *)
Inductive tagname := TgB | TgI | TgU | TgFont | TgC | TgV | TgLang | TgRuby | TgRt.
Definition tagname_eqb (a b : tagname) : bool :=
  match a, b with
  | TgB, TgB | TgI, TgI | TgU, TgU | TgFont, TgFont | TgC, TgC | TgV, TgV | TgLang, TgLang | TgRuby, TgRuby | TgRt, TgRt => true
  | _, _ => false
  end.
Inductive ptok :=
| PChar (c : Z)
| POpen (n : tagname) (arg : list text)      (* font: [colour value]; c: the classes *)
| PClose (n : tagname).

Definition t_b : text := [98].  Definition t_i : text := [105].  Definition t_u : text := [117].  Definition t_c : text := [99].
Definition t_v : text := [118].  Definition t_lang : text := [108; 97; 110; 103].  Definition t_ruby : text := [114; 117; 98; 121].
Definition t_rt : text := [114; 116].  Definition t_font : text := [102; 111; 110; 116].

(* split on a separator character *)
Fixpoint split_on_go (sep : Z) (cur : text) (t : text) : list text :=
  match t with
  | [] => [rev cur]
  | c :: t' => if c =? sep then rev cur :: split_on_go sep [] t' else split_on_go sep (c :: cur) t'
  end.
Definition split_on (sep : Z) (t : text) : list text := split_on_go sep [] t.

(* SubRip: the inside of <...> ; anything that is not one of these is text *)
Definition srt_tag (inner : text) : option ptok :=
  if text_eqb inner t_b then Some (POpen TgB []) else if text_eqb inner t_i then Some (POpen TgI [])
  else if text_eqb inner t_u then Some (POpen TgU [])
  else if text_eqb inner (47 :: t_b) then Some (PClose TgB) else if text_eqb inner (47 :: t_i) then Some (PClose TgI)
  else if text_eqb inner (47 :: t_u) then Some (PClose TgU) else if text_eqb inner (47 :: t_font) then Some (PClose TgFont)
  else
    (* font color="VALUE" *)
    let pre := t_font ++ [32; 99; 111; 108; 111; 114; 61; 34] in
    if has_prefix pre inner then
      let v := skipn (length pre) inner in
      match rev v with
      | q :: rv => if (q =? 34) && negb (existsb (Z.eqb 34) rv) then Some (POpen TgFont [rev rv]) else None
      | [] => None
      end
    else None.
(* WebVTT 4.2.2: start tag = name, classes each introduced by ".", optional annotation after a space (v, lang) *)
Definition vtt_name (n : text) : option tagname :=
  if text_eqb n t_b then Some TgB else if text_eqb n t_i then Some TgI else if text_eqb n t_u then Some TgU
  else if text_eqb n t_c then Some TgC else if text_eqb n t_v then Some TgV else if text_eqb n t_lang then Some TgLang
  else if text_eqb n t_ruby then Some TgRuby else if text_eqb n t_rt then Some TgRt else None.
Definition vtt_tag (inner : text) : option ptok :=
  match inner with
  | 47 :: n => match vtt_name n with Some k => Some (PClose k) | None => None end
  | _ =>
      let head := take_pred (fun c => negb (is_blank_sp c)) inner in
      let annotation := skipn (length head) inner in
      match split_on 46 head with
      | n :: classes =>
          match vtt_name n with
          | Some k =>
              let annot_ok := match k with TgV | TgLang => true | _ => match annotation with [] => true | _ => false end end in
              if annot_ok && forallb (fun c => match c with [] => false | _ => true end) classes
              then Some (POpen k (match k with TgC => classes | _ => [] end)) else None
          | None => None
          end
      | [] => None
      end
  end.

(* WebVTT escapes *)
Definition vtt_escape (name : text) : option Z :=
  if text_eqb name [97; 109; 112] then Some 38 else if text_eqb name [108; 116] then Some 60
  else if text_eqb name [103; 116] then Some 62 else if text_eqb name [108; 114; 109] then Some 8206
  else if text_eqb name [114; 108; 109] then Some 8207 else if text_eqb name [110; 98; 115; 112] then Some 160 else None.

Inductive lstate := LText | LTag (buf : text) | LEnt (buf : text).
(* WebVTT cue text: strict (an unknown tag, a stray "<" or "&", an unknown escape make it ill-formed) *)
Fixpoint vtt_lex (s : lstate) (t : text) : option (list ptok) :=
  match t with
  | [] => match s with LText => Some [] | _ => None end
  | c :: t' =>
      match s with
      | LText => if c =? 60 then vtt_lex (LTag []) t' else if c =? 38 then vtt_lex (LEnt []) t'
                 else match vtt_lex LText t' with Some r => Some (PChar c :: r) | None => None end
      | LTag buf => if c =? 62 then match vtt_tag (rev buf), vtt_lex LText t' with Some p, Some r => Some (p :: r) | _, _ => None end
                    else if (c =? 60) || (c =? 10) || (c =? 13) then None else vtt_lex (LTag (c :: buf)) t'
      | LEnt buf => if c =? 59 then match vtt_escape (rev buf), vtt_lex LText t' with Some x, Some r => Some (PChar x :: r) | _, _ => None end
                    else if (c =? 60) || (c =? 38) || (c =? 10) || (c =? 13) || (c =? 32) then None else vtt_lex (LEnt (c :: buf)) t'
      end
  end.
(* SubRip has no escapes: "<" that does not open a known tag is a character *)
Definition chars_of_buf (buf : text) : list ptok := map PChar (60 :: rev buf).
Fixpoint srt_lex (s : lstate) (t : text) : list ptok :=
  match t with
  | [] => match s with LTag buf => chars_of_buf buf | _ => [] end
  | c :: t' =>
      match s with
      | LTag buf => if c =? 62 then match srt_tag (rev buf) with
                                    | Some p => p :: srt_lex LText t'
                                    | None => chars_of_buf buf ++ PChar c :: srt_lex LText t'
                                    end
                    else if c =? 60 then chars_of_buf buf ++ srt_lex (LTag []) t'
                    else srt_lex (LTag (c :: buf)) t'
      | _ => if c =? 60 then srt_lex (LTag []) t' else PChar c :: srt_lex LText t'
      end
  end.

(* per-character style: the open tags, outermost first *)
Record rstyle := mkRStyle { rs_b : bool ; rs_i : bool ; rs_u : bool ; rs_colors : list text }.
Definition style_of_stack (st : list (tagname * list text)) : rstyle :=
  let has k := existsb (fun x => tagname_eqb (fst x) k) st in
  mkRStyle (has TgB) (has TgI) (has TgU)
           (flat_map (fun x => match fst x with TgFont | TgC => snd x | _ => [] end) (rev st)).
(* tags balanced and properly nested: every end tag closes the innermost open element, nothing is left open *)
Fixpoint runs_go (st : list (tagname * list text)) (l : list ptok) : option (list (Z * rstyle)) :=
  match l with
  | [] => match st with [] => Some [] | _ => None end
  | PChar c :: l' => match runs_go st l' with Some r => Some ((c, style_of_stack st) :: r) | None => None end
  | POpen n a :: l' => runs_go ((n, a) :: st) l'
  | PClose n :: l' => match st with (m, _) :: st' => if tagname_eqb n m then runs_go st' l' else None | [] => None end
  end.
Definition srt_runs (payload : text) : option (list (Z * rstyle)) := runs_go [] (srt_lex LText payload).
Definition vtt_runs (payload : text) : option (list (Z * rstyle)) :=
  match vtt_lex LText payload with Some l => runs_go [] l | None => None end.
Definition run_chars (r : list (Z * rstyle)) : text := map fst r.

(* ---- srt_wf ------------------------------------------------------------------------------------------------ *)
Definition srt_wf (t : text) : bool :=
  match srt_parse t with
  | Some cs => counters_from 1 cs && ordered false None cs &&
               forallb (fun c => match srt_runs (payload_text c) with Some _ => true | None => false end) cs
  | None => false
  end.

(* ---- WebVTT --------------------------------------------------------------------------------------------------- *)
Definition vtt_blank_line (l : text) : bool := match l with [] => true | _ => false end.
Definition webvtt_sig : text := [87; 69; 66; 86; 84; 84].
Definition style_kw : text := [83; 84; 89; 76; 69].
Definition note_kw : text := [78; 79; 84; 69].

(* cue settings: the ones this recogniser knows — align and line *)
Definition align_values : list text :=
  [[115; 116; 97; 114; 116]; [99; 101; 110; 116; 101; 114]; [101; 110; 100]; [108; 101; 102; 116]; [114; 105; 103; 104; 116]].
Definition line_align_values : list text := [[115; 116; 97; 114; 116]; [99; 101; 110; 116; 101; 114]; [101; 110; 100]].
Definition mem_text (x : text) (l : list text) : bool := existsb (text_eqb x) l.
(* a percentage: digits, optional fraction, "%", value 0..100 *)
Definition pct_ok (v : text) : bool :=
  match rev v with
  | 37 :: rn =>
      match split_on 46 (rev rn) with
      | [i] => all_digits i && (num_of 0 i <=? 100)
      | [i; f] => all_digits i && all_digits f && ((num_of 0 i <? 100) || ((num_of 0 i =? 100) && (num_of 0 f =? 0)))
      | _ => false
      end
  | _ => false
  end.
Definition int_ok (v : text) : bool := match v with 45 :: r => all_digits r | _ => all_digits v end.
Definition setting_ok (s : text) : option text :=            (* Some name when well formed *)
  match split_on 58 s with
  | [name; value] =>
      if text_eqb name [97; 108; 105; 103; 110] then (if mem_text value align_values then Some name else None)
      else if text_eqb name [108; 105; 110; 101] then
        match split_on 44 value with
        | [p] => if pct_ok p || int_ok p then Some name else None
        | [p; a] => if (pct_ok p || int_ok p) && mem_text a line_align_values then Some name else None
        | _ => None
        end
      else None
  | _ => None
  end.
Fixpoint no_dup_text (l : list text) : bool :=
  match l with [] => true | x :: l' => negb (mem_text x l') && no_dup_text l' end.
Definition split_ws (t : text) : list text :=
  filter (fun x => match x with [] => false | _ => true end) (split_on 32 (map (fun c => if c =? 9 then 32 else c) t)).
Definition settings_ok (s : text) : bool :=
  match all_some (map setting_ok (split_ws s)) with Some names => no_dup_text names | None => false end.

Inductive vblock := VStyle (ls : list text) | VCue (c : rcue) | VNote.
Definition vtt_block (strict : bool) (b : list text) : option vblock :=
  match b with
  | [] => None
  | l1 :: rest =>
      if text_eqb l1 style_kw then (if existsb (contains arrow3) rest then None else Some (VStyle rest))
      else if has_prefix note_kw l1 && (match skipn 4 l1 with [] => true | c :: _ => is_blank_sp c end) &&
              negb (existsb (contains arrow3) b) then Some VNote
      else
        let with_id := negb (contains arrow3 l1) in
        match (if with_id then rest else b) with
        | timing :: payload =>
            match parse_timing 46 timing with
            | Some (bg, en, settings) =>
                if (match settings with [] => true | c :: _ => is_blank_sp c end) && (negb strict || settings_ok settings) &&
                   negb (existsb (contains arrow3) payload)
                then Some (VCue (mkRCue (if with_id then Some l1 else None) bg en settings payload)) else None
            | None => None
            end
        | [] => None
        end
  end.
(* "WEBVTT", optionally followed by a space or tab and anything, then at least one blank line, then blocks;
   STYLE blocks only before the first cue *)
Fixpoint styles_first (seen_cue : bool) (l : list vblock) : bool :=
  match l with
  | [] => true
  | VStyle _ :: l' => negb seen_cue && styles_first seen_cue l'
  | VCue _ :: l' => styles_first true l'
  | VNote :: l' => styles_first seen_cue l'
  end.
Definition vtt_parse_blocks (strict : bool) (t : text) : option (list vblock) :=
  match split_lines t with
  | l1 :: rest =>
      if has_prefix webvtt_sig l1 && (match skipn 6 l1 with [] => true | c :: _ => is_blank_sp c end) then
        match rest with
        | [] => Some []
        | l2 :: _ => if vtt_blank_line l2 then all_some (map (vtt_block strict) (blocks vtt_blank_line rest)) else None
        end
      else None
  | [] => None
  end.
Definition cues_of_blocks (l : list vblock) : list rcue := flat_map (fun b => match b with VCue c => [c] | _ => [] end) l.
(* the cues of a file, whatever its cue settings say (the settings are judged by vtt_wf) *)
Definition vtt_parse (t : text) : option (list rcue) :=
  match vtt_parse_blocks false t with Some bs => Some (cues_of_blocks bs) | None => None end.

(* cue identifiers, when the file has them on every cue, are 1, 2, 3, ...; a file without any identifier is fine *)
Definition identifiers_ok (cs : list rcue) : bool :=
  forallb (fun c => match r_ident c with None => true | Some _ => false end) cs || counters_from 1 cs.
Definition vtt_wf (t : text) : bool :=
  match vtt_parse_blocks true t with
  | Some bs => let cs := cues_of_blocks bs in
               styles_first false bs && identifiers_ok cs && ordered true None cs &&
               forallb (fun c => match vtt_runs (payload_text c) with Some _ => true | None => false end) cs
  | None => false
  end.

(* ---- the STYLE block: "::cue(.NAME) {" / "  PROPERTY: VALUE;" / "}" rules (and the bare "::cue {" rule) ------------- *)
Definition cue_sel_pre : text := [58; 58; 99; 117; 101; 40; 46].      (* ::cue(.  *)
Definition trim_sp (t : text) : text := rev (drop_pred is_blank_sp (rev (drop_pred is_blank_sp t))).
Fixpoint css_rules (ls : list text) : list (text * text * text) :=      (* class, property, value *)
  match ls with
  | sel :: decl :: close :: ls' =>
      (if has_prefix cue_sel_pre sel && text_eqb (trim_sp close) [125] then
         let cls := take_pred (fun c => negb (c =? 41)) (skipn (length cue_sel_pre) sel) in
         match split_on 58 (trim_sp decl) with
         | [p; v] => match rev (trim_sp v) with 59 :: rv => [(cls, trim_sp p, trim_sp (rev rv))] | _ => [] end
         | _ => []
         end
       else []) ++ css_rules ls'
  | _ => []
  end.
Definition style_rules (t : text) : list (text * text * text) :=
  match vtt_parse_blocks false t with
  | Some bs => flat_map (fun b => match b with VStyle ls => css_rules ls | _ => [] end) bs
  | None => []
  end.

(* ================================================================================================ *)
(* Part C: what the tags must say                                                                      *)
(* ================================================================================================ *)
(* the style of a character = the computed style of the span that holds it.  flags: bold, italic, underline;
   colour and background colour as packed RGBA when they differ from the defaults (white / transparent; the background
   of an enclosing span shows through a transparent one) *)
Record cstyle := mkCStyle { cs_b : bool ; cs_i : bool ; cs_u : bool ; cs_color : option Z ; cs_bg : option Z }.
Definition plain_style : cstyle := mkCStyle false false false None None.
Definition white_rgba : Z := 4294967295.
Definition span_style (outer_bg : option Z) (a : attrs) : cstyle :=
  mkCStyle (match sget (e_styles a) p_FontWeight with Some (VEnum w) => w =? e_FontWeightType_bold | _ => false end)
           (match sget (e_styles a) p_FontStyle with Some (VEnum s) => s =? e_FontStyleType_italic | _ => false end)
           (match sget (e_styles a) p_TextDecoration with Some (VTextDec u _ _) => u =? 1 | _ => false end)
           (match sget (e_styles a) p_Color with Some (VColor c) => if c =? white_rgba then None else Some c | _ => None end)
           (match sget (e_styles a) p_BackgroundColor with
            | Some (VColor c) => if c mod 256 =? 0 then outer_bg else Some c
            | _ => outer_bg
            end).
(* the styled characters of a snapshot element.  Ruby: base text (below rb / rbc) is styled like any other text; text below rt / rtc / rp
   (annotations and their delimiters) may or may not be part of the payload, as in Part A: `annot` selects the reading *)
Fixpoint styled_chars (annot : bool) (cur : cstyle) (e : elem) : list (Z * cstyle) :=
  match e with
  | Elem a cs =>
      match e_kind a with
      | KText => map (fun c => (c, cur)) (e_text a)
      | KBr => [(10, cur)]
      | k => let cur' := match k with KSpan => span_style (cs_bg cur) a | _ => cur end in
             if (match k with KRt | KRtc | KRp => negb annot | _ => false end) then []
             else (fix go (l : list elem) : list (Z * cstyle) := match l with [] => [] | c :: l' => styled_chars annot cur' c ++ go l' end) cs
      end
  end.
Definition snapshot_styled (annot : bool) (regions : list elem) : list (Z * cstyle) := flat_map (styled_chars annot plain_style) regions.
Definition visible_char (c : Z) : bool := negb (blank_char c).
Definition cstyle_eqb (a b : cstyle) : bool :=
  Bool.eqb (cs_b a) (cs_b b) && Bool.eqb (cs_i a) (cs_i b) && Bool.eqb (cs_u a) (cs_u b) &&
  match cs_color a, cs_color b with Some x, Some y => x =? y | None, None => true | _, _ => false end &&
  match cs_bg a, cs_bg b with Some x, Some y => x =? y | None, None => true | _, _ => false end.

(* reading a colour "#rrggbbaa" *)
Definition hexval (c : Z) : option Z :=
  if is_dig c then Some (c - 48) else if (97 <=? c) && (c <=? 102) then Some (c - 87)
  else if (65 <=? c) && (c <=? 70) then Some (c - 55) else None.
Fixpoint hex_num (acc : Z) (t : text) : option Z :=
  match t with [] => Some acc | c :: t' => match hexval c with Some v => hex_num (acc * 16 + v) t' | None => None end end.
Definition parse_rgba (v : text) : option Z :=
  match v with 35 :: h => if (length h =? 8)%nat then hex_num 0 h else None | _ => None end.

(* SubRip: the innermost <font color> gives the colour *)
Definition srt_cstyle (r : rstyle) : option cstyle :=
  match rev (rs_colors r) with
  | [] => Some (mkCStyle (rs_b r) (rs_i r) (rs_u r) None None)
  | v :: _ => match parse_rgba v with
              | Some c => Some (mkCStyle (rs_b r) (rs_i r) (rs_u r) (if c =? white_rgba then None else Some c) None)
              | None => None
              end
  end.
(* WebVTT: classes are resolved through the STYLE block; the innermost class with a color / background-color rule wins *)
Definition color_kw : text := [99; 111; 108; 111; 114].
Definition bgcolor_kw : text := [98; 97; 99; 107; 103; 114; 111; 117; 110; 100; 45; 99; 111; 108; 111; 114].
Fixpoint class_lookup (rules : list (text * text * text)) (cls : text) : option (text * text) :=
  match rules with
  | [] => None
  | (c, p, v) :: rules' => if text_eqb c cls then Some (p, v) else class_lookup rules' cls
  end.
Fixpoint resolve_classes (rules : list (text * text * text)) (classes : list text) (fg bg : option Z) : option (option Z * option Z) :=
  match classes with
  | [] => Some (fg, bg)
  | c :: cl =>
      match class_lookup rules c with
      | Some (p, v) =>
          match parse_rgba v with
          | Some x => if text_eqb p color_kw then resolve_classes rules cl (Some x) bg
                      else if text_eqb p bgcolor_kw then resolve_classes rules cl fg (Some x) else None
          | None => None
          end
      | None => None                              (* a class no rule defines *)
      end
  end.
Definition vtt_cstyle (rules : list (text * text * text)) (r : rstyle) : option cstyle :=
  match resolve_classes rules (rs_colors r) None None with
  | Some (fg, bg) =>
      Some (mkCStyle (rs_b r) (rs_i r) (rs_u r)
                     (match fg with Some c => if c =? white_rgba then None else Some c | None => None end)
                     (match bg with Some c => if c mod 256 =? 0 then None else Some c | None => None end))
  | None => None
  end.
Fixpoint map_runs (f : rstyle -> option cstyle) (l : list (Z * rstyle)) : option (list (Z * cstyle)) :=
  match l with
  | [] => Some []
  | (c, r) :: l' => match f r, map_runs f l' with Some s, Some rest => Some ((c, s) :: rest) | _, _ => None end
  end.
Fixpoint styled_eqb (a b : list (Z * cstyle)) : bool :=
  match a, b with
  | [], [] => true
  | (c, s) :: a', (c', s') :: b' => (c =? c') && cstyle_eqb s s' && styled_eqb a' b'
  | _, _ => false
  end.
Definition visible_only (l : list (Z * cstyle)) : list (Z * cstyle) := filter (fun x => visible_char (fst x)) l.
(* the tags of one interval's payloads say what the snapshot prescribes, character by character (white space aside);
   `formatting = false` prescribes no style at all; SubRip has no background colour *)
Definition expected_styled (annot formatting with_bg : bool) (regions : list elem) : list (Z * cstyle) :=
  map (fun x => (fst x, if formatting then (if with_bg then snd x else mkCStyle (cs_b (snd x)) (cs_i (snd x)) (cs_u (snd x)) (cs_color (snd x)) None)
                        else plain_style))
      (visible_only (snapshot_styled annot regions)).
