(* S for C04 (styling): the specified style set of an element, written from TTML2 section 10.4.2 (style association:
   inline, referential, chained referential, nested styling) and IMSC 1.1.  It shares no code with the model of the reader.

   For every style property at most one attribute is "specified" on an element; in decreasing priority:
     1. inline: a style attribute on the element itself;
     2. nested: a style attribute on a <style> child (regions only), earlier children first;
     3. referential: the style sets of the <style> elements named by the element's style attribute, LATER references first;
        the style set of a <style> element is its own attributes, then (chained referential styling) the style sets of the
        styles it references, later references first.  A reference to a style that is not defined is ignored; of two <style>
        elements with the same xml:id the first counts; a reference back to a style that is being resolved is ignored
        (loops are an error in TTML2).
   An attribute whose value is not a well-formed value of its property is ignored everywhere.
   The result names the winning attribute (name and string); [wf] tells which strings are well-formed values (in the harness:
   the generator's table), [prop_of] which attribute names are style attributes. *)
From TT Require Import Base.Prelude Base.ImscXml Spec.TtmlTimingSpec.
Local Open Scope Z_scope.

Definition smap := list (Z * (qname * text)).     (* property -> the attribute that specifies it *)

Section StyleSpec.
  Variable prop_of : qname -> option Z.
  Variable wf : qname -> text -> bool.

  Fixpoint has_prop (m : smap) (p : Z) : bool := match m with [] => false | (k, _) :: m' => (k =? p) || has_prop m' p end.
  (* a takes precedence over b *)
  Definition over (a b : smap) : smap := a ++ filter (fun e => negb (has_prop a (fst e))) b.

  (* the well-formed style attributes of an attribute list (an XML element has each attribute name at most once) *)
  Fixpoint own (attrs : list (qname * text)) : smap :=
    match attrs with
    | [] => []
    | (q, v) :: a' => match prop_of q with
                      | Some p => if wf q v then over [(p, (q, v))] (own a') else own a'
                      | None => own a'
                      end
    end.

  Fixpoint split_refs (s : text) (cur : text) : list text :=
    match s with
    | [] => [cur]
    | c :: s' => if c =? 32 then cur :: split_refs s' [] else split_refs s' (cur ++ [c])
    end.
  Definition refs_of (attrs : list (qname * text)) : list text :=
    match get_attr attrs A_style with Some v => split_refs v [] | None => [] end.

  Variable styles : list xml.       (* the <style> children of the <styling> element *)

  Definition find_style (i : text) : option xml :=
    find (fun s => match get_attr (x_attrs s) A_id with Some j => text_eqb i j | None => false end) styles.

  (* the style set of the style named i; [visiting]: the styles being resolved *)
  Fixpoint style_set (fuel : nat) (visiting : list text) (i : text) : smap :=
    match fuel with
    | O => []
    | S k =>
        match find_style i with
        | None => []
        | Some s =>
            fold_left (fun acc r => if existsb (text_eqb r) (i :: visiting) then acc else over acc (style_set k (i :: visiting) r))
                      (rev (refs_of (x_attrs s))) (own (x_attrs s))
        end
    end.

  Definition referenced (attrs : list (qname * text)) : smap :=
    fold_left (fun acc r => over acc (style_set (S (length styles)) [] r)) (rev (refs_of attrs)) [].

  Definition nested (cs : list xml) : smap :=
    fold_left (fun acc c => if qname_eqb (x_tag c) T_style then over acc (own (x_attrs c)) else acc) cs [].

  (* the specified style set of element x *)
  Definition specified (x : xml) : smap :=
    let attrs := x_attrs x in
    match s_kind (x_tag x) attrs with
    | Some KRegion => over (own attrs) (over (nested (x_children x)) (referenced attrs))
    | _ => over (own attrs) (referenced attrs)
    end.

  (* the styled elements of a content tree, in document order (set carries an animation, not a style set) *)
  Fixpoint styled_elements (x : xml) : list xml :=
    match x with
    | X tag attrs txt tail cs =>
        match s_kind tag attrs with
        | None | Some KSet => []
        | Some _ => x :: (fix go (l : list xml) : list xml := match l with [] => [] | c :: l' => styled_elements c ++ go l' end) cs
        end
    end.
End StyleSpec.

Definition doc_styles (tt : xml) : list xml :=
  match first_child (x_children tt) T_head with
  | Some h => match first_child (x_children h) T_styling with
              | Some s => filter (fun c => qname_eqb (x_tag c) T_style) (x_children s)
              | None => []
              end
  | None => []
  end.

(* the specified style sets of the regions and of the elements of the body, in document order *)
Definition doc_specified (prop_of : qname -> option Z) (wf : qname -> text -> bool) (tt : xml) : list smap :=
  let st := doc_styles tt in
  List.map (specified prop_of wf st)
           (doc_regions tt ++ match first_child (x_children tt) T_body with Some b => styled_elements b | None => [] end).

(* document-level initial values: the <initial> children of <styling>, a later one overriding an earlier one *)
Definition doc_initial (prop_of : qname -> option Z) (wf : qname -> text -> bool) (tt : xml) : smap :=
  match first_child (x_children tt) T_head with
  | Some h => match first_child (x_children h) T_styling with
              | Some s => fold_left (fun acc c => if qname_eqb (x_tag c) T_initial then over (own prop_of wf (x_attrs c)) acc else acc)
                                    (x_children s) []
              | None => []
              end
  | None => []
  end.
