(* C18 — what the property statement requires of one run, written from the statement alone (shares nothing with Model/).

   "Given arbitrary text or bytes, each reader terminates and either returns a document, returns nothing after logging a
    fatal message, or raises an input-format error (XML parse error, ValueError, struct.error, UnicodeDecodeError); it never
    fails with an internal error such as AttributeError, TypeError, IndexError, KeyError, UnboundLocalError, AssertionError or
    RecursionError.  Every document a reader returns can be snapshotted at any time, filtered, and written by every writer
    under every configuration without an exception."

   An observation of a run lists what was seen at the reader and at each downstream stage. *)
From TT Require Import Base.Prelude.

(* exception classes as the observer reports them (by Python type, most specific first) *)
Inductive exc_class :=
  | XXmlParse            (* raised by the XML layer before the IMSC reader runs / xml ParseError *)
  | XUnicodeDecode
  | XStruct
  | XValue               (* ValueError that is none of the above *)
  | XAttribute | XType | XIndex | XKey | XUnboundLocal | XAssertion | XRecursion
  | XOther               (* any other exception type (ZeroDivisionError, OverflowError, RuntimeError, ...) *)
  | XTimeout.            (* no result within the time limit / the process died *)

Inductive reader_obs :=
  | RDoc                 (* returned a document *)
  | RNone                (* returned None (after LOGGER.fatal) *)
  | RRaised (e : exc_class).

(* the documented input-format errors *)
Definition format_error (e : exc_class) : bool :=
  match e with XXmlParse | XUnicodeDecode | XStruct | XValue => true | _ => false end.

Definition reader_ok (r : reader_obs) : bool :=
  match r with RDoc | RNone => true | RRaised e => format_error e end.

(* downstream of a returned document: every stage (significant times, each snapshot, the ISD sequence, each filter, each
   writer under each configuration, serialisation) either completed or raised; nothing may raise *)
Definition downstream_ok (stages : list (option exc_class)) : bool :=
  forallb (fun s => match s with None => true | Some _ => false end) stages.

Record run_obs := { ro_reader : reader_obs; ro_downstream : list (option exc_class) }.

Definition robust (o : run_obs) : bool :=
  reader_ok (ro_reader o) &&
  match ro_reader o with
  | RDoc => downstream_ok (ro_downstream o)
  | _ => true                                  (* nothing was returned: nothing to process *)
  end.

(* decoding of the observer's integer codes (harness/guards18.py) *)
Definition exc_of_code (c : Z) : exc_class :=
  if c =? 1 then XXmlParse else if c =? 2 then XUnicodeDecode else if c =? 3 then XStruct else if c =? 4 then XValue
  else if c =? 5 then XAttribute else if c =? 6 then XType else if c =? 7 then XIndex else if c =? 8 then XKey
  else if c =? 9 then XUnboundLocal else if c =? 10 then XAssertion else if c =? 11 then XRecursion
  else if c =? 13 then XTimeout else XOther.
Definition reader_of_code (c : Z) : reader_obs :=
  if c =? 0 then RDoc else if c =? (-1) then RNone else RRaised (exc_of_code c).
Definition obs_of_codes (r : Z) (down : list Z) : run_obs :=
  {| ro_reader := reader_of_code r; ro_downstream := map (fun c => if c =? 0 then None else Some (exc_of_code c)) down |}.
