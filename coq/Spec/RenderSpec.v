(* S for C14: two snapshots render identically when they agree on every region that paints something: a region
   paints when it has content, or when its background is shown (showBackground = always), not fully transparent,
   with non-zero opacity and visible. *)
From TT Require Import Model.Doc Gen.StyleTables.

Definition paints (r : elem) : bool :=
  let st := e_styles (eattrs r) in
  match echildren r with
  | _ :: _ => true
  | [] =>
      match sget st p_ShowBackground with Some (VEnum x) => x =? e_ShowBackgroundType_always | _ => false end &&
      match sget st p_BackgroundColor with Some (VColor c) => negb (c mod 256 =? 0) | _ => false end &&
      match sget st p_Opacity with Some (VNum q) => negb (Qeq_bool q 0) | _ => true end &&
      match sget st p_Visibility with Some (VEnum x) => negb (x =? e_VisibilityType_hidden) | _ => true end
  end.
Definition render (rs : list elem) : list elem := filter paints rs.

(* a snapshot that is obtained from another one by leaving out whole regions *)
Inductive omits_regions : list elem -> list elem -> Prop :=
| omits_nil : omits_regions [] []
| omits_skip : forall r a b, omits_regions a b -> omits_regions a (r :: b)
| omits_keep : forall r a b, omits_regions a b -> omits_regions (r :: a) (r :: b).
(* ... leaving out only regions that satisfy P (P := "paints nothing" is the property's allowance) *)
Inductive omits_only (P : elem -> Prop) : list elem -> list elem -> Prop :=
| omits_only_nil : omits_only P [] []
| omits_only_skip : forall r a b, P r -> omits_only P a b -> omits_only P a (r :: b)
| omits_only_keep : forall r a b, omits_only P a b -> omits_only P (r :: a) (r :: b).
