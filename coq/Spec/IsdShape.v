(* S for C13: the documented shape of a snapshot (doc/isd.md and the property statement), as an executable
   checker over the snapshot's regions.  Each clause is a separate boolean so that a failure names its clause. *)
From TT Require Import Model.Doc Gen.StyleTables.

Fixpoint all_elems (e : elem) : list elem :=
  match e with Elem a cs => e :: (fix go (l : list elem) : list elem := match l with [] => [] | c :: l' => all_elems c ++ go l' end) cs end.
Definition all_of (rs : list elem) : list elem := flat_map all_elems rs.
Definition every (rs : list elem) (p : elem -> bool) : bool := forallb p (all_of rs).
Definition kind_of (e : elem) : kind := e_kind (eattrs e).
Definition kinds (cs : list elem) : list kind := map kind_of cs.
Fixpoint klist_eqb (a b : list kind) : bool :=
  match a, b with [] , [] => true | x :: a', y :: b' => kind_eqb x y && klist_eqb a' b' | _, _ => false end.
Definition kin (k : kind) (l : list kind) : bool := existsb (kind_eqb k) l.

(* content model of doc/data_model.md *)
Definition children_ok (e : elem) : bool :=
  let ks := kinds (echildren e) in
  match kind_of e with
  | KRegion => match ks with [] => true | [KBody] => true | _ => false end
  | KBody => forallb (fun k => kin k [KDiv]) ks
  | KDiv => forallb (fun k => kin k [KP; KDiv]) ks
  | KP => forallb (fun k => kin k [KSpan; KBr; KRuby]) ks
  | KSpan => forallb (fun k => kin k [KSpan; KBr; KText]) ks
  | KBr | KText => match ks with [] => true | _ => false end
  | KRuby => klist_eqb ks [KRb; KRt] || klist_eqb ks [KRb; KRp; KRt; KRp] || klist_eqb ks [KRbc; KRtc] || klist_eqb ks [KRbc; KRtc; KRtc]
  | KRb | KRt | KRp => forallb (fun k => kin k [KSpan]) ks
  | KRbc => forallb (fun k => kin k [KRb]) ks
  | KRtc => forallb (fun k => kin k [KRt]) ks ||
            match ks with
            | KRp :: rest => match rev rest with KRp :: mid => forallb (fun k => kin k [KRt]) mid | _ => false end
            | _ => false
            end
  end.

Definition applicable_to (k : kind) : list Z :=
  match assoc_z applicable_table (kind_num k) with Some l => l | None => [] end.
Definition subset (a b : list Z) : bool := forallb (fun x => existsb (Z.eqb x) b) a.
Definition styles_exact (e : elem) : bool :=
  let keys := skeys (e_styles (eattrs e)) in
  match kind_of e with
  | KBr | KText => subset keys (applicable_to (kind_of e))
  | k => subset keys (applicable_to k) && subset (applicable_to k) keys
  end.

(* every length of every value is root-container relative *)
Definition root_relative (l : len) : bool := match lu l with Urh | Urw => true | _ => false end.
Definition olen_ok (o : option len) : bool := match o with Some l => root_relative l | None => true end.
Definition value_units_ok (v : value) : bool :=
  match v with
  | VLen l => root_relative l
  | VExtent h w => root_relative h && root_relative w
  | VCoord x y => root_relative x && root_relative y
  | VPos h _ v _ => root_relative h && root_relative v
  | VPad b e a s => root_relative b && root_relative e && root_relative a && root_relative s
  | VOutline _ t => root_relative t
  | VShadow ss => forallb (fun s => let '(x, y, b, _) := s in root_relative x && root_relative y && olen_ok b) ss
  | VReserve _ l => olen_ok l
  | _ => true
  end.
(* except_props: properties excused by a recorded finding *)
Definition units_ok (except_props : list Z) (e : elem) : bool :=
  forallb (fun kv => existsb (Z.eqb (fst kv)) except_props || value_units_ok (snd kv)) (e_styles (eattrs e)).

Definition lens_equal (a b : len) : bool := unit_eqb (lu a) (lu b) && Qeq_bool (lv a) (lv b).
Definition origin_position_ok (e : elem) : bool :=
  match kind_of e with
  | KRegion =>
      match sget (e_styles (eattrs e)) p_Origin, sget (e_styles (eattrs e)) p_Position with
      | Some (VCoord x y), Some (VPos h he v ve) =>
          lens_equal x h && lens_equal y v && (he =? e_PositionType_HEdge_left) && (ve =? e_PositionType_VEdge_top)
      | _, _ => false
      end
  | _ => true
  end.

Definition not_display_none (e : elem) : bool :=
  match sget (e_styles (eattrs e)) p_Display with Some (VEnum x) => negb (x =? e_DisplayType_none) | _ => true end.

Definition nonempty_ok (e : elem) : bool :=
  match kind_of e with
  | KText => match e_text (eattrs e) with [] => false | _ => true end
  | KSpan => match echildren e with [] => false | _ => true end
  | _ => true
  end.

(* collapsed white space: no tab/CR/LF and no two consecutive spaces in text whose parent is not xml:space=preserve;
   skip_rp: excuse text below rp (recorded finding) *)
Fixpoint collapsed (prev_space : bool) (t : text) : bool :=
  match t with
  | [] => true
  | c :: t' => if (c =? 9) || (c =? 10) || (c =? 13) then false
               else if c =? 32 then (negb prev_space && collapsed true t') else collapsed false t'
  end.
Fixpoint ws_ok (skip_rp : bool) (under_rp : bool) (e : elem) : bool :=
  match e with
  | Elem a cs =>
      let under := under_rp || kind_eqb (e_kind a) KRp in
      (fix go (l : list elem) : bool :=
         match l with
         | [] => true
         | c :: l' =>
             (match kind_of c with
              | KText => e_preserve a || (skip_rp && under) || collapsed false (e_text (eattrs c))
              | _ => ws_ok skip_rp under c
              end) && go l'
         end) cs
  end.

Definition empty_region_ok (r : elem) : bool :=
  match echildren r with
  | [] => match sget (e_styles (eattrs r)) p_ShowBackground with Some (VEnum x) => x =? e_ShowBackgroundType_always | _ => false end
  | _ => true
  end.

(* the clauses, in a fixed order (the check names them by index) *)
Definition shape_clauses (units_except : list Z) (skip_rp : bool) (rs : list elem) : list bool :=
  [ every rs (fun e => match e_begin (eattrs e), e_end (eattrs e) with None, None => true | _, _ => false end);   (* 0 no timing *)
    every rs (fun e => match e_anims (eattrs e) with [] => true | _ => false end);                               (* 1 no animation *)
    every rs (fun e => match e_region (eattrs e) with None => true | _ => false end);                            (* 2 no region refs *)
    forallb (fun r => kind_eqb (kind_of r) KRegion) rs && every rs children_ok;                                  (* 3 content model *)
    every rs styles_exact;                                                                                       (* 4 applicable styles *)
    every rs (units_ok units_except);                                                                            (* 5 rh/rw lengths *)
    every rs origin_position_ok;                                                                                 (* 6 origin = position *)
    every rs not_display_none;                                                                                   (* 7 no display none *)
    every rs nonempty_ok;                                                                                        (* 8 no empty text / childless span *)
    forallb (ws_ok skip_rp false) rs;                                                                            (* 9 white space collapsed *)
    forallb empty_region_ok rs ].                                                                                (* 10 empty regions *)
Definition isd_shape (rs : list elem) : bool := forallb (fun b => b) (shape_clauses [] false rs).

(* ---- what the shape theorems assume of the SOURCE document -------------------------------------------------------
   doc/data_model.md, as enforced by the model's push_child / set_style and established for every document
   reachable through the API by C15.  Only what the clauses need is asked for:
   * content (clauses 3, 8, 9): every registered region is a region element, the body is a body element, and every
     element below the body has children of the kinds its class accepts.  Nothing is asked of ruby containers and
     ruby text containers (their child patterns are re-checked by Ruby/Rtc.push_children when the snapshot is built),
     nor of what hangs below the registered region elements (snapshot generation does not read it);
   * values (clause 5): a style property that ISD._compute_styles does not compute carries no length in a unit other
     than rh/rw — on elements, in animation steps and in the document's initial values (every such property is an
     enumeration, colour, number or font list in style_properties.py, so StyleProperty.validate implies this). *)
Definition src_children_ok (e : elem) : bool :=
  match kind_of e with
  | KRuby | KRtc => true
  | _ => children_ok e
  end.
Definition doc_content_wf (d : doc) : bool :=
  forallb (fun r => kind_eqb (kind_of r) KRegion) (d_regions d) &&
  match d_body d with
  | None => true
  | Some b => kind_eqb (kind_of b) KBody && forallb src_children_ok (all_elems b)
  end.

Definition computed_prop (p : Z) : bool := existsb (Z.eqb p) ordered_style_props.
Definition src_value_ok (p : Z) (v : value) : bool := computed_prop p || value_units_ok v.
Definition src_values_ok (e : elem) : bool :=
  forallb (fun kv => src_value_ok (fst kv) (snd kv)) (e_styles (eattrs e)) &&
  forallb (fun s => src_value_ok (a_prop s) (a_val s)) (e_anims (eattrs e)).
Definition doc_values_wf (d : doc) : bool :=
  forallb (fun kv => src_value_ok (fst kv) (snd kv)) (d_initials d) &&
  forallb src_values_ok (d_regions d) &&
  match d_body d with None => true | Some b => forallb src_values_ok (all_elems b) end.

Definition doc_wf (d : doc) : bool := doc_content_wf d && doc_values_wf d.
