(* S for C16: what the property statement requires of the document d' that the LCD filter leaves behind, given
   the source document d and the configuration (sa = safe_area, pta = preserve_text_align, color, bg).
   Written from the property text; shares no code with Model/Lcd.v.  Every clause comes as a Prop (used by the
   theorems) and as a boolean checker (evaluated by the generated case files on the implementation's output).
     1  no animation step anywhere
     2  style keys (elements, regions, initial values) within displayAlign/extent/origin plus color, backgroundColor,
        textAlign "as configured": a configured colour/background is the only value those keys take, textAlign is
        center unless it is preserved
     3  every region has origin (sa%, sa%) and extent ((100-2sa)%, (100-2sa)%)
     4  merged: the remaining regions are pairwise different in (timing, writing mode in the source, resulting
        displayAlign, and — when text alignment is preserved — their own textAlign); redirected: the body keeps its shape, every reference names a remaining region, references
        to a remaining region are untouched, references to a removed region all go to one remaining region with
        the same timing
     5  text timeline: at every t the visible leaves (TTML2 semantics of Spec/IsdSpec.v), tagged with their
        paragraph, are the same multiset before and after — for documents without display/visibility/opacity
     6  computed colour / background / alignment of a snapshot; preserved alignment: the static tts:textAlign cascade of every
        element in every region is unchanged (computed_align, at the end of this file)
   (totality and idempotence are stated directly in Properties/C16.v) *)
From Coq Require Import Permutation.
From TT Require Import Model.Doc Gen.StyleTables Spec.IsdSpec.

(* all attribute records of a tree, in document order *)
Fixpoint elems_of (e : elem) : list attrs := match e with Elem a cs => a :: flat_map elems_of cs end.
Definition body_attrs (d : doc) : list attrs := match d_body d with Some b => elems_of b | None => [] end.
Definition region_attrs (d : doc) : list attrs := flat_map elems_of (d_regions d).
Definition doc_attrs (d : doc) : list attrs := region_attrs d ++ body_attrs d.

(* ---- 1 ------------------------------------------------------------------------------------------------- *)
Definition no_anim (d' : doc) : Prop := forall a, In a (doc_attrs d') -> e_anims a = [].
Definition no_anim_b (d' : doc) : bool :=
  forallb (fun a => match e_anims a with [] => true | _ => false end) (doc_attrs d').

(* ---- 2 ------------------------------------------------------------------------------------------------- *)
Definition allowed (pta : bool) (color bg : option Z) (p : Z) (v : value) : Prop :=
  p = p_DisplayAlign \/ p = p_Extent \/ p = p_Origin \/
  (p = p_Color /\ match color with Some c => v = VColor c | None => True end) \/
  (p = p_BackgroundColor /\ match bg with Some c => v = VColor c | None => True end) \/
  (p = p_TextAlign /\ (pta = false -> v = VEnum e_TextAlignType_center)).
Definition is_color (v : value) (c : Z) : bool := match v with VColor x => x =? c | _ => false end.
Definition allowed_b (pta : bool) (color bg : option Z) (kv : Z * value) : bool :=
  let (p, v) := kv in
  (p =? p_DisplayAlign) || (p =? p_Extent) || (p =? p_Origin) ||
  ((p =? p_Color) && match color with Some c => is_color v c | None => true end) ||
  ((p =? p_BackgroundColor) && match bg with Some c => is_color v c | None => true end) ||
  ((p =? p_TextAlign) && (pta || match v with VEnum x => x =? e_TextAlignType_center | _ => false end)).
Definition whitelist (pta : bool) (color bg : option Z) (d' : doc) : Prop :=
  (forall a p v, In a (doc_attrs d') -> In (p, v) (e_styles a) -> allowed pta color bg p v) /\
  (forall p v, In (p, v) (d_initials d') -> allowed pta color bg p v).
Definition whitelist_b (pta : bool) (color bg : option Z) (d' : doc) : bool :=
  forallb (fun a => forallb (allowed_b pta color bg) (e_styles a)) (doc_attrs d') &&
  forallb (allowed_b pta color bg) (d_initials d').

(* ---- 3 ------------------------------------------------------------------------------------------------- *)
Definition pct_len (z : Z) : len := mkLen (inject_Z z) Upct.
Definition at_safe_area (sa : Z) (a : attrs) : Prop :=
  sget (e_styles a) p_Origin = Some (VCoord (pct_len sa) (pct_len sa)) /\
  sget (e_styles a) p_Extent = Some (VExtent (pct_len (100 - 2 * sa)) (pct_len (100 - 2 * sa))).
Definition safe_area (sa : Z) (d' : doc) : Prop := forall r, In r (d_regions d') -> at_safe_area sa (eattrs r).
Definition is_pct (l : len) (z : Z) : bool := unit_eqb (lu l) Upct && Qeq_bool (lv l) (inject_Z z).
Definition at_safe_area_b (sa : Z) (a : attrs) : bool :=
  match sget (e_styles a) p_Origin, sget (e_styles a) p_Extent with
  | Some (VCoord x y), Some (VExtent h w) =>
      is_pct x sa && is_pct y sa && is_pct h (100 - 2 * sa) && is_pct w (100 - 2 * sa)
  | _, _ => false
  end.
Definition safe_area_b (sa : Z) (d' : doc) : bool := forallb (fun r => at_safe_area_b sa (eattrs r)) (d_regions d').

(* ---- 4 ------------------------------------------------------------------------------------------------- *)
Definition begin_of (a : attrs) : Q := match e_begin a with Some b => b | None => 0%Q end.
Definition same_timing (a b : attrs) : bool :=
  Qeq_bool (begin_of a) (begin_of b) &&
  match e_end a, e_end b with Some x, Some y => Qeq_bool x y | None, None => true | _, _ => false end.
Definition find_region (d : doc) (i : text) : option attrs :=
  match find (fun r => otext_eqb (e_id (eattrs r)) (Some i)) (d_regions d) with Some r => Some (eattrs r) | None => None end.
(* the writing mode the source document gives a region: specified, else the document's initial value, else lrtb *)
Definition source_wm (d : doc) (a : attrs) : option value :=
  match e_id a with
  | None => None
  | Some i =>
      match find_region d i with
      | None => None
      | Some s =>
          match sget (e_styles s) p_WritingMode with
          | Some v => Some v
          | None => match sget (d_initials d) p_WritingMode with Some v => Some v | None => Some (VEnum e_WritingModeType_lrtb) end
          end
      end
  end.
Definition enum_eqb (a b : option value) : bool :=
  match a, b with Some (VEnum x), Some (VEnum y) => x =? y | _, _ => false end.
(* "resulting alignment": the resulting displayAlign and, when text alignment is preserved, the region's own textAlign
   (both absent, or both the same value) — were two regions that differ in it merged, the paragraphs of the dropped one
   would no longer compute the alignment they had *)
Definition oenum_eqb (a b : option value) : bool :=
  match a, b with Some (VEnum x), Some (VEnum y) => x =? y | None, None => true | _, _ => false end.
Definition same_class (pta : bool) (d : doc) (a b : attrs) : bool :=
  same_timing a b && enum_eqb (source_wm d a) (source_wm d b) &&
  enum_eqb (sget (e_styles a) p_DisplayAlign) (sget (e_styles b) p_DisplayAlign) &&
  (negb pta || oenum_eqb (sget (e_styles a) p_TextAlign) (sget (e_styles b) p_TextAlign)).
Fixpoint pairwise {A} (f : A -> A -> bool) (l : list A) : bool :=
  match l with [] => true | x :: l' => forallb (fun y => f x y) l' && pairwise f l' end.
(* remaining regions are regions of the source, and no two of them are in the same class *)
Definition merged_b (pta : bool) (d d' : doc) : bool :=
  forallb (fun r => match e_id (eattrs r) with Some i => match find_region d i with Some _ => true | None => false end | None => false end)
          (d_regions d') &&
  pairwise (fun a b => negb (same_class pta d a b)) (map eattrs (d_regions d')).
Definition merged (pta : bool) (d d' : doc) : Prop := merged_b pta d d' = true.

(* every reference of the result names a region of the result *)
Definition refs_resolved (d' : doc) : Prop :=
  forall a r, In a (body_attrs d') -> e_region a = Some r ->
  exists reg, In reg (d_regions d') /\ e_id (eattrs reg) = Some r.
Definition has_region_b (d : doc) (i : text) : bool := match find_region d i with Some _ => true | None => false end.
Definition refs_resolved_b (d' : doc) : bool :=
  forallb (fun a => match e_region a with Some r => has_region_b d' r | None => true end) (body_attrs d').

Fixpoint zip {A B} (l : list A) (m : list B) : list (A * B) :=
  match l, m with x :: l', y :: m' => (x, y) :: zip l' m' | _, _ => [] end.
Definition same_skeleton (a b : attrs) : bool :=
  kind_eqb (e_kind a) (e_kind b) && otext_eqb (e_id a) (e_id b) && oQ_eqb (e_begin a) (e_begin b) &&
  oQ_eqb (e_end a) (e_end b) && text_eqb (e_text a) (e_text b).
(* one reference before/after; `strict` asks the retained region to have the same timing (begin None = 0) *)
Definition ref_ok (strict : bool) (d d' : doc) (r r' : option text) : bool :=
  match r, r' with
  | None, None => true
  | Some x, Some y =>
      has_region_b d' y &&
      if has_region_b d' x then text_eqb x y
      else match find_region d x, find_region d y with
           | Some ax, Some ay => negb strict || same_timing ax ay
           | _, _ => false
           end
  | _, _ => false
  end.
Definition redirected_b (strict : bool) (d d' : doc) : bool :=
  let l := body_attrs d in let l' := body_attrs d' in
  (Z.of_nat (length l) =? Z.of_nat (length l')) &&
  forallb (fun p => same_skeleton (fst p) (snd p) && ref_ok strict d d' (e_region (fst p)) (e_region (snd p))) (zip l l') &&
  (* all references to one source region go to one region *)
  pairwise (fun p q => negb (otext_eqb (e_region (fst p)) (e_region (fst q))) || otext_eqb (e_region (snd p)) (e_region (snd q)))
           (zip l l').

(* ---- 5 ------------------------------------------------------------------------------------------------- *)
Definition hiding_prop (p : Z) : bool := (p =? p_Display) || (p =? p_Visibility) || (p =? p_Opacity).
Definition no_hiding_b (d : doc) : bool :=
  forallb (fun a => forallb (fun kv => negb (hiding_prop (fst kv))) (e_styles a) &&
                    forallb (fun s => negb (hiding_prop (a_prop s))) (e_anims a)) (doc_attrs d) &&
  forallb (fun kv => negb (hiding_prop (fst kv))) (d_initials d).

Definition para_of (chain : list attrs) : option text :=
  match find (fun a => kind_eqb (e_kind a) KP) chain with Some a => e_id a | None => None end.
Definition tleaf := (option text * leaf)%type.
Definition tleaf_eqb (a b : tleaf) : bool := otext_eqb (fst a) (fst b) && leaf_eqb (snd a) (snd b).
(* leaves_spec with every leaf tagged by the xml:id of its paragraph *)
Definition tagged_leaves (d : doc) (t : Q) (r : attrs) (sel : option text) : list tleaf :=
  let riv := resolve root_interval (e_begin r) (e_end r) in
  if is_active t riv && displayed d t riv r then
    match d_body d with
    | None => []
    | Some b => flat_map (fun c => map (pair (para_of c)) (leaf_of (last c r)))
                         (filter (chain_visible d t sel root_interval None) (chains b))
    end
  else [].
Definition default_region_attrs : attrs := mkAttrs KRegion (Some default_region_id) None None None [] [] false [] [].
Definition visible (d : doc) (t : Q) : list tleaf :=
  match d_regions d with
  | [] => tagged_leaves d t default_region_attrs None
  | rs => flat_map (fun r => tagged_leaves d t (eattrs r) (e_id (eattrs r))) rs
  end.
Definition timeline_at (d d' : doc) (t : Q) : Prop := Permutation (visible d t) (visible d' t).
Definition count_tl (x : tleaf) (l : list tleaf) : Z := Z.of_nat (length (filter (tleaf_eqb x) l)).
Definition perm_b (l m : list tleaf) : bool :=
  (Z.of_nat (length l) =? Z.of_nat (length m)) && forallb (fun x => count_tl x l =? count_tl x m) l.
Definition timeline_b (d d' : doc) (t : Q) : bool := perm_b (visible d t) (visible d' t).
(* one direction: nothing visible before is lost *)
Definition timeline_kept_b (d d' : doc) (t : Q) : bool :=
  forallb (fun x => count_tl x (visible d t) <=? count_tl x (visible d' t)) (visible d t).

(* ---- 6 ------------------------------------------------------------------------------------------------- *)
(* on the elements of a snapshot *)
Definition computed_attrs_b (pta : bool) (color bg : option Z) (a : attrs) : bool :=
  match color, sget (e_styles a) p_Color with Some c, Some v => is_color v c | _, _ => true end &&
  match e_kind a with
  | KP => match bg with Some c => match sget (e_styles a) p_BackgroundColor with Some v => is_color v c | None => false end | None => true end &&
          (pta || match sget (e_styles a) p_TextAlign with Some (VEnum x) => x =? e_TextAlignType_center | _ => false end)
  | _ => true
  end.
Definition computed_b (pta : bool) (color bg : option Z) (snapshot : list elem) : bool :=
  forallb (computed_attrs_b pta color bg) (flat_map elems_of snapshot).

(* preserved alignment: the text alignment TTML computes for the last element of a path (root of the body first) that is shown in
   region r, in a document without tts:textAlign animation — the nearest specified value going up the path, else the region's,
   else the document's initial value, else the default *)
Definition own_align (a : attrs) : option value := sget (e_styles a) p_TextAlign.
Fixpoint cascade_align (inh : option value) (path : list attrs) : option value :=
  match path with
  | [] => inh
  | a :: path' => cascade_align (match own_align a with Some v => Some v | None => inh end) path'
  end.
Definition initial_align (d : doc) : option value :=
  match sget (d_initials d) p_TextAlign with Some v => Some v | None => sget initial_values p_TextAlign end.
Definition computed_align (d : doc) (r : attrs) (path : list attrs) : option value :=
  cascade_align (match own_align r with Some v => Some v | None => initial_align d end) path.
