(* S for C07, part D: the WebVTT cue settings.  "optional cue settings (line, align) agree with the region's computed position
   and the paragraph's alignment".  Written from WebVTT 4.4 (line: the position of the cue box's start / centre / end edge, as
   a percentage of the video height, according to the line alignment; align: the alignment of the text within the cue box) and
   TTML2 (tts:displayAlign places the content at the before edge / centre / after edge of the region; tts:textAlign start and end
   are relative to the inline progression direction).  Shares no code with Model/CueWriter.v.

   A cue of the snapshot covers a SCOPE: one region when line positions are written (one cue per region), else all regions.
   - line setting of a scope = the edge of the region that displayAlign selects: top y (before, line alignment start), y + h/2
     (center), y + h (after, end), in whole percent (nearest integer; a tie may go either way), limited to the 0..100 of a WebVTT
     percentage;
   - align setting of a scope = the alignment its paragraphs agree on: when every paragraph of the scope that shows text has the
     same computed alignment, the cue carries it; when they disagree no single setting is right and none is prescribed. *)
From Coq Require Import Qabs.
From TT Require Import Model.Doc Gen.StyleTables Spec.IsdSpec Spec.CueSpec.

Definition kw_start : text := [115; 116; 97; 114; 116].
Definition kw_center : text := [99; 101; 110; 116; 101; 114].
Definition kw_end : text := [101; 110; 100].
Definition kw_left : text := [108; 101; 102; 116].
Definition kw_right : text := [114; 105; 103; 104; 116].

(* the prescribed line: exact position (a rational percentage) and line alignment keyword *)
Definition spec_line (r : attrs) : option (Q * text) :=
  match sget (e_styles r) p_Position, sget (e_styles r) p_Extent, sget (e_styles r) p_DisplayAlign with
  | Some (VPos _ _ y _), Some (VExtent h _), Some (VEnum da) =>
      if da =? e_DisplayAlignType_before then Some (lv y, kw_start)
      else if da =? e_DisplayAlignType_after then Some (Qplus (lv y) (lv h), kw_end)
      else Some (Qplus (lv y) (Qdiv (lv h) (inject_Z 2)), kw_center)
  | _, _, _ => None
  end.
(* a WebVTT percentage lies in 0..100: a region edge outside the root container is written as the nearest bound *)
Definition clamp_q (q : Q) : Q := if Qle_bool q (inject_Z 0) then inject_Z 0 else if Qle_bool (inject_Z 100) q then inject_Z 100 else q.
(* n is the position q, limited to 0..100, in whole percent (nearest integer; the implementation computes q in binary floating
   point: 1e-6 slack) *)
Definition whole_percent (q : Q) (n : Z) : bool :=
  (0 <=? n) && (n <=? 100) && Qle_bool (Qabs (Qminus (clamp_q q) (inject_Z n))) (Qplus (Qmake 1 2) (Qmake 1 1000000)).

Definition spec_align (p : attrs) : option text :=
  let rtl := match sget (e_styles p) p_Direction with Some (VEnum x) => x =? e_DirectionType_rtl | _ => false end in
  match sget (e_styles p) p_TextAlign with
  | Some (VEnum ta) =>
      if ta =? e_TextAlignType_center then Some kw_center
      else if ta =? e_TextAlignType_start then Some (if rtl then kw_right else kw_left)
      else if ta =? e_TextAlignType_end then Some (if rtl then kw_left else kw_right)
      else None
  | _ => None
  end.

(* the paragraphs of a snapshot element that show text (a visible character outside ruby annotations), with their alignment *)
Definition shows_text (e : elem) : bool := existsb (fun x => visible_char (fst x)) (styled_chars false plain_style e).
Fixpoint paragraph_aligns (e : elem) : list (option text) :=
  match e with
  | Elem a cs =>
      match e_kind a with
      | KP => if shows_text e then [spec_align a] else []
      | KBr | KText => []
      | _ => (fix go (l : list elem) : list (option text) := match l with [] => [] | c :: l' => paragraph_aligns c ++ go l' end) cs
      end
  end.
Definition otext_eq (a b : option text) : bool :=
  match a, b with Some x, Some y => text_eqb x y | None, None => true | _, _ => false end.
(* Some a: all agree on a; None: nothing prescribed *)
Definition agreed_align (l : list (option text)) : option (option text) :=
  match l with
  | [] => None
  | a :: l' => if forallb (otext_eq a) l' then Some a else None
  end.

(* the settings a cue carries: parsed from the settings text of the timing line *)
Definition setting_value (name : text) (settings : text) : option text :=
  match filter (fun s => has_prefix (name ++ [58]) s) (split_ws settings) with
  | [s] => Some (skipn (S (length name)) s)
  | [] => None
  | _ => Some []                     (* duplicated setting: never right *)
  end.
Definition kw_line : text := [108; 105; 110; 101].
Definition kw_align : text := [97; 108; 105; 103; 110].
(* "N%,ALIGN" *)
Definition parse_line_value (v : text) : option (Z * text) :=
  match split_on 44 v with
  | [p; a] => match rev p with
              | 37 :: rn => let n := rev rn in
                            match n with
                            | 45 :: m => if all_digits m then Some (- num_of 0 m, a) else None
                            | _ => if all_digits n then Some (num_of 0 n, a) else None
                            end
              | _ => None
              end
  | _ => None
  end.

(* one scope (the regions it covers) against one cue *)
Definition scope_ok (lp ta : bool) (scope : list elem) (c : rcue) : bool :=
  (match setting_value kw_line (r_settings c), lp, scope with
   | None, false, _ => true
   | Some v, true, [r] =>
       match parse_line_value v, spec_line (eattrs r) with
       | Some (n, a), Some (q, a') => whole_percent q n && text_eqb a a'
       | _, _ => false
       end
   | _, _, _ => false
   end) &&
  (match setting_value kw_align (r_settings c), ta with
   | None, false => true
   | got, true =>
       match agreed_align (flat_map paragraph_aligns scope) with
       | Some want => otext_eq got want
       | None => true
       end
   | Some _, false => false
   end).
Fixpoint scopes_ok (lp ta : bool) (scopes : list (list elem)) (cs : list rcue) : bool :=
  match scopes, cs with
  | [], [] => true
  | s :: scopes', c :: cs' => scope_ok lp ta s c && scopes_ok lp ta scopes' cs'
  | _, _ => false
  end.
(* the scopes of a snapshot that get a cue: those that show text *)
Definition snapshot_scopes (lp : bool) (regions : list elem) : list (list elem) :=
  if lp then map (fun r => [r]) (filter shows_text regions)
  else if existsb shows_text regions then [regions] else [].
(* the cue settings of a file are what the snapshots prescribe *)
Definition settings_ok (lp ta : bool) (seq : list (Q * list elem)) (cs : list rcue) : bool :=
  forallb (fun x => scopes_ok lp ta (snapshot_scopes lp (snd x)) (filter (fun c => r_begin c =? round_ms (fst x)) cs)) seq.
