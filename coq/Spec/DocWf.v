(* Well-formedness of a canonical-model document, as the model API (ttconv/model.py) enforces it: the type tests of
   the push_child / push_children methods (which kinds an element of each kind accepts as children), regions are
   childless Region objects registered under an id, the body is a Body.  The Ruby/Rtc *sequence* patterns are not
   part of this predicate (only the kinds they draw from): it is closed under removing children, which is what the
   per-region clones of the significant-times cache do.  Used by C01 (top-level theorem) and C14 (soundness of the
   content interval).  C15 shows how the API keeps documents inside this predicate. *)
From TT Require Import Model.Doc.

(* model.py: Body.push_child, Div.push_child, P.push_child, Span.push_child, Ruby.push_children, Rb/Rt/Rp.push_child,
   Rbc.push_child, Rtc.push_child, Br.push_child, Text.push_child (the last two raise always) *)
Definition child_ok (parent child : kind) : bool :=
  match parent, child with
  | KBody, KDiv => true
  | KDiv, KP | KDiv, KDiv => true
  | KP, KSpan | KP, KBr | KP, KRuby => true
  | KSpan, KSpan | KSpan, KBr | KSpan, KText => true
  | KRuby, KRb | KRuby, KRt | KRuby, KRp | KRuby, KRbc | KRuby, KRtc => true
  | KRb, KSpan | KRt, KSpan | KRp, KSpan => true
  | KRbc, KRb => true
  | KRtc, KRt | KRtc, KRp => true
  | _, _ => false
  end.

Fixpoint cm_ok (e : elem) : bool :=
  match e with
  | Elem a cs =>
      forallb (fun c => child_ok (e_kind a) (e_kind (eattrs c))) cs &&
      (fix go (l : list elem) : bool := match l with [] => true | c :: l' => cm_ok c && go l' end) cs
  end.

Definition region_ok (r : elem) : bool :=
  kind_eqb (e_kind (eattrs r)) KRegion &&
  match e_id (eattrs r) with Some _ => true | None => false end &&
  match echildren r with [] => true | _ => false end.

Definition body_ok (b : elem) : bool := kind_eqb (e_kind (eattrs b)) KBody && cm_ok b.

Definition doc_wf (d : doc) : bool :=
  forallb region_ok (d_regions d) && match d_body d with Some b => body_ok b | None => true end.
